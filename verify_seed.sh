#!/bin/bash
# usage: verify_seed.sh <ID> <seed-out-dir> <pkgdir-for-demo> "<pkgs to test>"
# Confirms in a scratch worktree: demo passes on unchanged code, patch applies and builds, demo fails with
# the patch, existing tests of the given packages still pass with the patch (demo excluded).
ID=$1; OUT=$2; DEMODIR=$3; PKGS=$4
export GOFLAGS=-mod=mod GOPROXY=off GOSUMDB=off GOTOOLCHAIN=local
W=/tmp/vs/$ID
rm -rf $W; mkdir -p /tmp/vs
git -C /repo worktree prune; git -C /repo worktree add -q -f --detach $W HEAD || exit 3
cd $W
cp $OUT/demo_test.go $DEMODIR/zz_seed_demo_test.go
echo "== demo on unchanged code (expect ok)"
go test $RACE -vet=off -count=1 -run 'Demo|C[0-9][0-9]' ./$DEMODIR/ 2>&1 | tail -3
git apply $OUT/patch.diff || { echo "PATCH DOES NOT APPLY"; }
echo "== build with patch"
go build ./... 2>&1 | tail -3
echo "== demo with patch (expect FAIL)"
go test $RACE -vet=off -count=1 -run 'Demo|C[0-9][0-9]' ./$DEMODIR/ 2>&1 | tail -4
rm $DEMODIR/zz_seed_demo_test.go
echo "== existing tests with patch (expect ok)"
go test -vet=off -count=1 $PKGS 2>&1 | tail -6
cd /; git -C /repo worktree remove --force $W
