#!/bin/sh
# usage: selftest_mut.sh <PROP> <file-in-repo> <python-old> <python-new>  -- applies a textual mutation, runs the check, reverts.
PROP=$1; FILE=$2
python3 - "$FILE" "$3" "$4" <<'PY'
import sys
p,old,new=sys.argv[1],sys.argv[2],sys.argv[3]
s=open('/repo/'+p).read()
assert old in s, "pattern not found"
open('/repo/'+p,'w').write(s.replace(old,new,1))
PY
[ $? -eq 0 ] || exit 3
rm -f /verif/replay/out/$PROP-*
/verif/bin/govc check $PROP quick | cut -c1-260
git -C /repo checkout -- $FILE # (only the one mutated file)
python3 - $PROP <<'PY'
import json,glob,sys
for f in glob.glob('/verif/replay/out/%s-*'%sys.argv[1]):
    d=json.load(open(f)); print('  >>', d['obligation'], '|', d.get('replay'), '|', d.get('downstream_replay'))
PY
