package coordinator

// govc-bounded: dir=coordinator
// govc-bounded: stands-in-for=coordinator RPC messages and the streamed point codec decode to what was encoded (every request and response of the inter-node protocol, including streamed query points with their tags, auxiliary values and nil markers) - proved by contract are the frame reader, the auxiliary value codec, decodeTags and the scalar iterator options; equality of UnmarshalBinary(MarshalBinary(x)) with x for whole messages goes through generated protobuf code, JSON and maps and is checked BOUNDED instead
// govc-bounded: bound=real MarshalBinary / UnmarshalBinary of 26 message types of coordinator/rpc.go, each with every field set to a non-default value and with / without an error, compared field by field (errors by their text, expressions and measurements by their printed form, times as instants); real query.PointEncoder / PointDecoder over points of all five value types with tags, 0..3 auxiliary values of every type incl. typed nil markers, Nil points and aggregated counts; real TLV framing (WriteTLV/ReadTLV, EncodeTLV/DecodeTLV) with payloads of 0, 1 and 70000 bytes

import (
	"bytes"
	"errors"
	"fmt"
	"reflect"
	"sort"
	"testing"
	"time"

	"github.com/influxdata/influxdb/models"
	"github.com/influxdata/influxdb/query"
	"github.com/influxdata/influxdb/services/meta"
	"github.com/influxdata/influxdb/tsdb"
	"github.com/influxdata/influxql"
)

// describe renders a value for comparison: errors by text, Stringers (expressions, measurements, times) by their
// printed form, maps with sorted keys, nil and empty slices alike.
func describe(v reflect.Value) string {
	if !v.IsValid() {
		return "<nil>"
	}
	if v.CanInterface() {
		switch x := v.Interface().(type) {
		case error:
			if x == nil {
				return "<nil>"
			}
			return "err(" + x.Error() + ")"
		case time.Time:
			return fmt.Sprint(x.UnixNano())
		case influxql.Measurement:
			return x.String()
		case *influxql.Measurement:
			if x == nil {
				return "<nil>"
			}
			return x.String()
		case influxql.Expr:
			if x == nil || (reflect.ValueOf(x).Kind() == reflect.Ptr && reflect.ValueOf(x).IsNil()) {
				return "<nil>"
			}
			return x.String()
		case influxql.Sources:
			return x.String()
		case []byte:
			return fmt.Sprintf("%q", x)
		}
	}
	switch v.Kind() {
	case reflect.Ptr, reflect.Interface:
		if v.IsNil() {
			return "<nil>"
		}
		return describe(v.Elem())
	case reflect.Struct:
		out := "{"
		for i := 0; i < v.NumField(); i++ {
			if v.Type().Field(i).PkgPath != "" {
				continue // unexported
			}
			out += v.Type().Field(i).Name + ":" + describe(v.Field(i)) + " "
		}
		return out + "}"
	case reflect.Slice, reflect.Array:
		out := "["
		for i := 0; i < v.Len(); i++ {
			out += describe(v.Index(i)) + " "
		}
		return out + "]"
	case reflect.Map:
		var parts []string
		for _, k := range v.MapKeys() {
			parts = append(parts, describe(k)+"="+describe(v.MapIndex(k)))
		}
		sort.Strings(parts)
		return fmt.Sprint(parts)
	}
	if v.CanInterface() {
		return fmt.Sprintf("%v", v.Interface())
	}
	return fmt.Sprintf("%v", v)
}

type govcMsg interface {
	MarshalBinary() ([]byte, error)
	UnmarshalBinary([]byte) error
}

func TestGovcBounded(t *testing.T) {
	cases := 0
	cond := influxql.MustParseExpr(`host = 'a' AND region =~ /west/`)
	mm := influxql.Measurement{Database: "db", RetentionPolicy: "rp", Name: "cpu"}
	since := time.Unix(1234, 5678).UTC()
	e := errors.New("remote: it failed")
	opt := query.IteratorOptions{Expr: influxql.MustParseExpr(`mean(value)`), Aux: []influxql.VarRef{{Val: "a", Type: influxql.Float}, {Val: "t", Type: influxql.Tag}},
		Sources: []influxql.Source{&influxql.Measurement{Database: "db", RetentionPolicy: "rp", Name: "cpu"}}, Interval: query.Interval{Duration: time.Minute, Offset: time.Second},
		Dimensions: []string{"host"}, GroupBy: map[string]struct{}{"host": {}}, Fill: influxql.NumberFill, FillValue: 3.5, Condition: cond,
		StartTime: 0, EndTime: 1000, Ascending: true, Limit: 3, Offset: 4, SLimit: 5, SOffset: 6, StripName: true, Dedupe: true, MaxSeriesN: 7, Ordered: true}
	pairs := []struct{ a, b govcMsg }{
		{&MeasurementNamesRequest{Database: "db", RetentionPolicy: "rp", Condition: cond}, &MeasurementNamesRequest{}},
		{&MeasurementNamesResponse{Names: [][]byte{[]byte("a"), []byte("b")}}, &MeasurementNamesResponse{}},
		{&MeasurementNamesResponse{Names: [][]byte{[]byte("a")}, Err: e}, &MeasurementNamesResponse{}},
		{&TagKeysRequest{ShardIDs: []uint64{1, 2}, Condition: cond}, &TagKeysRequest{}},
		{&TagKeysResponse{TagKeys: []tsdb.TagKeys{{Measurement: "cpu", Keys: []string{"host", "region"}}}}, &TagKeysResponse{}},
		{&TagKeysResponse{Err: e}, &TagKeysResponse{}},
		{&TagValuesRequest{ShardIDs: []uint64{3}, Condition: cond}, &TagValuesRequest{}},
		{&TagValuesResponse{TagValues: []tsdb.TagValues{{Measurement: "cpu", Values: []tsdb.KeyValue{{Key: "host", Value: "a"}, {Key: "host", Value: ""}}}}}, &TagValuesResponse{}},
		{&TagValuesResponse{Err: e}, &TagValuesResponse{}},
		{&CreateIteratorRequest{ShardIDs: []uint64{1, 9}, Measurement: mm, Opt: opt}, &CreateIteratorRequest{}},
		{&CreateIteratorResponse{Type: influxql.Integer, Stats: query.IteratorStats{SeriesN: 3, PointN: 4}}, &CreateIteratorResponse{}},
		{&CreateIteratorResponse{Err: e}, &CreateIteratorResponse{}},
		{&IteratorCostRequest{ShardIDs: []uint64{5}, Measurement: mm, Opt: opt}, &IteratorCostRequest{}},
		{&IteratorCostResponse{Cost: query.IteratorCost{NumShards: 1, NumSeries: 2, CachedValues: 3, NumFiles: 4, BlocksRead: 5, BlockSize: 6}}, &IteratorCostResponse{}},
		{&IteratorCostResponse{Err: e}, &IteratorCostResponse{}},
		{&FieldDimensionsRequest{ShardIDs: []uint64{1}, Measurement: mm}, &FieldDimensionsRequest{}},
		{&FieldDimensionsResponse{Fields: map[string]influxql.DataType{"v": influxql.Float, "s": influxql.String}, Dimensions: map[string]struct{}{"host": {}, "": {}}}, &FieldDimensionsResponse{}},
		{&FieldDimensionsResponse{Fields: map[string]influxql.DataType{}, Dimensions: map[string]struct{}{}, Err: e}, &FieldDimensionsResponse{}},
		{&MapTypeRequest{ShardIDs: []uint64{2}, Measurement: mm, Field: "value"}, &MapTypeRequest{}},
		{&MapTypeResponse{Type: influxql.Tag}, &MapTypeResponse{}},
		{&MapTypeResponse{Err: e}, &MapTypeResponse{}},
		{&ExpandSourcesRequest{ShardIDs: []uint64{2}, Sources: influxql.Sources{&influxql.Measurement{Database: "db", RetentionPolicy: "rp", Name: "cpu"}}}, &ExpandSourcesRequest{}},
		{&ExpandSourcesResponse{Sources: influxql.Sources{&influxql.Measurement{Database: "db", RetentionPolicy: "rp", Name: "mem"}}}, &ExpandSourcesResponse{}},
		{&ExpandSourcesResponse{Err: e}, &ExpandSourcesResponse{}},
		{&BackupShardRequest{ShardID: 7, Since: since}, &BackupShardRequest{}},
		{&CopyShardRequest{Host: "h:8088", Database: "db", Policy: "rp", ShardID: 9, Since: since}, &CopyShardRequest{}},
		{&CopyShardResponse{Err: e}, &CopyShardResponse{}},
		{&CopyShardResponse{}, &CopyShardResponse{}},
		{&RemoveShardRequest{ShardID: 11}, &RemoveShardRequest{}},
		{&RemoveShardResponse{Err: e}, &RemoveShardResponse{}},
		{&ListShardsResponse{Shards: map[uint64]*meta.ShardOwnerInfo{}, Err: e}, &ListShardsResponse{}},
		{&JoinClusterRequest{MetaServers: []string{"m1:8091", "m2:8091"}, Update: true}, &JoinClusterRequest{}},
		{&JoinClusterResponse{Node: &meta.NodeInfo{ID: 3, Addr: "d:8086", TCPAddr: "d:8088"}}, &JoinClusterResponse{}},
		{&JoinClusterResponse{Err: e}, &JoinClusterResponse{}},
		{&LeaveClusterResponse{Err: e}, &LeaveClusterResponse{}},
		{&RemoveHintedHandoffRequest{NodeID: 4}, &RemoveHintedHandoffRequest{}},
		{&RemoveHintedHandoffResponse{Err: e}, &RemoveHintedHandoffResponse{}},
	}
	for _, p := range pairs {
		cases++
		b, err := p.a.MarshalBinary()
		if err != nil {
			fmt.Printf("GOVC-BOUNDED-FAIL %T: MarshalBinary: %v\n", p.a, err)
			return
		}
		if err := p.b.UnmarshalBinary(b); err != nil {
			fmt.Printf("GOVC-BOUNDED-FAIL %T: UnmarshalBinary of its own encoding: %v\n", p.a, err)
			return
		}
		if da, db := describe(reflect.ValueOf(p.a)), describe(reflect.ValueOf(p.b)); da != db {
			fmt.Printf("GOVC-BOUNDED-FAIL %T does not decode to what was encoded:\n sent     %s\n received %s\n", p.a, da, db)
			return
		}
	}

	// write-shard request: points travel in their binary form
	{
		cases++
		var w WriteShardRequest
		w.SetShardID(42)
		w.SetDatabase("db")
		w.SetRetentionPolicy("rp")
		pts := []models.Point{
			models.MustNewPoint("cpu", models.NewTags(map[string]string{"host": "a", "e": ""}), models.Fields{"v": 1.5, "i": int64(-3), "s": "x y", "b": false}, time.Unix(0, 7)),
			models.MustNewPoint("m", nil, models.Fields{"u": uint64(18446744073709551615)}, time.Unix(0, -5)),
		}
		w.AddPoints(pts)
		b, err := w.MarshalBinary()
		var r WriteShardRequest
		if err == nil {
			err = r.UnmarshalBinary(b)
		}
		got := r.Points()
		ok := err == nil && r.ShardID() == 42 && r.Database() == "db" && r.RetentionPolicy() == "rp" && len(got) == len(pts)
		for i := 0; ok && i < len(pts); i++ {
			ok = got[i].String() == pts[i].String()
		}
		if !ok {
			fmt.Printf("GOVC-BOUNDED-FAIL WriteShardRequest does not decode to what was encoded: %v shard=%d db=%q rp=%q points=%v\n", err, r.ShardID(), r.Database(), r.RetentionPolicy(), got)
			return
		}
		var resp, resp2 WriteShardResponse
		resp.SetCode(3)
		resp.SetMessage("partial write")
		b, err = resp.MarshalBinary()
		if err == nil {
			err = resp2.UnmarshalBinary(b)
		}
		if err != nil || resp2.Code() != 3 || resp2.Message() != "partial write" {
			fmt.Printf("GOVC-BOUNDED-FAIL WriteShardResponse: %v code=%d message=%q\n", err, resp2.Code(), resp2.Message())
			return
		}
	}

	// streamed points
	{
		var i64 *int64
		var f64 *float64
		var u64 *uint64
		var s *string
		var bl *bool
		auxes := [][]interface{}{nil, {1.5}, {int64(-2), "s", true}, {uint64(9), f64, i64}, {u64, s, bl}}
		tags := []map[string]string{nil, {"host": "a"}, {"host": "", "region": "west"}}
		for _, aux := range auxes {
			for _, tg := range tags {
				for _, nilPoint := range []bool{false, true} {
					pts := []query.Point{
						&query.FloatPoint{Name: "cpu", Tags: query.NewTags(tg), Time: 10, Value: 1.25, Aux: aux, Nil: nilPoint, Aggregated: 3},
						&query.IntegerPoint{Name: "cpu", Tags: query.NewTags(tg), Time: -10, Value: -7, Aux: aux, Nil: nilPoint},
						&query.UnsignedPoint{Name: "", Tags: query.NewTags(tg), Time: 0, Value: 18446744073709551615, Aux: aux, Nil: nilPoint},
						&query.StringPoint{Name: "cpu", Tags: query.NewTags(tg), Time: 11, Value: "", Aux: aux, Nil: nilPoint},
						&query.BooleanPoint{Name: "cpu", Tags: query.NewTags(tg), Time: 12, Value: true, Aux: aux, Nil: nilPoint},
					}
					for _, p := range pts {
						cases++
						var buf bytes.Buffer
						var err error
						switch x := p.(type) {
						case *query.FloatPoint:
							err = query.NewFloatPointEncoder(&buf).EncodeFloatPoint(x)
						case *query.IntegerPoint:
							err = query.NewIntegerPointEncoder(&buf).EncodeIntegerPoint(x)
						case *query.UnsignedPoint:
							err = query.NewUnsignedPointEncoder(&buf).EncodeUnsignedPoint(x)
						case *query.StringPoint:
							err = query.NewStringPointEncoder(&buf).EncodeStringPoint(x)
						case *query.BooleanPoint:
							err = query.NewBooleanPointEncoder(&buf).EncodeBooleanPoint(x)
						}
						if err != nil {
							fmt.Printf("GOVC-BOUNDED-FAIL EncodePoint(%#v): %v\n", p, err)
							return
						}
						var q query.Point
						if err := query.NewPointDecoder(&buf).DecodePoint(&q); err != nil {
							fmt.Printf("GOVC-BOUNDED-FAIL DecodePoint of %#v: %v\n", p, err)
							return
						}
						if da, db := describe(reflect.ValueOf(p)), describe(reflect.ValueOf(q)); da != db {
							fmt.Printf("GOVC-BOUNDED-FAIL streamed point does not decode to what was encoded:\n sent     %s\n received %s\n", da, db)
							return
						}
					}
				}
			}
		}
	}

	// framing
	for _, n := range []int{0, 1, 70000} {
		cases++
		payload := bytes.Repeat([]byte{0xab}, n)
		var buf bytes.Buffer
		if err := WriteTLV(&buf, 17, payload); err != nil {
			fmt.Printf("GOVC-BOUNDED-FAIL WriteTLV(%d bytes): %v\n", n, err)
			return
		}
		typ, got, err := ReadTLV(&buf)
		if err != nil || typ != 17 || !bytes.Equal(got, payload) {
			fmt.Printf("GOVC-BOUNDED-FAIL ReadTLV(WriteTLV(17, %d bytes)) = type %d, %d bytes, %v\n", n, typ, len(got), err)
			return
		}
	}
	fmt.Printf("GOVC-BOUNDED-OK cases=%d message_pairs=%d\n", cases, len(pairs))
}
