package tsm1_test

// govc-bounded: dir=tsdb/engine/tsm1
// govc-bounded: stands-in-for=tsdb/engine/tsm1 Engine.deleteSeriesRange / Cache.DeleteRange against a cache snapshot that is pending (a completed delete removes the selected points wherever they are held - hot cache, a snapshot kept for a retry, data files - and they do not come back after the next snapshot or a restart); the contracts on the delete path say nothing about the snapshot half of the cache; checked BOUNDED
// govc-bounded: bound=real engine (inmem and tsi1 index); histories: write two series; cache snapshot that succeeds, fails (the compactor's directory is unavailable, the snapshot is kept for a retry) or is not attempted; optionally one more write; delete of one series over the full range or over [0s,5s]; the reads of both series are compared with the expected points right after the delete, after the next successful snapshot and after a restart. Histories with a FAILED snapshot before the delete are a recorded known finding (case id failed-snapshot); every other failing history is a violation

import (
	"context"
	"fmt"
	"os"
	"path/filepath"
	"strings"
	"testing"
	"time"

	"github.com/influxdata/influxdb/models"
	"github.com/influxdata/influxdb/query"
	"github.com/influxdata/influxdb/tsdb"
	"github.com/influxdata/influxdb/tsdb/engine/tsm1"
	"github.com/influxdata/influxdb/tsdb/index/inmem"
	"github.com/influxdata/influxql"
)

// govcSnapDelSets exposes the series id set of the (single) shard to the engine, the
// way tsdb.Store's shardSet does.
type govcSnapDelSets struct {
	indexes []tsdb.Index
}

func (a *govcSnapDelSets) ForEach(f func(ids *tsdb.SeriesIDSet)) error {
	for _, idx := range a.indexes {
		f(idx.SeriesIDSet())
	}
	return nil
}

type govcSnapDelElem struct {
	name []byte
	tags models.Tags
}

func (s govcSnapDelElem) Name() []byte        { return s.name }
func (s govcSnapDelElem) Tags() models.Tags   { return s.tags }
func (s govcSnapDelElem) Deleted() bool       { return false }
func (s govcSnapDelElem) Expr() influxql.Expr { return nil }

type govcSnapDelSeriesIterator struct {
	keys [][]byte
}

func (itr *govcSnapDelSeriesIterator) Close() error { return nil }
func (itr *govcSnapDelSeriesIterator) Next() (tsdb.SeriesElem, error) {
	if len(itr.keys) == 0 {
		return nil, nil
	}
	name, tags := models.ParseKeyBytes(itr.keys[0])
	itr.keys = itr.keys[1:]
	return govcSnapDelElem{name: name, tags: tags}, nil
}

// govcSnapDelPlanner never plans a compaction.
type govcSnapDelPlanner struct{}

func (m *govcSnapDelPlanner) Plan(lastWrite time.Time) []tsm1.CompactionGroup { return nil }
func (m *govcSnapDelPlanner) PlanLevel(level int) []tsm1.CompactionGroup      { return nil }
func (m *govcSnapDelPlanner) PlanOptimize() []tsm1.CompactionGroup            { return nil }
func (m *govcSnapDelPlanner) Release(groups []tsm1.CompactionGroup)           {}
func (m *govcSnapDelPlanner) FullyCompacted() bool                            { return false }
func (m *govcSnapDelPlanner) ForceFull()                                      {}
func (m *govcSnapDelPlanner) SetFileStore(fs *tsm1.FileStore)                 {}

type govcSnapDelShard struct {
	*tsm1.Engine
	index tsdb.Index
	sfile *tsdb.SeriesFile
	root  string
}

func govcSnapDelOpenShard(t *testing.T, indexType string, root string) *govcSnapDelShard {
	t.Helper()
	var err error
	if root == "" {
		root, err = os.MkdirTemp("", "govc-snapdel-")
		if err != nil {
			t.Fatal(err)
		}
	}
	shardPath := filepath.Join(root, "data", "db0", "rp0", "1")
	walPath := filepath.Join(root, "wal", "db0", "rp0", "1")
	if err := os.MkdirAll(shardPath, 0777); err != nil {
		t.Fatal(err)
	}

	sfile := tsdb.NewSeriesFile(filepath.Join(root, "data", "db0", tsdb.SeriesFileDirectory))
	if err := sfile.Open(); err != nil {
		t.Fatal(err)
	}

	sets := &govcSnapDelSets{}
	opt := tsdb.NewEngineOptions()
	opt.IndexVersion = indexType
	if indexType == tsdb.InmemIndexName {
		opt.InmemIndex = inmem.NewIndex("db0", sfile)
	}
	opt.SeriesIDSets = sets

	idx := tsdb.MustOpenIndex(1, "db0", filepath.Join(shardPath, "index"), tsdb.NewSeriesIDSet(), sfile, opt)
	sets.indexes = append(sets.indexes, idx)

	e := tsm1.NewEngine(1, idx, shardPath, walPath, sfile, opt).(*tsm1.Engine)
	// No level/full compactions during the test: only explicit snapshots.
	e.CompactionPlan = &govcSnapDelPlanner{}
	if err := e.Open(); err != nil {
		t.Fatal(err)
	}
	return &govcSnapDelShard{Engine: e, index: idx, sfile: sfile, root: root}
}

func (s *govcSnapDelShard) close() {
	s.Engine.Close()
	s.index.Close()
	s.sfile.Close()
}

func (s *govcSnapDelShard) mustWrite(t *testing.T, lines string) {
	t.Helper()
	points, err := models.ParsePointsString(lines)
	if err != nil {
		t.Fatal(err)
	}
	for _, p := range points {
		if err := s.CreateSeriesIfNotExists(p.Key(), p.Name(), p.Tags()); err != nil {
			t.Fatal(err)
		}
	}
	if err := s.WritePoints(points); err != nil {
		t.Fatal(err)
	}
}

// mustRead returns "time=value" for every point of cpu.value with host=<host>.
func (s *govcSnapDelShard) mustRead(t *testing.T, host string) string {
	t.Helper()
	itr, err := s.CreateIterator(context.Background(), "cpu", query.IteratorOptions{
		Expr:       influxql.MustParseExpr(`value`),
		Condition:  influxql.MustParseExpr(fmt.Sprintf(`host = '%s'`, host)),
		Dimensions: []string{"host"},
		StartTime:  influxql.MinTime,
		EndTime:    influxql.MaxTime,
		Ascending:  true,
	})
	if err != nil {
		t.Fatal(err)
	}
	if itr == nil {
		return "[]"
	}
	defer itr.Close()

	got := []string{}
	fitr := itr.(query.FloatIterator)
	for {
		p, err := fitr.Next()
		if err != nil {
			t.Fatal(err)
		} else if p == nil {
			break
		}
		got = append(got, fmt.Sprintf("%ds=%v", p.Time/1000000000, p.Value))
	}
	return fmt.Sprint(got)
}





func TestGovcBounded(t *testing.T) {
	known := map[string]bool{}
	for _, k := range strings.Split(os.Getenv("GOVC_KNOWN_CASES"), ";") {
		if k != "" {
			known[k] = true
		}
	}
	cases, waived := 0, 0
	for _, indexType := range tsdb.RegisteredIndexes() {
		for _, snap := range []string{"none", "ok", "failed"} {
			for _, second := range []bool{false, true} {
				for _, full := range []bool{true, false} {
					cases++
					desc := fmt.Sprintf("index %s: write cpu,host=A at 1s and 9s and cpu,host=B at 1s; snapshot: %s; second write of A at 2s: %v; delete cpu,host=A over %s",
						indexType, snap, second, map[bool]string{true: "the full range", false: "[0s,5s]"}[full])
					sh := govcSnapDelOpenShard(t, indexType, "")
					root := sh.root
					bad := ""
					func() {
						defer func() { sh.close() }()
						if err := sh.MeasurementFields([]byte("cpu")).CreateFieldIfNotExists([]byte("value"), influxql.Float); err != nil {
							bad = err.Error()
							return
						}
						sh.mustWrite(t, "cpu,host=A value=1 1000000000\ncpu,host=A value=9 9000000000\ncpu,host=B value=3 1000000000")
						switch snap {
						case "ok":
							if err := sh.WriteSnapshot(); err != nil {
								bad = err.Error()
								return
							}
						case "failed":
							dir := sh.Compactor.Dir
							sh.Compactor.Dir = filepath.Join(root, "unavailable")
							if err := sh.WriteSnapshot(); err == nil {
								bad = "the snapshot into an unavailable directory succeeded"
								return
							}
							sh.Compactor.Dir = dir
						}
						wantA := "[9s=9]"
						if full {
							wantA = "[]"
						}
						if second {
							sh.mustWrite(t, "cpu,host=A value=2 2000000000")
						}
						min, max := int64(-1<<63), int64(1<<63-1)
						if !full {
							min, max = 0, 5000000000
						}
						if err := sh.DeleteSeriesRange(&govcSnapDelSeriesIterator{keys: [][]byte{[]byte("cpu,host=A")}}, min, max); err != nil {
							bad = "delete failed: " + err.Error()
							return
						}
						check := func(stage string) bool {
							if a, b := sh.mustRead(t, "A"), sh.mustRead(t, "B"); a != wantA || b != "[1s=3]" {
								bad = fmt.Sprintf("%s: cpu,host=A reads %s (expected %s), cpu,host=B reads %s (expected [1s=3])", stage, a, wantA, b)
								return false
							}
							return true
						}
						if !check("right after the delete") {
							return
						}
						if err := sh.WriteSnapshot(); err != nil {
							bad = "snapshot after the delete: " + err.Error()
							return
						}
						if !check("after the next snapshot") {
							return
						}
						sh.close()
						sh = govcSnapDelOpenShard(t, indexType, root)
						// the shard layer persists the field set and reloads the in-memory index; this harness drives
						// the engine directly (listing a series again does not bring any of its points back)
						for _, h := range []string{"A", "B"} {
							if err := sh.CreateSeriesIfNotExists([]byte("cpu,host="+h), []byte("cpu"), models.NewTags(map[string]string{"host": h})); err != nil {
								bad = err.Error()
								return
							}
						}
						if err := sh.MeasurementFields([]byte("cpu")).CreateFieldIfNotExists([]byte("value"), influxql.Float); err != nil {
							bad = err.Error()
							return
						}
						check("after a restart")
					}()
					os.RemoveAll(root)
					if bad == "" {
						continue
					}
					if snap == "failed" && known["failed-snapshot"] {
						waived++
						fmt.Printf("GOVC-BOUNDED-KNOWN failed-snapshot %s: %s\n", desc, bad)
						continue
					}
					fmt.Printf("GOVC-BOUNDED-FAIL %s: %s\n", desc, bad)
					return
				}
			}
		}
	}
	fmt.Printf("GOVC-BOUNDED-OK cases=%d (of which %d fail as recorded in known_findings.json)\n", cases, waived)
}
