package tsm1_test

// govc-bounded: dir=tsdb/engine/tsm1
// govc-bounded: stands-in-for=tsdb/engine/tsm1 Compactor.CompactFull / CompactFast over block layouts (compacting any set of data files never changes what a read returns: per key the latest value per timestamp minus tombstoned ranges; output blocks of a key are sorted and do not overlap) - the merging iterators (tsmBatchKeyIterator.Next / merge<T> / combine<T> / chunk<T>) are proved only in their decode decision and block order; their bookkeeping of partially read and pooled blocks over arbitrary layouts is checked BOUNDED
// govc-bounded: bound=real Compactor on two generations of real TSM files; per generation each of three keys has one of 5 block layouts (absent, one block, two adjacent blocks, two blocks with a gap, one block overlapping the other generation's range) with distinct values per generation; tombstones: none, or [2,3] on the first key of the older generation, or [3,3] and [7,7] on the first key of the newer generation (a later block of a key tombstoned, the first one not); block size 2 and 1000; full and fast compaction: 5^2 x 5^3 layouts x 3 tombstone settings (thorough: every layout of the older generation's first two keys, its third key fixed; quick: the 3 x 5^3 layouts where the older generation is one of 3 fixed layouts) x 2 sizes x 2 modes; the content read back from the output (all blocks, tombstones applied) is compared with newest-wins over the inputs, and every key's output blocks must be sorted and disjoint

import (
	"fmt"
	"os"
	"path/filepath"
	"sort"
	"testing"

	"github.com/influxdata/influxdb/tsdb/engine/tsm1"
)

type govcLayoutStore struct{ readers []*tsm1.TSMReader }

func (s *govcLayoutStore) NextGeneration() int { return 10 }
func (s *govcLayoutStore) TSMReader(path string) *tsm1.TSMReader {
	f, err := os.Open(path)
	if err != nil {
		panic(err)
	}
	r, err := tsm1.NewTSMReader(f)
	if err != nil {
		panic(err)
	}
	s.readers = append(s.readers, r)
	r.Ref()
	return r
}
func (s *govcLayoutStore) Close() {
	for _, r := range s.readers {
		r.Close() // the compactor released the reference it was given
	}
	s.readers = nil
}

// block layouts of one key in one generation: lists of [from, to] timestamp ranges (inclusive)
var govcLayouts = [][][2]int64{
	nil,
	{{1, 4}},
	{{1, 2}, {3, 4}},
	{{1, 2}, {7, 8}},
	{{3, 6}},
}

func govcWriteGen(dir string, gen int, layout [3]int, valueBase float64) (string, map[string]map[int64]float64, error) {
	name := filepath.Join(dir, tsm1.DefaultFormatFileName(gen, 1)+".tsm")
	f, err := os.OpenFile(name, os.O_CREATE|os.O_RDWR|os.O_EXCL, 0666)
	if err != nil {
		return "", nil, err
	}
	w, err := tsm1.NewTSMWriter(f)
	if err != nil {
		return "", nil, err
	}
	content := map[string]map[int64]float64{}
	wrote := false
	for ki, key := range []string{"cpu,host=A#!~#v", "cpu,host=B#!~#v", "mem,host=A#!~#v"} {
		for _, rg := range govcLayouts[layout[ki]] {
			var vals []tsm1.Value
			for ts := rg[0]; ts <= rg[1]; ts++ {
				v := valueBase + float64(ki*100) + float64(ts)
				vals = append(vals, tsm1.NewValue(ts, v))
				if content[key] == nil {
					content[key] = map[int64]float64{}
				}
				content[key][ts] = v
			}
			if err := w.Write([]byte(key), vals); err != nil {
				return "", nil, err
			}
			wrote = true
		}
	}
	if !wrote {
		w.Close()
		os.Remove(name)
		return "", content, nil
	}
	if err := w.WriteIndex(); err != nil {
		return "", nil, err
	}
	if err := w.Close(); err != nil {
		return "", nil, err
	}
	return name, content, nil
}

func TestGovcBounded(t *testing.T) {
	thorough := os.Getenv("GOVC_BOUND_TIER") == "thorough"
	cases := 0
	var olderLayouts [][3]int
	for a := 0; a < 5; a++ {
		for b := 0; b < 5; b++ {
			for c := 0; c < 5; c++ {
				olderLayouts = append(olderLayouts, [3]int{a, b, c})
			}
		}
	}
	newerLayouts := olderLayouts
	if !thorough {
		olderLayouts = [][3]int{{2, 2, 2}, {1, 4, 3}, {3, 2, 0}}
	} else {
		// every layout of the first two keys, the third key fixed (two adjacent blocks): 25 x 125 pairs
		olderLayouts = nil
		for a := 0; a < 5; a++ {
			for b := 0; b < 5; b++ {
				olderLayouts = append(olderLayouts, [3]int{a, b, 2})
			}
		}
	}
	root, err := os.MkdirTemp("", "govc-compact")
	if err != nil {
		fmt.Println("GOVC-BOUNDED-FAIL", err)
		return
	}
	defer os.RemoveAll(root)
	n := 0
	for _, lo := range olderLayouts {
		for _, ln := range newerLayouts {
			// tombstones: 0 none, 1 on the first key of the older file [2,3], 2 on the first key of the newer file
			// [3,3] and [7,7] (a later block of a key tombstoned, the blocks before it untouched)
			for _, tombMode := range []int{0, 1, 2} {
				tomb := tombMode == 1
				tombNew := tombMode == 2
				if tomb && govcLayouts[lo[0]] == nil {
					continue
				}
				if tombNew && govcLayouts[ln[0]] == nil {
					continue
				}
				for _, size := range []int{2, 1000} {
					for _, fast := range []bool{false, true} {
						n++
						dir := filepath.Join(root, fmt.Sprint(n))
						os.MkdirAll(dir, 0777)
						f1, c1, err := govcWriteGen(dir, 1, lo, 0)
						if err != nil {
							fmt.Println("GOVC-BOUNDED-FAIL", err)
							return
						}
						f2, c2, err := govcWriteGen(dir, 2, ln, 0.5)
						if err != nil {
							fmt.Println("GOVC-BOUNDED-FAIL", err)
							return
						}
						var files []string
						for _, f := range []string{f1, f2} {
							if f != "" {
								files = append(files, f)
							}
						}
						if len(files) < 2 {
							os.RemoveAll(dir)
							continue
						}
						cases++
						// expected content: older, tombstone applied, then newer wins
						want := map[string]map[int64]float64{}
						for k, m := range c1 {
							for ts, v := range m {
								if tomb && k == "cpu,host=A#!~#v" && ts >= 2 && ts <= 3 {
									continue
								}
								if want[k] == nil {
									want[k] = map[int64]float64{}
								}
								want[k][ts] = v
							}
						}
						for k, m := range c2 {
							for ts, v := range m {
								if tombNew && k == "cpu,host=A#!~#v" && (ts == 3 || ts == 7) {
									continue
								}
								if want[k] == nil {
									want[k] = map[int64]float64{}
								}
								want[k][ts] = v
							}
						}
						fs := &govcLayoutStore{}
						if tomb || tombNew {
							target, lo3, hi3 := f1, int64(2), int64(3)
							if tombNew {
								target, lo3, hi3 = f2, 7, 7
							}
							f, err := os.Open(target)
							if err != nil {
								fmt.Println("GOVC-BOUNDED-FAIL", err)
								return
							}
							r, err := tsm1.NewTSMReader(f)
							if err == nil {
								err = r.DeleteRange([][]byte{[]byte("cpu,host=A#!~#v")}, lo3, hi3)
							}
							if err == nil && tombNew {
								err = r.DeleteRange([][]byte{[]byte("cpu,host=A#!~#v")}, 3, 3)
							}
							if err != nil {
								fmt.Println("GOVC-BOUNDED-FAIL tombstone:", err)
								return
							}
							r.Close()
						}
						comp := tsm1.NewCompactor()
						comp.Dir, comp.FileStore, comp.Size = dir, fs, size
						comp.Open()
						var out []string
						if fast {
							out, err = comp.CompactFast(files)
						} else {
							out, err = comp.CompactFull(files)
						}
						comp.Close()
						fs.Close()
						describe := func() string {
							return fmt.Sprintf("older generation layout %v, newer %v (0 absent, 1 [1..4], 2 [1..2][3..4], 3 [1..2][7..8], 4 [3..6]), tombstones: %d (0 none, 1 first key of the older file [2,3], 2 first key of the newer file [3,3] and [7,7]), block size %d, fast=%v", lo, ln, tombMode, size, fast)
						}
						if err != nil {
							fmt.Printf("GOVC-BOUNDED-FAIL %s: compaction failed: %v\n", describe(), err)
							return
						}
						got := map[string]map[int64]float64{}
						for _, name := range out {
							f, err := os.Open(name)
							if err != nil {
								fmt.Println("GOVC-BOUNDED-FAIL", err)
								return
							}
							r, err := tsm1.NewTSMReader(f)
							if err != nil {
								fmt.Println("GOVC-BOUNDED-FAIL", err)
								return
							}
							for i := 0; i < r.KeyCount(); i++ {
								key, _ := r.KeyAt(i)
								entries := r.Entries(key)
								for j := 1; j < len(entries); j++ {
									if entries[j].MinTime <= entries[j-1].MaxTime {
										r.Close()
										fmt.Printf("GOVC-BOUNDED-FAIL %s: output blocks of %s overlap or are out of order: %v\n", describe(), key, entries)
										return
									}
								}
								vals, err := r.ReadAll(key)
								if err != nil {
									r.Close()
									fmt.Printf("GOVC-BOUNDED-FAIL %s: reading %s: %v\n", describe(), key, err)
									return
								}
								for _, v := range vals {
									if got[string(key)] == nil {
										got[string(key)] = map[int64]float64{}
									}
									if _, dup := got[string(key)][v.UnixNano()]; dup {
										r.Close()
										fmt.Printf("GOVC-BOUNDED-FAIL %s: %s holds timestamp %d twice after compaction\n", describe(), key, v.UnixNano())
										return
									}
									got[string(key)][v.UnixNano()] = v.Value().(float64)
								}
							}
							r.Close()
						}
						render := func(m map[string]map[int64]float64) string {
							var keys []string
							for k := range m {
								if len(m[k]) > 0 {
									keys = append(keys, k)
								}
							}
							sort.Strings(keys)
							s := ""
							for _, k := range keys {
								var ts []int64
								for t := range m[k] {
									ts = append(ts, t)
								}
								sort.Slice(ts, func(i, j int) bool { return ts[i] < ts[j] })
								s += k[:10] + ":"
								for _, t := range ts {
									s += fmt.Sprintf(" %d=%v", t, m[k][t])
								}
								s += "; "
							}
							return s
						}
						if render(got) != render(want) {
							fmt.Printf("GOVC-BOUNDED-FAIL %s:\n after compaction: %s\n newest-wins over the inputs: %s\n", describe(), render(got), render(want))
							return
						}
						os.RemoveAll(dir)
					}
				}
			}
		}
	}
	fmt.Printf("GOVC-BOUNDED-OK cases=%d\n", cases)
}
