package tsm1

// govc-bounded: dir=tsdb/engine/tsm1
// govc-bounded: stands-in-for=tsdb/engine/tsm1 Values.Deduplicate / Merge and the five typed variants: last write wins (for every timestamp the value written last survives, the result is strictly increasing in time; Merge(a, b) lets b win a tie) - needs the stability of sort.Stable and a permutation argument over the whole slice, which the SMT encoding of the sort model does not carry; checked BOUNDED instead
// govc-bounded: bound=real Deduplicate and Merge of Values, FloatValues, IntegerValues, UnsignedValues, StringValues, BooleanValues on every write sequence of length 1..64 (thorough: 1..200) whose timestamps follow (i*m) mod k for 8 (m,k) pairs (heavy duplication, out-of-order, already sorted, all equal) with the write number as the value; lengths above 12 matter: sort.Sort is stable below that

import (
	"fmt"
	"os"
	"testing"
)

func TestGovcBounded(t *testing.T) {
	thorough := os.Getenv("GOVC_BOUND_TIER") == "thorough"
	maxN := 64
	if thorough {
		maxN = 200
	}
	pairs := [][2]int{{7, 5}, {3, 11}, {1, 1}, {5, 13}, {11, 4}, {1, 1000}, {13, 17}, {2, 3}}
	cases := 0
	// model: last write wins
	model := func(ts []int64) (keys []int64, last map[int64]int) {
		last = map[int64]int{}
		for i, t := range ts {
			last[t] = i
		}
		for t := range last {
			keys = append(keys, t)
		}
		for i := 1; i < len(keys); i++ {
			for j := i; j > 0 && keys[j-1] > keys[j]; j-- {
				keys[j-1], keys[j] = keys[j], keys[j-1]
			}
		}
		return
	}
	for n := 1; n <= maxN; n++ {
		for _, p := range pairs {
			ts := make([]int64, n)
			for i := range ts {
				ts[i] = int64((i * p[0]) % p[1])
			}
			keys, last := model(ts)
			check := func(what string, gotTs []int64, gotW []int) bool {
				cases++
				ok := len(gotTs) == len(keys)
				for i := 0; ok && i < len(keys); i++ {
					ok = gotTs[i] == keys[i] && gotW[i] == last[keys[i]]
				}
				if !ok {
					fmt.Printf("GOVC-BOUNDED-FAIL %s: writes with timestamps %v (value = write number): result timestamps %v carry writes %v, want timestamps %v with the last write of each\n", what, ts, gotTs, gotW, keys)
				}
				return ok
			}
			// Values (interface slice, the cache's path)
			{
				a := make(Values, n)
				for i := range a {
					a[i] = NewValue(ts[i], int64(i))
				}
				r := a.Deduplicate()
				var gt []int64
				var gw []int
				for _, v := range r {
					gt = append(gt, v.UnixNano())
					gw = append(gw, int(v.Value().(int64)))
				}
				if !check("Values.Deduplicate", gt, gw) {
					return
				}
				// Merge: the second operand is the newer one
				h := n / 2
				x := make(Values, h)
				y := make(Values, n-h)
				for i := 0; i < n; i++ {
					if i < h {
						x[i] = NewValue(ts[i], int64(i))
					} else {
						y[i-h] = NewValue(ts[i], int64(i))
					}
				}
				r = x.Merge(y)
				gt, gw = nil, nil
				for _, v := range r {
					gt = append(gt, v.UnixNano())
					gw = append(gw, int(v.Value().(int64)))
				}
				if !check("Values.Merge", gt, gw) {
					return
				}
			}
			{
				a := make(IntegerValues, n)
				for i := range a {
					a[i] = IntegerValue{unixnano: ts[i], value: int64(i)}
				}
				r := a.Deduplicate()
				var gt []int64
				var gw []int
				for _, v := range r {
					gt = append(gt, v.unixnano)
					gw = append(gw, int(v.value))
				}
				if !check("IntegerValues.Deduplicate", gt, gw) {
					return
				}
				h := n / 2
				x := make(IntegerValues, 0, h)
				y := make(IntegerValues, 0, n-h)
				for i := 0; i < n; i++ {
					if i < h {
						x = append(x, IntegerValue{unixnano: ts[i], value: int64(i)})
					} else {
						y = append(y, IntegerValue{unixnano: ts[i], value: int64(i)})
					}
				}
				r = x.Merge(y)
				gt, gw = nil, nil
				for _, v := range r {
					gt = append(gt, v.unixnano)
					gw = append(gw, int(v.value))
				}
				if !check("IntegerValues.Merge", gt, gw) {
					return
				}
			}
			{
				a := make(FloatValues, n)
				for i := range a {
					a[i] = FloatValue{unixnano: ts[i], value: float64(i)}
				}
				var gt []int64
				var gw []int
				for _, v := range a.Deduplicate() {
					gt = append(gt, v.unixnano)
					gw = append(gw, int(v.value))
				}
				if !check("FloatValues.Deduplicate", gt, gw) {
					return
				}
			}
			{
				a := make(UnsignedValues, n)
				for i := range a {
					a[i] = UnsignedValue{unixnano: ts[i], value: uint64(i)}
				}
				var gt []int64
				var gw []int
				for _, v := range a.Deduplicate() {
					gt = append(gt, v.unixnano)
					gw = append(gw, int(v.value))
				}
				if !check("UnsignedValues.Deduplicate", gt, gw) {
					return
				}
			}
			{
				a := make(StringValues, n)
				for i := range a {
					a[i] = StringValue{unixnano: ts[i], value: fmt.Sprint(i)}
				}
				var gt []int64
				var gw []int
				for _, v := range a.Deduplicate() {
					gt = append(gt, v.unixnano)
					var w int
					fmt.Sscan(v.value, &w)
					gw = append(gw, w)
				}
				if !check("StringValues.Deduplicate", gt, gw) {
					return
				}
			}
			{
				// booleans cannot carry the write number: the parity of the last write is checked
				a := make(BooleanValues, n)
				for i := range a {
					a[i] = BooleanValue{unixnano: ts[i], value: i%2 == 0}
				}
				r := a.Deduplicate()
				cases++
				ok := len(r) == len(keys)
				for i := 0; ok && i < len(keys); i++ {
					ok = r[i].unixnano == keys[i] && r[i].value == (last[keys[i]]%2 == 0)
				}
				if !ok {
					fmt.Printf("GOVC-BOUNDED-FAIL BooleanValues.Deduplicate: writes with timestamps %v (value = write number is even): result %v\n", ts, r)
					return
				}
			}
		}
	}
	fmt.Printf("GOVC-BOUNDED-OK cases=%d max_len=%d\n", cases, maxN)
}
