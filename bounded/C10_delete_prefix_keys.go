package tsm1_test

// govc-bounded: dir=tsdb/engine/tsm1
// govc-bounded: stands-in-for=tsdb/engine/tsm1 Engine.deleteSeriesRange, the lock-step walks of the sorted TSM index and the sorted series keys (a completed delete removes exactly the points of the selected series in the selected range; a series that still has points stays listed, one that lost all of them is no longer listed) - the walks compare byte strings of different shapes (series keys against composite keys series+"#!~#"+field), which the contracts on the function's closures (every file is consulted, the batch is flushed with its own range) do not reach; checked BOUNDED
// govc-bounded: bound=real engine (inmem and tsi1 index), six series of one measurement whose tag values are A, A!, A", A#, AB and B (keys that are prefixes of one another, continued by bytes below, at and above the separator's first byte), each with a point at 1s and at 9s; data in a TSM file, in the cache, or the first point in a file and the second in the cache; every non-empty subset of the series (quick: every subset of the first five) deleted over the full range or over [0s,5s]; afterwards every series is read back and compared with the expected points, and the number of series the index lists must be the number of series that still have points

import (
	"context"
	"fmt"
	"os"
	"path/filepath"
	"testing"
	"time"

	"github.com/influxdata/influxdb/models"
	"github.com/influxdata/influxdb/query"
	"github.com/influxdata/influxdb/tsdb"
	"github.com/influxdata/influxdb/tsdb/engine/tsm1"
	"github.com/influxdata/influxdb/tsdb/index/inmem"
	"github.com/influxdata/influxql"
)

// govcDelSets exposes the series id set of the (single) shard to the engine, the
// way tsdb.Store's shardSet does.
type govcDelSets struct {
	indexes []tsdb.Index
}

func (a *govcDelSets) ForEach(f func(ids *tsdb.SeriesIDSet)) error {
	for _, idx := range a.indexes {
		f(idx.SeriesIDSet())
	}
	return nil
}

type govcDelElem struct {
	name []byte
	tags models.Tags
}

func (s govcDelElem) Name() []byte        { return s.name }
func (s govcDelElem) Tags() models.Tags   { return s.tags }
func (s govcDelElem) Deleted() bool       { return false }
func (s govcDelElem) Expr() influxql.Expr { return nil }

type govcDelSeriesIterator struct {
	keys [][]byte
}

func (itr *govcDelSeriesIterator) Close() error { return nil }
func (itr *govcDelSeriesIterator) Next() (tsdb.SeriesElem, error) {
	if len(itr.keys) == 0 {
		return nil, nil
	}
	name, tags := models.ParseKeyBytes(itr.keys[0])
	itr.keys = itr.keys[1:]
	return govcDelElem{name: name, tags: tags}, nil
}

// govcDelPlanner never plans a compaction.
type govcDelPlanner struct{}

func (m *govcDelPlanner) Plan(lastWrite time.Time) []tsm1.CompactionGroup { return nil }
func (m *govcDelPlanner) PlanLevel(level int) []tsm1.CompactionGroup      { return nil }
func (m *govcDelPlanner) PlanOptimize() []tsm1.CompactionGroup            { return nil }
func (m *govcDelPlanner) Release(groups []tsm1.CompactionGroup)           {}
func (m *govcDelPlanner) FullyCompacted() bool                            { return false }
func (m *govcDelPlanner) ForceFull()                                      {}
func (m *govcDelPlanner) SetFileStore(fs *tsm1.FileStore)                 {}

type govcDelShard struct {
	*tsm1.Engine
	index tsdb.Index
	sfile *tsdb.SeriesFile
	root  string
}

func govcDelOpenShard(t *testing.T, indexType string, root string) *govcDelShard {
	t.Helper()
	var err error
	if root == "" {
		root, err = os.MkdirTemp("", "govc-del-")
		if err != nil {
			t.Fatal(err)
		}
	}
	shardPath := filepath.Join(root, "data", "db0", "rp0", "1")
	walPath := filepath.Join(root, "wal", "db0", "rp0", "1")
	if err := os.MkdirAll(shardPath, 0777); err != nil {
		t.Fatal(err)
	}

	sfile := tsdb.NewSeriesFile(filepath.Join(root, "data", "db0", tsdb.SeriesFileDirectory))
	if err := sfile.Open(); err != nil {
		t.Fatal(err)
	}

	sets := &govcDelSets{}
	opt := tsdb.NewEngineOptions()
	opt.IndexVersion = indexType
	if indexType == tsdb.InmemIndexName {
		opt.InmemIndex = inmem.NewIndex("db0", sfile)
	}
	opt.SeriesIDSets = sets

	idx := tsdb.MustOpenIndex(1, "db0", filepath.Join(shardPath, "index"), tsdb.NewSeriesIDSet(), sfile, opt)
	sets.indexes = append(sets.indexes, idx)

	e := tsm1.NewEngine(1, idx, shardPath, walPath, sfile, opt).(*tsm1.Engine)
	// No level/full compactions during the test: only explicit snapshots.
	e.CompactionPlan = &govcDelPlanner{}
	if err := e.Open(); err != nil {
		t.Fatal(err)
	}
	return &govcDelShard{Engine: e, index: idx, sfile: sfile, root: root}
}

func (s *govcDelShard) close() {
	s.Engine.Close()
	s.index.Close()
	s.sfile.Close()
}

func (s *govcDelShard) mustWrite(t *testing.T, lines string) {
	t.Helper()
	points, err := models.ParsePointsString(lines)
	if err != nil {
		t.Fatal(err)
	}
	for _, p := range points {
		if err := s.CreateSeriesIfNotExists(p.Key(), p.Name(), p.Tags()); err != nil {
			t.Fatal(err)
		}
	}
	if err := s.WritePoints(points); err != nil {
		t.Fatal(err)
	}
}

// mustRead returns "time=value" for every point of cpu.value with host=<host>.
func (s *govcDelShard) mustRead(t *testing.T, host string) string {
	t.Helper()
	itr, err := s.CreateIterator(context.Background(), "cpu", query.IteratorOptions{
		Expr:       influxql.MustParseExpr(`value`),
		Condition:  influxql.MustParseExpr(fmt.Sprintf(`host = '%s'`, host)),
		Dimensions: []string{"host"},
		StartTime:  influxql.MinTime,
		EndTime:    influxql.MaxTime,
		Ascending:  true,
	})
	if err != nil {
		t.Fatal(err)
	}
	if itr == nil {
		return "[]"
	}
	defer itr.Close()

	got := []string{}
	fitr := itr.(query.FloatIterator)
	for {
		p, err := fitr.Next()
		if err != nil {
			t.Fatal(err)
		} else if p == nil {
			break
		}
		got = append(got, fmt.Sprintf("%ds=%v", p.Time/1000000000, p.Value))
	}
	return fmt.Sprint(got)
}




func TestGovcBounded(t *testing.T) {
	hosts := []string{"A", "A!", "A\"", "A#", "AB", "B"}
	if os.Getenv("GOVC_BOUND_TIER") != "thorough" {
		hosts = hosts[:5]
	}
	cases := 0
	for _, indexType := range tsdb.RegisteredIndexes() {
		for _, where := range []string{"tsm", "cache", "mixed"} {
			for _, full := range []bool{true, false} {
				for mask := 1; mask < 1<<uint(len(hosts)); mask++ {
					cases++
					sh := govcDelOpenShard(t, indexType, "")
					fail := func(format string, args ...interface{}) {
						var sel []string
						for i, h := range hosts {
							if mask&(1<<uint(i)) != 0 {
								sel = append(sel, "cpu,host="+h)
							}
						}
						fmt.Printf("GOVC-BOUNDED-FAIL index %s, data in %s, delete of %q over %s: %s\n", indexType, where, sel,
							map[bool]string{true: "the full range", false: "[0s,5s]"}[full], fmt.Sprintf(format, args...))
						sh.close()
						os.RemoveAll(sh.root)
					}
					if err := sh.MeasurementFields([]byte("cpu")).CreateFieldIfNotExists([]byte("value"), influxql.Float); err != nil {
						fail("%v", err)
						return
					}
					first, second := "", ""
					for i, h := range hosts {
						first += fmt.Sprintf("cpu,host=%s value=%d 1000000000\n", h, i+1)
						second += fmt.Sprintf("cpu,host=%s value=%d 9000000000\n", h, i+11)
					}
					sh.mustWrite(t, first)
					if where == "mixed" {
						if err := sh.WriteSnapshot(); err != nil {
							fail("%v", err)
							return
						}
					}
					sh.mustWrite(t, second)
					if where == "tsm" {
						if err := sh.WriteSnapshot(); err != nil {
							fail("%v", err)
							return
						}
					}
					var keys [][]byte
					for i, h := range hosts {
						if mask&(1<<uint(i)) != 0 {
							keys = append(keys, []byte("cpu,host="+h))
						}
					}
					min, max := int64(-1<<63), int64(1<<63-1)
					if !full {
						min, max = 0, 5000000000
					}
					done := make(chan error, 1)
					go func() { done <- sh.DeleteSeriesRange(&govcDelSeriesIterator{keys: keys}, min, max) }()
					select {
					case err := <-done:
						if err != nil {
							fail("delete failed: %v", err)
							return
						}
					case <-time.After(20 * time.Second):
						fmt.Printf("GOVC-BOUNDED-FAIL index %s, data in %s, mask %d: the delete did not return within 20s\n", indexType, where, mask)
						return
					}
					listed := 0
					for i, h := range hosts {
						want := fmt.Sprintf("[1s=%d 9s=%d]", i+1, i+11)
						if mask&(1<<uint(i)) != 0 {
							want = fmt.Sprintf("[9s=%d]", i+11)
							if full {
								want = "[]"
							}
						}
						if want != "[]" {
							listed++
						}
						if got := sh.mustRead(t, h); got != want {
							fail("cpu,host=%s reads %s, expected %s", h, got, want)
							return
						}
					}
					if got := sh.SeriesN(); got != int64(listed) {
						fail("the index lists %d series, %d still have points", got, listed)
						return
					}
					sh.close()
					os.RemoveAll(sh.root)
				}
			}
		}
	}
	fmt.Printf("GOVC-BOUNDED-OK cases=%d\n", cases)
}
