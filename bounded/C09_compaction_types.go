package tsm1_test

// govc-bounded: dir=tsdb/engine/tsm1
// govc-bounded: stands-in-for=tsdb/engine/tsm1 combine<T> / chunk<T> of tsmBatchKeyIterator for all five value types (compacting never changes what a read returns): the merging code is generated per type; C09_compaction_layouts exercises the float and block-bookkeeping side over many layouts, this one the other types over the shapes where blocks of two generations overlap partially (a newer block spanning the gap between two older ones, covering them, lying inside the gap, overlapping one); checked BOUNDED
// govc-bounded: bound=real Compactor (full and fast, block size 4 and 1000) on two generations of real TSM files of one key; older generation with 3 block layouts over [0..30], newer generation one block of 4 ranges; float, integer, unsigned, string and boolean values: the content of the output equals newest-wins over the inputs and the output blocks are sorted and disjoint

import (
	"fmt"
	"os"
	"path/filepath"
	"sort"
	"testing"

	"github.com/influxdata/influxdb/tsdb/engine/tsm1"
)

type govcLayoutStore struct{ readers []*tsm1.TSMReader }

func (s *govcLayoutStore) NextGeneration() int { return 10 }
func (s *govcLayoutStore) TSMReader(path string) *tsm1.TSMReader {
	f, err := os.Open(path)
	if err != nil {
		panic(err)
	}
	r, err := tsm1.NewTSMReader(f)
	if err != nil {
		panic(err)
	}
	s.readers = append(s.readers, r)
	r.Ref()
	return r
}
func (s *govcLayoutStore) Close() {
	for _, r := range s.readers {
		r.Close() // the compactor released the reference it was given
	}
	s.readers = nil
}

func govcKCValue(typ string, ts int64, gen int) tsm1.Value {
	x := ts*10 + int64(gen)
	switch typ {
	case "float":
		return tsm1.NewValue(ts, float64(x)+0.5)
	case "integer":
		return tsm1.NewValue(ts, x)
	case "unsigned":
		return tsm1.NewValue(ts, uint64(x))
	case "string":
		return tsm1.NewValue(ts, fmt.Sprint("s", x))
	}
	return tsm1.NewValue(ts, gen == 2)
}

func govcKCWrite(dir string, gen int, key string, blocks [][]tsm1.Value) (string, error) {
	name := filepath.Join(dir, tsm1.DefaultFormatFileName(gen, 1)+".tsm")
	f, err := os.OpenFile(name, os.O_CREATE|os.O_RDWR|os.O_EXCL, 0666)
	if err != nil {
		return "", err
	}
	w, err := tsm1.NewTSMWriter(f)
	if err != nil {
		return "", err
	}
	for _, b := range blocks {
		if err := w.Write([]byte(key), b); err != nil {
			return "", err
		}
	}
	if err := w.WriteIndex(); err != nil {
		return "", err
	}
	return name, w.Close()
}


func TestGovcBounded(t *testing.T) {
	older := [][][2]int64{{{0, 10}, {20, 30}}, {{0, 10}}, {{0, 4}, {5, 10}, {20, 30}}}
	newer := [][2]int64{{5, 25}, {0, 30}, {12, 18}, {8, 22}}
	root, err := os.MkdirTemp("", "govc-compact-types")
	if err != nil {
		fmt.Println("GOVC-BOUNDED-FAIL", err)
		return
	}
	defer os.RemoveAll(root)
	cases, n := 0, 0
	for _, typ := range []string{"float", "integer", "unsigned", "string", "boolean"} {
		for _, ol := range older {
			for _, nr := range newer {
				for _, size := range []int{4, 1000} {
					for _, fast := range []bool{false, true} {
						n++
						cases++
						dir := filepath.Join(root, fmt.Sprint(n))
						os.MkdirAll(dir, 0777)
						want := map[int64]string{}
						var ob [][]tsm1.Value
						for _, rg := range ol {
							var b []tsm1.Value
							for ts := rg[0]; ts <= rg[1]; ts++ {
								v := govcKCValue(typ, ts, 1)
								b = append(b, v)
								want[ts] = fmt.Sprint(v.Value())
							}
							ob = append(ob, b)
						}
						var nb []tsm1.Value
						for ts := nr[0]; ts <= nr[1]; ts++ {
							v := govcKCValue(typ, ts, 2)
							nb = append(nb, v)
							want[ts] = fmt.Sprint(v.Value())
						}
						f1, err := govcKCWrite(dir, 1, "cpu,host=A#!~#v", ob)
						if err != nil {
							fmt.Println("GOVC-BOUNDED-FAIL", err)
							return
						}
						f2, err := govcKCWrite(dir, 2, "cpu,host=A#!~#v", [][]tsm1.Value{nb})
						if err != nil {
							fmt.Println("GOVC-BOUNDED-FAIL", err)
							return
						}
						fs := &govcLayoutStore{}
						comp := tsm1.NewCompactor()
						comp.Dir, comp.FileStore, comp.Size = dir, fs, size
						comp.Open()
						var out []string
						if fast {
							out, err = comp.CompactFast([]string{f1, f2})
						} else {
							out, err = comp.CompactFull([]string{f1, f2})
						}
						comp.Close()
						fs.Close()
						desc := fmt.Sprintf("%s values, older blocks %v, newer block %v, block size %d, fast=%v", typ, ol, nr, size, fast)
						if err != nil {
							fmt.Printf("GOVC-BOUNDED-FAIL %s: compaction failed: %v\n", desc, err)
							return
						}
						got := map[int64]string{}
						for _, name := range out {
							f, err := os.Open(name)
							if err != nil {
								fmt.Println("GOVC-BOUNDED-FAIL", err)
								return
							}
							r, err := tsm1.NewTSMReader(f)
							if err != nil {
								fmt.Println("GOVC-BOUNDED-FAIL", err)
								return
							}
							for i := 0; i < r.KeyCount(); i++ {
								key, _ := r.KeyAt(i)
								entries := r.Entries(key)
								for j := 1; j < len(entries); j++ {
									if entries[j].MinTime <= entries[j-1].MaxTime {
										r.Close()
										fmt.Printf("GOVC-BOUNDED-FAIL %s: output blocks overlap or are out of order: %v\n", desc, entries)
										return
									}
								}
								vals, err := r.ReadAll(key)
								if err != nil {
									r.Close()
									fmt.Printf("GOVC-BOUNDED-FAIL %s: %v\n", desc, err)
									return
								}
								for _, v := range vals {
									if _, dup := got[v.UnixNano()]; dup {
										r.Close()
										fmt.Printf("GOVC-BOUNDED-FAIL %s: timestamp %d twice after compaction\n", desc, v.UnixNano())
										return
									}
									got[v.UnixNano()] = fmt.Sprint(v.Value())
								}
							}
							r.Close()
						}
						render := func(m map[int64]string) string {
							var ts []int64
							for t := range m {
								ts = append(ts, t)
							}
							sort.Slice(ts, func(i, j int) bool { return ts[i] < ts[j] })
							s := ""
							for _, t := range ts {
								s += fmt.Sprintf(" %d=%s", t, m[t])
							}
							return s
						}
						if render(got) != render(want) {
							fmt.Printf("GOVC-BOUNDED-FAIL %s:\n after compaction:%s\n newest-wins over the inputs:%s\n", desc, render(got), render(want))
							return
						}
						os.RemoveAll(dir)
					}
				}
			}
		}
	}
	fmt.Printf("GOVC-BOUNDED-OK cases=%d\n", cases)
}
