package escape

// govc-bounded: dir=pkg/escape
// govc-bounded: stands-in-for=pkg/escape AppendUnescaped / Unescape / IsEscaped / Bytes / String / UnescapeString, which the contracts of the line-protocol parser use as TRUSTED models (a backslash escapes exactly the four characters comma, double quote, space and equals sign; every other byte, a backslash included, stands for itself) - they are string rewriting over whole byte strings; checked BOUNDED against a reference written from that sentence
// govc-bounded: bound=every byte string of length 0..8 (thorough: 0..10) over the alphabet {a \ , " space =}: AppendUnescaped(nil, s), AppendUnescaped(prefix, s), Unescape(s) and UnescapeString(s) equal the reference; IsEscaped(s) is true exactly when the reference changes s; Unescape(Bytes(s)) == s and UnescapeString(String(s)) == s

import (
	"bytes"
	"fmt"
	"os"
	"testing"
)

func govcRefUnescape(in []byte) []byte {
	out := make([]byte, 0, len(in))
	for i := 0; i < len(in); i++ {
		if in[i] == '\\' && i+1 < len(in) && (in[i+1] == ',' || in[i+1] == '"' || in[i+1] == ' ' || in[i+1] == '=') {
			out = append(out, in[i+1])
			i++
			continue
		}
		out = append(out, in[i])
	}
	return out
}

func TestGovcBounded(t *testing.T) {
	max := 8
	if os.Getenv("GOVC_BOUND_TIER") == "thorough" {
		max = 10
	}
	alphabet := []byte{'a', '\\', ',', '"', ' ', '='}
	cases := 0
	cur := make([]byte, 0, max)
	var rec func() bool
	rec = func() bool {
		cases++
		want := govcRefUnescape(cur)
		if got := AppendUnescaped(nil, cur); !bytes.Equal(got, want) {
			fmt.Printf("GOVC-BOUNDED-FAIL AppendUnescaped(nil, %q) = %q, the reference gives %q\n", cur, got, want)
			return false
		}
		if got := AppendUnescaped([]byte("x="), cur); !bytes.Equal(got, append([]byte("x="), want...)) {
			fmt.Printf("GOVC-BOUNDED-FAIL AppendUnescaped(\"x=\", %q) = %q, the reference gives %q\n", cur, got, append([]byte("x="), want...))
			return false
		}
		if got := Unescape(append([]byte(nil), cur...)); !bytes.Equal(got, want) {
			fmt.Printf("GOVC-BOUNDED-FAIL Unescape(%q) = %q, the reference gives %q\n", cur, got, want)
			return false
		}
		if got := UnescapeString(string(cur)); got != string(want) {
			fmt.Printf("GOVC-BOUNDED-FAIL UnescapeString(%q) = %q, the reference gives %q\n", cur, got, want)
			return false
		}
		if got := IsEscaped(cur); got != !bytes.Equal(want, cur) {
			fmt.Printf("GOVC-BOUNDED-FAIL IsEscaped(%q) = %v, but unescaping gives %q\n", cur, got, want)
			return false
		}
		if got := Unescape(Bytes(append([]byte(nil), cur...))); !bytes.Equal(got, cur) && len(cur) > 0 {
			fmt.Printf("GOVC-BOUNDED-FAIL Unescape(Bytes(%q)) = %q\n", cur, got)
			return false
		}
		if got := UnescapeString(String(string(cur))); got != string(cur) {
			fmt.Printf("GOVC-BOUNDED-FAIL UnescapeString(String(%q)) = %q\n", cur, got)
			return false
		}
		if len(cur) == max {
			return true
		}
		for _, c := range alphabet {
			cur = append(cur, c)
			ok := rec()
			cur = cur[:len(cur)-1]
			if !ok {
				return false
			}
		}
		return true
	}
	if !rec() {
		return
	}
	fmt.Printf("GOVC-BOUNDED-OK cases=%d\n", cases)
}
