package tsm1

// govc-bounded: dir=tsdb/engine/tsm1
// govc-bounded: stands-in-for=tsdb/engine/tsm1 block codec round trip (every sequence of timestamps and values of each field type survives block encoding and decoding bit for bit, whichever compression scheme the encoder picks) - proved are: simple8b pack/unpack, zig-zag, the timestamp divisor, the float field widths, panic freedom of the WAL decoders; decode(encode(x)) == x for whole blocks involves the scheme selection, prefix sums and bit streams of unbounded length and is checked BOUNDED instead
// govc-bounded: bound=real streaming codecs (Values.Encode / DecodeBlock) AND batch codecs (<T>ArrayEncodeAll / <T>ArrayDecodeAll, TimeArray...) on (1) every sequence of length 1..4 (thorough: 1..5) over 7 representative values per type (extremes, zero, values at the 60-bit simple8b limit, NaN/Inf/-0 bit patterns, empty and long strings) and (2) 40 patterned sequences per type of lengths 1..260 that force each scheme (constant delta = RLE, small deltas = simple8b selectors 1..60 bits, one outlier = raw, alternating booleans across byte boundaries); timestamps strictly increasing for the value blocks

import (
	"fmt"
	"math"
	"os"
	"strings"
	"testing"
)

func TestGovcBounded(t *testing.T) {
	thorough := os.Getenv("GOVC_BOUND_TIER") == "thorough"
	maxLen := 4
	if thorough {
		maxLen = 5
	}
	cases := 0
	fail := func(f string, a ...interface{}) { fmt.Printf("GOVC-BOUNDED-FAIL "+f+"\n", a...) }

	// ---- timestamps and integers: batch codecs on arbitrary int64 sequences ----
	ints := []int64{0, 1, -1, math.MaxInt64, math.MinInt64, 1 << 59, -(1 << 60)}
	times := []int64{0, 1, 1000, 1000000000, math.MaxInt64 - 1, math.MinInt64 + 2, 1<<60 + 7}
	checkInts := func(src []int64) bool {
		cases++
		b, err := IntegerArrayEncodeAll(append([]int64(nil), src...), nil)
		if err != nil {
			fail("IntegerArrayEncodeAll(%v): %v", src, err)
			return false
		}
		got, err := IntegerArrayDecodeAll(b, nil)
		if err != nil || fmt.Sprint(got) != fmt.Sprint(src) {
			fail("integers %v decode to %v (%v)", src, got, err)
			return false
		}
		// streaming encoder / decoder
		enc := NewIntegerEncoder(len(src))
		for _, v := range src {
			enc.Write(v)
		}
		sb, err := enc.Bytes()
		if err != nil {
			fail("IntegerEncoder(%v): %v", src, err)
			return false
		}
		var dec IntegerDecoder
		dec.SetBytes(sb)
		var sgot []int64
		for dec.Next() {
			sgot = append(sgot, dec.Read())
		}
		if dec.Error() != nil || fmt.Sprint(sgot) != fmt.Sprint(src) {
			fail("integers %v stream-decode to %v (%v)", src, sgot, dec.Error())
			return false
		}
		return true
	}
	checkTimes := func(src []int64) bool {
		cases++
		b, err := TimeArrayEncodeAll(append([]int64(nil), src...), nil)
		if err != nil {
			fail("TimeArrayEncodeAll(%v): %v", src, err)
			return false
		}
		got, err := TimeArrayDecodeAll(b, nil)
		if err != nil || fmt.Sprint(got) != fmt.Sprint(src) {
			fail("timestamps %v decode to %v (%v)", src, got, err)
			return false
		}
		enc := NewTimeEncoder(len(src))
		for _, v := range src {
			enc.Write(v)
		}
		sb, err := enc.Bytes()
		if err != nil {
			fail("TimeEncoder(%v): %v", src, err)
			return false
		}
		var dec TimeDecoder
		dec.Init(sb)
		var sgot []int64
		for dec.Next() {
			sgot = append(sgot, dec.Read())
		}
		if dec.Error() != nil || fmt.Sprint(sgot) != fmt.Sprint(src) {
			fail("timestamps %v stream-decode to %v (%v)", src, sgot, dec.Error())
			return false
		}
		return true
	}
	var recI func(cur []int64, set []int64, f func([]int64) bool) bool
	recI = func(cur []int64, set []int64, f func([]int64) bool) bool {
		if len(cur) > 0 && !f(cur) {
			return false
		}
		if len(cur) == maxLen {
			return true
		}
		for _, v := range set {
			if !recI(append(cur, v), set, f) {
				return false
			}
		}
		return true
	}
	if !recI(nil, ints, checkInts) || !recI(nil, times, checkTimes) {
		return
	}
	// patterned sequences
	for n := 1; n <= 260; n += 7 {
		for _, delta := range []int64{0, 1, 10, 1000, 1 << 20, 1<<59 - 1, 1 << 59, 1 << 60, -3, 999999999} {
			seq := make([]int64, n)
			for i := range seq {
				seq[i] = 5 + int64(i)*delta
			}
			if !checkInts(seq) || !checkTimes(seq) {
				return
			}
			if n > 2 {
				seq2 := append([]int64(nil), seq...)
				seq2[n/2] += 1 << 61 // one outlier
				if !checkInts(seq2) || !checkTimes(seq2) {
					return
				}
				seq3 := append([]int64(nil), seq...)
				seq3[n-1]++ // breaks the run at the very end
				if !checkInts(seq3) || !checkTimes(seq3) {
					return
				}
			}
		}
	}

	// ---- unsigned ----
	for n := 1; n <= maxLen; n++ {
		us := []uint64{0, 1, math.MaxUint64, 1 << 63, 1<<60 - 1, 1 << 60, 12345}
		idx := make([]int, n)
		for {
			src := make([]uint64, n)
			for i, k := range idx {
				src[i] = us[k]
			}
			cases++
			b, err := UnsignedArrayEncodeAll(append([]uint64(nil), src...), nil)
			var got []uint64
			if err == nil {
				got, err = UnsignedArrayDecodeAll(b, nil)
			}
			if err != nil || fmt.Sprint(got) != fmt.Sprint(src) {
				fail("unsigned %v decode to %v (%v)", src, got, err)
				return
			}
			i := 0
			for ; i < n; i++ {
				idx[i]++
				if idx[i] < len(us) {
					break
				}
				idx[i] = 0
			}
			if i == n {
				break
			}
		}
	}

	// ---- floats (bit patterns) ----
	fbits := []uint64{0, 0x8000000000000000, math.Float64bits(1.5), math.Float64bits(-1.5), 0x7ff0000000000000, 0x7ff8000000000001, 1, 0xffffffffffffffff, math.Float64bits(math.MaxFloat64)}
	checkFloats := func(bits []uint64) bool {
		cases++
		src := make([]float64, len(bits))
		for i, b := range bits {
			src[i] = math.Float64frombits(b)
		}
		b, err := FloatArrayEncodeAll(append([]float64(nil), src...), nil)
		if err != nil {
			// both encoders refuse NaN by design (the line-protocol parser does not admit it either)
			for _, v := range src {
				if v != v {
					return true
				}
			}
		}
		var got []float64
		if err == nil {
			got, err = FloatArrayDecodeAll(b, nil)
		}
		ok := err == nil && len(got) == len(src)
		for i := 0; ok && i < len(src); i++ {
			ok = math.Float64bits(got[i]) == bits[i]
		}
		if !ok {
			fail("floats %x batch-decode to %v (%v)", bits, got, err)
			return false
		}
		enc := NewFloatEncoder()
		for _, v := range src {
			enc.Write(v)
		}
		enc.Flush()
		sb, err := enc.Bytes()
		if err != nil {
			// the streaming encoder refuses NaN by design; the batch encoder does not
			hasNaN := false
			for _, v := range src {
				hasNaN = hasNaN || v != v
			}
			if hasNaN {
				return true
			}
			fail("FloatEncoder(%x): %v", bits, err)
			return false
		}
		var dec FloatDecoder
		if err := dec.SetBytes(sb); err != nil {
			fail("FloatDecoder.SetBytes(%x): %v", bits, err)
			return false
		}
		var sgot []uint64
		for dec.Next() {
			sgot = append(sgot, math.Float64bits(dec.Values()))
		}
		if dec.Error() != nil || fmt.Sprint(sgot) != fmt.Sprint(bits) {
			fail("floats %x stream-decode to %x (%v)", bits, sgot, dec.Error())
			return false
		}
		return true
	}
	{
		n := 3
		if thorough {
			n = 4
		}
		idx := make([]int, n)
		for l := 1; l <= n; l++ {
			for i := range idx {
				idx[i] = 0
			}
			for {
				bits := make([]uint64, l)
				for i := 0; i < l; i++ {
					bits[i] = fbits[idx[i]]
				}
				if !checkFloats(bits) {
					return
				}
				i := 0
				for ; i < l; i++ {
					idx[i]++
					if idx[i] < len(fbits) {
						break
					}
					idx[i] = 0
				}
				if i == l {
					break
				}
			}
		}
		// XOR windows with every number of leading zeros (0..63) and several trailing-zero counts, followed by a
		// value that reuses the window and one that does not
		for lead := 0; lead < 64; lead++ {
			for _, trail := range []int{0, 1, 5, 31, 32, 40} {
				if lead+trail >= 64 {
					continue
				}
				mask := (^uint64(0) >> uint(lead)) &^ (uint64(1)<<uint(trail) - 1)
				top := uint64(1) << uint(63-lead)
				low := uint64(1) << uint(trail)
				base := math.Float64bits(12.5)
				for _, x := range []uint64{mask, top | low, top} {
					seq := []uint64{base, base ^ x, base ^ x ^ (top | low), base, base ^ 1}
					ok := true
					for _, b := range seq {
						if f := math.Float64frombits(b); f != f {
							ok = false
						}
					}
					if ok && !checkFloats(seq) {
						return
					}
				}
			}
		}
		for n := 1; n <= 260; n += 13 {
			bits := make([]uint64, n)
			for i := range bits {
				bits[i] = math.Float64bits(float64(i)*0.1 + 3)
				if i%17 == 5 {
					bits[i] = uint64(i) << uint(i%64) // erratic leading / trailing zero counts
				}
			}
			if !checkFloats(bits) {
				return
			}
		}
	}

	// ---- booleans ----
	for n := 1; n <= 70; n++ {
		for _, pat := range []int{0, 1, 2, 3, 5} {
			src := make([]bool, n)
			for i := range src {
				switch pat {
				case 1:
					src[i] = true
				case 2:
					src[i] = i%2 == 0
				case 3:
					src[i] = i%3 == 0
				case 5:
					src[i] = i == n-1
				}
			}
			cases++
			b, err := BooleanArrayEncodeAll(src, nil)
			var got []bool
			if err == nil {
				got, err = BooleanArrayDecodeAll(b, nil)
			}
			if err != nil || fmt.Sprint(got) != fmt.Sprint(src) {
				fail("booleans %v decode to %v (%v)", src, got, err)
				return
			}
			enc := NewBooleanEncoder(n)
			for _, v := range src {
				enc.Write(v)
			}
			sb, err := enc.Bytes()
			var dec BooleanDecoder
			var sgot []bool
			if err == nil {
				dec.SetBytes(sb)
				for dec.Next() {
					sgot = append(sgot, dec.Read())
				}
				err = dec.Error()
			}
			if err != nil || fmt.Sprint(sgot) != fmt.Sprint(src) {
				fail("booleans %v stream-decode to %v (%v)", src, sgot, err)
				return
			}
		}
	}

	// ---- strings ----
	strs := []string{"", "a", "ab", strings.Repeat("x", 300), "\x00", "é\n"}
	for n := 1; n <= 3; n++ {
		idx := make([]int, n)
		for {
			src := make([]string, n)
			for i, k := range idx {
				src[i] = strs[k]
			}
			cases++
			b, err := StringArrayEncodeAll(src, nil)
			var got []string
			if err == nil {
				got, err = StringArrayDecodeAll(b, nil)
			}
			if err != nil || fmt.Sprintf("%q", got) != fmt.Sprintf("%q", src) {
				fail("strings %q decode to %q (%v)", src, got, err)
				return
			}
			i := 0
			for ; i < n; i++ {
				idx[i]++
				if idx[i] < len(strs) {
					break
				}
				idx[i] = 0
			}
			if i == n {
				break
			}
		}
	}

	// ---- whole blocks of every type through Values.Encode / DecodeBlock ----
	for n := 1; n <= 130; n += 3 {
		for typ := 0; typ < 5; typ++ {
			vals := make(Values, n)
			for i := range vals {
				ts := int64(i)*1000000000 + int64(typ)
				switch typ {
				case 0:
					vals[i] = NewValue(ts, float64(i)/3)
				case 1:
					vals[i] = NewValue(ts, int64(i)*int64(i)-50)
				case 2:
					vals[i] = NewValue(ts, uint64(i)<<uint(i%60))
				case 3:
					vals[i] = NewValue(ts, i%3 == 0)
				case 4:
					vals[i] = NewValue(ts, strings.Repeat("s", i%5))
				}
			}
			cases++
			b, err := vals.Encode(nil)
			var got []Value
			if err == nil {
				got, err = DecodeBlock(b, nil)
			}
			ok := err == nil && len(got) == len(vals)
			for i := 0; ok && i < len(vals); i++ {
				ok = got[i].UnixNano() == vals[i].UnixNano() && got[i].Value() == vals[i].Value()
			}
			if !ok {
				fail("block of %d values of type %d does not round-trip (%v)", n, typ, err)
				return
			}
		}
	}
	fmt.Printf("GOVC-BOUNDED-OK cases=%d max_len=%d\n", cases, maxLen)
}
