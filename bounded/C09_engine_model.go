package tsm1_test

// govc-bounded: dir=tsdb/engine/tsm1
// govc-bounded: stands-in-for=tsdb/engine/tsm1 engine against a last-write-wins model of the shard (C02: a read returns one point per timestamp, the most recent value, ascending and descending; C09: flushing the cache and compacting never change what reads return; C10: a delete removes exactly the selected range of the selected series, permanently; C01: everything acknowledged is read back after an unclean restart) - these are statements about whole histories of the engine, not about one call; the contracts prove the kernels they rest on (search, Include/Exclude, cursor overlay, block order, decode decision, install order, WAL ordering); the composition is checked BOUNDED
// govc-bounded: bound=real engine (inmem index), every history of length 1..4 (quick: only those that start with a write and never repeat an operation immediately, 1200 histories; thorough: all 4680) over 8 operations - write A@1s..4s and B@1s..2s, overwrite A@3s..6s, write an older point A@2s late, flush the cache to a data file, delete A in [2s,3s], delete series B entirely, full compaction, restart without flushing (WAL replay) - after EVERY operation the complete content (series A and B) is read in both directions and compared with a map that applies the writes and deletes

import (
	"context"
	"fmt"
	"math"
	"os"
	"sort"
	"testing"

	"github.com/influxdata/influxdb/models"
	"github.com/influxdata/influxdb/query"
	"github.com/influxdata/influxql"
)

func govcModelRead(e *Engine, asc bool) string {
	itr, err := e.CreateIterator(context.Background(), "cpu", query.IteratorOptions{
		Expr: influxql.MustParseExpr(`value`), Dimensions: []string{"host"}, StartTime: influxql.MinTime, EndTime: influxql.MaxTime, Ascending: asc})
	if err != nil {
		return "error: " + err.Error()
	}
	if itr == nil {
		return ""
	}
	defer itr.Close()
	fitr, ok := itr.(query.FloatIterator)
	if !ok {
		return fmt.Sprintf("iterator %T", itr)
	}
	out := ""
	for {
		p, err := fitr.Next()
		if err != nil {
			return out + " error: " + err.Error()
		}
		if p == nil {
			return out
		}
		out += fmt.Sprintf("%s@%d=%v ", p.Tags.ID()[5:], p.Time/1000000000, p.Value)
	}
}

func TestGovcBounded(t *testing.T) {
	thorough := os.Getenv("GOVC_BOUND_TIER") == "thorough"
	maxLen := 4 // quick: pruned (see below); thorough: all 8^1 + .. + 8^4 histories
	type model map[string]map[int64]float64
	ops := []string{"write", "overwrite", "late-write", "flush", "delete-range", "delete-series", "compact", "restart"}
	apply := func(e *Engine, m model, op string) error {
		set := func(h string, ts int64, v float64) string {
			if m[h] == nil {
				m[h] = map[int64]float64{}
			}
			m[h][ts] = v
			// what tsdb.Shard does before it hands points to the engine: the series and the field exist in the
			// index (a delete may have dropped them)
			e.CreateSeriesIfNotExists([]byte("cpu,host="+h), []byte("cpu"), models.NewTags(map[string]string{"host": h}))
			e.MeasurementFields([]byte("cpu")).CreateFieldIfNotExists([]byte("value"), influxql.Float)
			return fmt.Sprintf("cpu,host=%s value=%v %d", h, v, ts*1000000000)
		}
		switch op {
		case "write":
			return e.WritePointsString(set("A", 1, 1), set("A", 2, 2), set("A", 3, 3), set("A", 4, 4), set("B", 1, 10), set("B", 2, 20))
		case "overwrite":
			return e.WritePointsString(set("A", 3, 33), set("A", 4, 44), set("A", 5, 55), set("A", 6, 66))
		case "late-write":
			return e.WritePointsString(set("A", 2, 222))
		case "flush":
			return e.WriteSnapshot()
		case "delete-range":
			for ts := range m["A"] {
				if ts >= 2 && ts <= 3 {
					delete(m["A"], ts)
				}
			}
			return e.DeleteSeriesRange(&seriesIterator{keys: [][]byte{[]byte("cpu,host=A")}}, 2000000000, 3000000000)
		case "delete-series":
			delete(m, "B")
			return e.DeleteSeriesRange(&seriesIterator{keys: [][]byte{[]byte("cpu,host=B")}}, math.MinInt64, math.MaxInt64)
		case "compact":
			if err := e.WriteSnapshot(); err != nil {
				return err
			}
			files := e.FileStore.Files()
			if len(files) < 2 {
				return nil
			}
			var names []string
			for _, f := range files {
				names = append(names, f.Path())
			}
			out, err := e.Compactor.CompactFull(names)
			if err != nil {
				return err
			}
			return e.FileStore.Replace(names, out)
		case "restart":
			// Close does not flush the cache: what is only in the cache comes back from the WAL
			if err := e.Reopen(); err != nil {
				return err
			}
			for _, h := range []string{"A", "B"} {
				if _, ok := m[h]; ok {
					e.CreateSeriesIfNotExists([]byte("cpu,host="+h), []byte("cpu"), models.NewTags(map[string]string{"host": h}))
				}
			}
			e.MeasurementFields([]byte("cpu")).CreateFieldIfNotExists([]byte("value"), influxql.Float)
		}
		return nil
	}
	render := func(m model, asc bool) string {
		var hosts []string
		for h := range m {
			if len(m[h]) > 0 {
				hosts = append(hosts, h)
			}
		}
		sort.Strings(hosts)
		if !asc {
			// a descending iterator also walks the series in descending order
			for i, j := 0, len(hosts)-1; i < j; i, j = i+1, j-1 {
				hosts[i], hosts[j] = hosts[j], hosts[i]
			}
		}
		out := ""
		for _, h := range hosts {
			var ts []int64
			for t := range m[h] {
				ts = append(ts, t)
			}
			sort.Slice(ts, func(i, j int) bool {
				if asc {
					return ts[i] < ts[j]
				}
				return ts[i] > ts[j]
			})
			for _, t := range ts {
				out += fmt.Sprintf("%s@%d=%v ", h, t, m[h][t])
			}
		}
		return out
	}
	cases := 0
	var hist []string
	var rec func() bool
	rec = func() bool {
		if len(hist) > 0 {
			cases++
			e := MustOpenEngine("inmem")
			for _, h := range []string{"A", "B"} {
				e.CreateSeriesIfNotExists([]byte("cpu,host="+h), []byte("cpu"), models.NewTags(map[string]string{"host": h}))
			}
			e.MeasurementFields([]byte("cpu")).CreateFieldIfNotExists([]byte("value"), influxql.Float)
			m := model{}
			for i, op := range hist {
				if err := apply(e, m, op); err != nil {
					e.Close()
					fmt.Printf("GOVC-BOUNDED-FAIL history %v: %s failed: %v\n", hist[:i+1], op, err)
					return false
				}
				for _, asc := range []bool{true, false} {
					if got, want := govcModelRead(e, asc), render(m, asc); got != want {
						e.Close()
						fmt.Printf("GOVC-BOUNDED-FAIL history %v (ascending=%v): the engine answers %q, the last-write-wins model %q\n", hist[:i+1], asc, got, want)
						return false
					}
				}
			}
			e.Close()
		}
		if len(hist) == maxLen {
			return true
		}
		for _, op := range ops {
			if !thorough {
				// quick tier: histories start with a write and never repeat an operation immediately
				if len(hist) == 0 && op != "write" && op != "overwrite" && op != "late-write" {
					continue
				}
				if len(hist) > 0 && hist[len(hist)-1] == op {
					continue
				}
			}
			hist = append(hist, op)
			ok := rec()
			hist = hist[:len(hist)-1]
			if !ok {
				return false
			}
		}
		return true
	}
	if !rec() {
		return
	}
	fmt.Printf("GOVC-BOUNDED-OK cases=%d max_history=%d\n", cases, maxLen)
}
