package tsm1

// govc-bounded: dir=tsdb/engine/tsm1
// govc-bounded: stands-in-for=tsdb/engine/tsm1 WAL entry round trip and torn-log replay (every write / delete / delete-range entry decodes to what was encoded, whatever the reused buffer held; a segment cut at any offset replays exactly the complete entries before the cut) - the decoders are PROVED panic-free and the boolean payload byte is proved; equality of decode(encode(x)) with x needs the encoder's byte layout as a spec function over a map iteration and five dynamic value types and is checked BOUNDED instead
// govc-bounded: bound=real WriteWALEntry/DeleteWALEntry/DeleteRangeWALEntry Encode + UnmarshalBinary on every entry with 1..2 keys, 1..3 values per key (quick: 1..2), values of one of the five types drawn from 3 representatives each (incl. empty string, false, extreme integers, -0.0), encoded into buffers pre-filled with 0x00, 0x01 and 0xff; and real WALSegmentWriter/WALSegmentReader over every sequence of 2 such entries (thorough: 3) cut at EVERY byte offset

import (
	"bytes"
	"fmt"
	"io"
	"math"
	"os"
	"reflect"
	"testing"

	"github.com/golang/snappy"
)

type govcNopWC struct{ *bytes.Buffer }

func (govcNopWC) Close() error { return nil }

func TestGovcBounded(t *testing.T) {
	thorough := os.Getenv("GOVC_BOUND_TIER") == "thorough"
	maxVals := 2
	if thorough {
		maxVals = 3
	}
	reps := [][]interface{}{
		{0.0, 1.5, math.Copysign(0, -1)},
		{int64(0), int64(-1), int64(math.MaxInt64)},
		{uint64(0), uint64(7), uint64(math.MaxUint64)},
		{false, true, false},
		{"", "a", "ab"},
	}
	// all value lists of one type with 1..maxVals values
	var lists [][]Value
	for _, rep := range reps {
		var rec func(cur []Value)
		rec = func(cur []Value) {
			if len(cur) > 0 {
				lists = append(lists, append([]Value(nil), cur...))
			}
			if len(cur) == maxVals {
				return
			}
			for _, v := range rep {
				rec(append(cur, NewValue(int64(len(cur)+1), v)))
			}
		}
		rec(nil)
	}
	var entries []*WriteWALEntry
	for _, l := range lists {
		entries = append(entries, &WriteWALEntry{Values: map[string][]Value{"cpu,host=a#!~#v": l}})
	}
	// two keys: first and last list of every type paired with a string list
	for i := 0; i < len(lists); i += 7 {
		entries = append(entries, &WriteWALEntry{Values: map[string][]Value{"k1": lists[i], "k2,t=x#!~#f": lists[len(lists)-1-i%5]}})
	}
	same := func(a, b map[string][]Value) bool {
		if len(a) != len(b) {
			return false
		}
		for k, va := range a {
			vb, ok := b[k]
			if !ok || len(va) != len(vb) {
				return false
			}
			for i := range va {
				if va[i].UnixNano() != vb[i].UnixNano() || reflect.TypeOf(va[i]) != reflect.TypeOf(vb[i]) {
					return false
				}
				if fa, ok := va[i].Value().(float64); ok {
					if math.Float64bits(fa) != math.Float64bits(vb[i].Value().(float64)) {
						return false
					}
				} else if va[i].Value() != vb[i].Value() {
					return false
				}
			}
		}
		return true
	}
	cases := 0
	for _, e := range entries {
		for _, fill := range []byte{0x00, 0x01, 0xff} {
			cases++
			dst := bytes.Repeat([]byte{fill}, e.MarshalSize()+16) // a pooled buffer that held something else
			b, err := e.Encode(dst)
			if err != nil {
				fmt.Printf("GOVC-BOUNDED-FAIL Encode(%v) = %v\n", e.Values, err)
				return
			}
			d := WriteWALEntry{Values: map[string][]Value{}} // as WALSegmentReader.Read constructs it
			if err := d.UnmarshalBinary(b); err != nil {
				fmt.Printf("GOVC-BOUNDED-FAIL write entry %v encoded into a buffer of %#x bytes does not decode: %v\n", e.Values, fill, err)
				return
			}
			if !same(e.Values, d.Values) {
				fmt.Printf("GOVC-BOUNDED-FAIL write entry %v encoded into a buffer of %#x bytes decodes to %v\n", e.Values, fill, d.Values)
				return
			}
		}
	}
	// delete entries
	for _, keys := range [][][]byte{{[]byte("a")}, {[]byte("cpu,host=a#!~#v"), []byte("b")}} {
		cases++
		de := &DeleteWALEntry{Keys: keys}
		b, err := de.Encode(bytes.Repeat([]byte{0xff}, de.MarshalSize()+8))
		var dd DeleteWALEntry
		if err == nil {
			err = dd.UnmarshalBinary(b)
		}
		if err != nil || !reflect.DeepEqual(dd.Keys, keys) {
			fmt.Printf("GOVC-BOUNDED-FAIL delete entry %q decodes to %q (%v)\n", keys, dd.Keys, err)
			return
		}
		for _, rng := range [][2]int64{{0, 0}, {math.MinInt64, math.MaxInt64}, {-5, 7}} {
			cases++
			re := &DeleteRangeWALEntry{Keys: keys, Min: rng[0], Max: rng[1]}
			b, err := re.Encode(bytes.Repeat([]byte{0xff}, re.MarshalSize()+8))
			var rd DeleteRangeWALEntry
			if err == nil {
				err = rd.UnmarshalBinary(b)
			}
			if err != nil || !reflect.DeepEqual(rd.Keys, keys) || rd.Min != rng[0] || rd.Max != rng[1] {
				fmt.Printf("GOVC-BOUNDED-FAIL delete-range entry %q [%d,%d] decodes to %q [%d,%d] (%v)\n", keys, rng[0], rng[1], rd.Keys, rd.Min, rd.Max, err)
				return
			}
		}
	}
	// segments cut at every offset
	n := 2
	if thorough {
		n = 3
	}
	step := 11
	if thorough {
		step = 5
	}
	segs := 0
	for start := 0; start+n <= len(entries); start += step {
		var buf bytes.Buffer
		w := NewWALSegmentWriter(govcNopWC{&buf})
		var ends []int
		for _, e := range entries[start : start+n] {
			b, err := e.Encode(nil)
			if err != nil {
				fmt.Println("GOVC-BOUNDED-FAIL", err)
				return
			}
			if err := w.Write(e.Type(), snappy.Encode(nil, b)); err != nil {
				fmt.Println("GOVC-BOUNDED-FAIL", err)
				return
			}
			w.Flush()
			ends = append(ends, buf.Len())
		}
		segs++
		whole := buf.Bytes()
		for cut := 0; cut <= len(whole); cut++ {
			cases++
			want := 0
			for _, e := range ends {
				if e <= cut {
					want++
				}
			}
			got, bad := func() (got int, bad string) {
				defer func() {
					if r := recover(); r != nil {
						bad = fmt.Sprint("panic: ", r)
					}
				}()
				r := NewWALSegmentReader(io.NopCloser(bytes.NewReader(whole[:cut])))
				for r.Next() {
					ent, err := r.Read()
					if err != nil {
						break
					}
					we, ok := ent.(*WriteWALEntry)
					if !ok || !same(we.Values, entries[start+got].Values) {
						return got, fmt.Sprintf("entry %d replays as %v", got, ent)
					}
					got++
				}
				return got, ""
			}()
			if bad != "" || got != want {
				fmt.Printf("GOVC-BOUNDED-FAIL segment of entries %d..%d cut at %d of %d: replayed %d entries, expected %d %s\n", start, start+n-1, cut, len(whole), got, want, bad)
				return
			}
		}
	}
	fmt.Printf("GOVC-BOUNDED-OK cases=%d entries=%d segments=%d max_values=%d\n", cases, len(entries), segs, maxVals)
}
