package retention

// govc-bounded: dir=services/retention
// govc-bounded: stands-in-for=services/retention.(*Service).run completeness (every local shard of every group that is marked deleted, or that expired and was marked in this pass, is handed to DeleteShard) - the soundness direction is proved by contract; the completeness direction needs a four-level quantifier over databases, policies, groups and shards through two map-building loops and is checked BOUNDED instead
// govc-bounded: bound=one pass of the real Service.run over every metadata value with 2 databases x 2 policies x 2 shard groups, each group independently in one of 4 states (live, already deleted, expired with DeleteShardGroup succeeding, expired with DeleteShardGroup failing), 2 shards per group, policy durations 1h or infinite, and every local shard set that is a prefix-closed selection of 3 patterns (all shards, none, every second shard) plus one shard unknown to the metadata: 4^8 x 3 metadata/local combinations (quick: the 4^4 x 3 combinations of the first database, the second database fixed to "all live")

import (
	"fmt"
	"os"
	"sort"
	"sync"
	"testing"
	"time"

	"github.com/influxdata/influxdb/services/meta"
	"github.com/influxdata/influxdb/toml"
)

type govcBoundedMeta struct {
	dbs       []meta.DatabaseInfo
	failGroup map[uint64]bool
	mu        sync.Mutex
	marked    map[uint64]bool
	pruned    chan struct{}
	once      sync.Once
}

func (m *govcBoundedMeta) Databases() []meta.DatabaseInfo { return m.dbs }
func (m *govcBoundedMeta) DeleteShardGroup(database, policy string, id uint64) error {
	if m.failGroup[id] {
		return fmt.Errorf("meta service unavailable")
	}
	m.mu.Lock()
	m.marked[id] = true
	m.mu.Unlock()
	return nil
}
func (m *govcBoundedMeta) PruneShardGroups() error {
	m.once.Do(func() { close(m.pruned) }) // end of the first pass
	return nil
}

type govcBoundedStore struct {
	ids     []uint64
	mu      sync.Mutex
	deleted []uint64
	frozen  bool
}

func (s *govcBoundedStore) ShardIDs() []uint64 { return s.ids }
func (s *govcBoundedStore) DeleteShard(id uint64) error {
	s.mu.Lock()
	if !s.frozen {
		s.deleted = append(s.deleted, id)
	}
	s.mu.Unlock()
	return nil
}

func TestGovcBounded(t *testing.T) {
	thorough := os.Getenv("GOVC_BOUND_TIER") == "thorough"
	now := time.Now().UTC()
	const (
		live = iota
		deleted
		expiredOK
		expiredFail
	)
	nGroups := 8
	free := 4 // groups whose state varies
	if thorough {
		free = 8
	}
	total := 1
	for i := 0; i < free; i++ {
		total *= 4
	}
	cases := 0
	for code := 0; code < total; code++ {
		states := make([]int, nGroups)
		c := code
		for i := 0; i < free; i++ {
			states[i] = c % 4
			c /= 4
		}
		for localPattern := 0; localPattern < 3; localPattern++ {
			cases++
			m := &govcBoundedMeta{failGroup: map[uint64]bool{}, marked: map[uint64]bool{}, pruned: make(chan struct{})}
			var want []uint64
			var local []uint64
			gid := uint64(0)
			for d := 0; d < 2; d++ {
				di := meta.DatabaseInfo{Name: fmt.Sprintf("db%d", d)}
				for p := 0; p < 2; p++ {
					rp := meta.RetentionPolicyInfo{Name: fmt.Sprintf("rp%d", p), ReplicaN: 1, Duration: time.Hour, ShardGroupDuration: time.Hour}
					for g := 0; g < 2; g++ {
						st := states[gid]
						gid++
						sg := meta.ShardGroupInfo{ID: gid}
						switch st {
						case live:
							sg.StartTime, sg.EndTime = now.Add(-30*time.Minute), now.Add(30*time.Minute)
						case deleted:
							sg.StartTime, sg.EndTime = now.Add(-30*time.Minute), now.Add(30*time.Minute) // deleted by DROP, not by age
							sg.DeletedAt = now.Add(-time.Minute)
						case expiredOK, expiredFail:
							sg.StartTime, sg.EndTime = now.Add(-5*time.Hour), now.Add(-4*time.Hour)
							m.failGroup[gid] = st == expiredFail
						}
						for s := 0; s < 2; s++ {
							id := gid*10 + uint64(s)
							sg.Shards = append(sg.Shards, meta.ShardInfo{ID: id, Owners: []meta.ShardOwner{{NodeID: 1}}})
							held := localPattern == 0 || (localPattern == 2 && s == 0)
							if held {
								local = append(local, id)
								if st == deleted || st == expiredOK {
									want = append(want, id)
								}
							}
						}
						rp.ShardGroups = append(rp.ShardGroups, sg)
					}
					di.RetentionPolicies = append(di.RetentionPolicies, rp)
				}
				m.dbs = append(m.dbs, di)
			}
			local = append(local, 9999) // a shard the metadata does not know: never to be deleted by retention
			store := &govcBoundedStore{ids: local}
			s := NewService(Config{Enabled: true, CheckInterval: toml.Duration(time.Millisecond)})
			s.MetaClient = m
			s.TSDBStore = store
			if err := s.Open(); err != nil {
				fmt.Println("GOVC-BOUNDED-FAIL open:", err)
				return
			}
			select {
			case <-m.pruned:
			case <-time.After(10 * time.Second):
				fmt.Println("GOVC-BOUNDED-FAIL the pass did not finish")
				return
			}
			store.mu.Lock()
			store.frozen = true // later passes are not part of the case
			got := append([]uint64(nil), store.deleted...)
			store.mu.Unlock()
			s.Close()
			sort.Slice(got, func(i, j int) bool { return got[i] < got[j] })
			sort.Slice(want, func(i, j int) bool { return want[i] < want[j] })
			// a second pass may have started before the store was frozen; the metadata of the case does not
			// change, so it can only repeat calls: compare as sets
			uniq := got[:0]
			for i, id := range got {
				if i == 0 || id != got[i-1] {
					uniq = append(uniq, id)
				}
			}
			got = uniq
			if fmt.Sprint(got) != fmt.Sprint(want) {
				fmt.Printf("GOVC-BOUNDED-FAIL group states %v (0 live, 1 deleted, 2 expired+marked, 3 expired+marking fails), local shards %v: DeleteShard called for %v, want %v\n", states, local, got, want)
				return
			}
		}
	}
	fmt.Printf("GOVC-BOUNDED-OK cases=%d free_groups=%d\n", cases, free)
}
