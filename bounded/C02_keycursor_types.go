package tsm1_test

// govc-bounded: dir=tsdb/engine/tsm1
// govc-bounded: stands-in-for=tsdb/engine/tsm1 KeyCursor.Read<T>Block for all five value types, ascending and descending (a read over overlapping data files returns one point per timestamp, the value of the newest file, minus what was deleted - each block filtered with the tombstones of ITS OWN file): the block-merging code is generated per type and per direction, the contracts prove its kernels (search, Include / Exclude, Merge) per type but not the bookkeeping around them, and the engine-level stand-ins use float values only; checked BOUNDED
// govc-bounded: bound=real FileStore with two data files of one key; older file with 3 block layouts, newer file with 3 ranges overlapping it differently; no delete or one of three range deletes through FileStore.DeleteRange (they land in the tombstones of the files that hold points in the range); float, integer, unsigned, string and boolean values; the key is read through KeyCursor in both directions with the typed Read<T>Block and compared with newest-wins minus the deleted range

import (
	"context"
	"fmt"
	"os"
	"path/filepath"
	"sort"
	"testing"

	"github.com/influxdata/influxdb/tsdb/engine/tsm1"
)

func govcKCValue(typ string, ts int64, gen int) tsm1.Value {
	x := ts*10 + int64(gen)
	switch typ {
	case "float":
		return tsm1.NewValue(ts, float64(x)+0.5)
	case "integer":
		return tsm1.NewValue(ts, x)
	case "unsigned":
		return tsm1.NewValue(ts, uint64(x))
	case "string":
		return tsm1.NewValue(ts, fmt.Sprint("s", x))
	}
	return tsm1.NewValue(ts, gen == 2)
}

func govcKCWrite(dir string, gen int, key string, blocks [][]tsm1.Value) (string, error) {
	name := filepath.Join(dir, tsm1.DefaultFormatFileName(gen, 1)+".tsm")
	f, err := os.OpenFile(name, os.O_CREATE|os.O_RDWR|os.O_EXCL, 0666)
	if err != nil {
		return "", err
	}
	w, err := tsm1.NewTSMWriter(f)
	if err != nil {
		return "", err
	}
	for _, b := range blocks {
		if err := w.Write([]byte(key), b); err != nil {
			return "", err
		}
	}
	if err := w.WriteIndex(); err != nil {
		return "", err
	}
	return name, w.Close()
}

// govcKCDrain reads the whole key through the cursor; a descending cursor hands out blocks from the end.
func govcKCDrain(c *tsm1.KeyCursor, typ string, ascending bool) ([]string, error) {
	var out []string
	fb := make([]tsm1.FloatValue, 0, 16)
	ib := make([]tsm1.IntegerValue, 0, 16)
	ub := make([]tsm1.UnsignedValue, 0, 16)
	sb := make([]tsm1.StringValue, 0, 16)
	bb := make([]tsm1.BooleanValue, 0, 16)
	for n := 0; n < 100; n++ {
		var block []string
		var err error
		switch typ {
		case "float":
			var vs []tsm1.FloatValue
			vs, err = c.ReadFloatBlock(&fb)
			for _, v := range vs {
				block = append(block, fmt.Sprintf("%d=%v", v.UnixNano(), v.Value()))
			}
		case "integer":
			var vs []tsm1.IntegerValue
			vs, err = c.ReadIntegerBlock(&ib)
			for _, v := range vs {
				block = append(block, fmt.Sprintf("%d=%v", v.UnixNano(), v.Value()))
			}
		case "unsigned":
			var vs []tsm1.UnsignedValue
			vs, err = c.ReadUnsignedBlock(&ub)
			for _, v := range vs {
				block = append(block, fmt.Sprintf("%d=%v", v.UnixNano(), v.Value()))
			}
		case "string":
			var vs []tsm1.StringValue
			vs, err = c.ReadStringBlock(&sb)
			for _, v := range vs {
				block = append(block, fmt.Sprintf("%d=%v", v.UnixNano(), v.Value()))
			}
		default:
			var vs []tsm1.BooleanValue
			vs, err = c.ReadBooleanBlock(&bb)
			for _, v := range vs {
				block = append(block, fmt.Sprintf("%d=%v", v.UnixNano(), v.Value()))
			}
		}
		if err != nil {
			return nil, err
		}
		if len(block) == 0 {
			return out, nil
		}
		if !ascending {
			for i, j := 0, len(block)-1; i < j; i, j = i+1, j-1 {
				block[i], block[j] = block[j], block[i]
			}
		}
		out = append(out, block...)
		c.Next()
	}
	return nil, fmt.Errorf("the cursor did not terminate")
}

func TestGovcBounded(t *testing.T) {
	older := [][][2]int64{{{1, 4}}, {{1, 2}, {5, 6}}, {{1, 2}, {3, 4}}}
	newer := [][2]int64{{3, 6}, {2, 3}, {1, 8}}
	deletes := [][2]int64{{0, 0}, {1, 2}, {3, 3}, {4, 5}}
	root, err := os.MkdirTemp("", "govc-keycursor")
	if err != nil {
		fmt.Println("GOVC-BOUNDED-FAIL", err)
		return
	}
	defer os.RemoveAll(root)
	cases, n := 0, 0
	for _, typ := range []string{"float", "integer", "unsigned", "string", "boolean"} {
		for oi, ol := range older {
			for ni, nr := range newer {
				for _, del := range deletes {
					n++
					dir := filepath.Join(root, fmt.Sprint(n))
					os.MkdirAll(dir, 0777)
					want := map[int64]string{}
					var ob [][]tsm1.Value
					for _, rg := range ol {
						var b []tsm1.Value
						for ts := rg[0]; ts <= rg[1]; ts++ {
							v := govcKCValue(typ, ts, 1)
							b = append(b, v)
							want[ts] = fmt.Sprintf("%d=%v", ts, v.Value())
						}
						ob = append(ob, b)
					}
					var nb []tsm1.Value
					for ts := nr[0]; ts <= nr[1]; ts++ {
						v := govcKCValue(typ, ts, 2)
						nb = append(nb, v)
						want[ts] = fmt.Sprintf("%d=%v", ts, v.Value())
					}
					a, err := govcKCWrite(dir, 1, "cpu", ob)
					if err != nil {
						fmt.Println("GOVC-BOUNDED-FAIL", err)
						return
					}
					b, err := govcKCWrite(dir, 2, "cpu", [][]tsm1.Value{nb})
					if err != nil {
						fmt.Println("GOVC-BOUNDED-FAIL", err)
						return
					}
					fs := tsm1.NewFileStore(dir)
					if err := fs.Replace(nil, []string{a, b}); err != nil {
						fmt.Println("GOVC-BOUNDED-FAIL", err)
						return
					}
					if del[0] != 0 {
						if err := fs.DeleteRange([][]byte{[]byte("cpu")}, del[0], del[1]); err != nil {
							fmt.Println("GOVC-BOUNDED-FAIL", err)
							fs.Close()
							return
						}
						for ts := del[0]; ts <= del[1]; ts++ {
							delete(want, ts)
						}
					}
					var tss []int64
					for ts := range want {
						tss = append(tss, ts)
					}
					sort.Slice(tss, func(i, j int) bool { return tss[i] < tss[j] })
					for _, asc := range []bool{true, false} {
						cases++
						var exp []string
						for _, ts := range tss {
							exp = append(exp, want[ts])
						}
						seek := int64(0)
						if !asc {
							seek = 100
							for i, j := 0, len(exp)-1; i < j; i, j = i+1, j-1 {
								exp[i], exp[j] = exp[j], exp[i]
							}
						}
						c := fs.KeyCursor(context.Background(), []byte("cpu"), seek, asc)
						got, err := govcKCDrain(c, typ, asc)
						c.Close()
						if err != nil || fmt.Sprint(got) != fmt.Sprint(exp) {
							fmt.Printf("GOVC-BOUNDED-FAIL %s values, older file blocks %v (layout %d), newer file %v (range %d), delete %v, ascending=%v: the cursor returns %v, expected %v (%v)\n",
								typ, ol, oi, nr, ni, del, asc, got, exp, err)
							fs.Close()
							return
						}
					}
					fs.Close()
					os.RemoveAll(dir)
				}
			}
		}
	}
	fmt.Printf("GOVC-BOUNDED-OK cases=%d\n", cases)
}
