package models

// govc-bounded: dir=models
// govc-bounded: stands-in-for=models.scanKey/loop 2 assume rebuilt_key_fits (the re-sorted key fits its buffer)
// govc-bounded: bound=real scanKey and ParsePoints on (1) "m," + every string over {a b , = space backslash} of length <= 8 (quick) / <= 9 (thorough) + " v=1", and (2) every key with 1..4 tags (quick) / 1..5 tags (thorough) whose keys and values are drawn from 6 strings containing the escapes \, \= \space and a trailing backslash, in every order, in a buffer with no spare capacity

import (
	"fmt"
	"os"
	"testing"
)

func TestGovcBounded(t *testing.T) {
	thorough := os.Getenv("GOVC_BOUND_TIER") == "thorough"
	cases := 0
	try := func(line []byte) (bad string) {
		defer func() {
			if r := recover(); r != nil {
				bad = fmt.Sprintf("input=%q panic=%v", line, r)
			}
		}()
		cases++
		b := make([]byte, len(line)) // exact capacity: no slack behind the input
		copy(b, line)
		scanKey(b, 0)
		b2 := make([]byte, len(line))
		copy(b2, line)
		ParsePoints(b2)
		return ""
	}

	// (1) raw strings in the tag section
	alphabet := []byte{'a', 'b', ',', '=', ' ', '\\'}
	maxLen := 8
	if thorough {
		maxLen = 9
	}
	cur := []byte("m,")
	var rec func(n int) string
	rec = func(n int) string {
		line := append(append([]byte(nil), cur...), " v=1"...)
		if bad := try(line); bad != "" {
			return bad
		}
		if n == maxLen {
			return ""
		}
		for _, c := range alphabet {
			cur = append(cur, c)
			if bad := rec(n + 1); bad != "" {
				return bad
			}
			cur = cur[:len(cur)-1]
		}
		return ""
	}
	if bad := rec(0); bad != "" {
		fmt.Println("GOVC-BOUNDED-FAIL", bad)
		return
	}

	// (2) structured keys: tags in every order, with escapes
	toks := []string{"a", "b", `a\,`, `\=b`, `c\ `, `d\\`}
	maxTags := 4
	if thorough {
		maxTags = 5
	}
	var tags []string
	var gen func(k int) string
	gen = func(k int) string {
		if len(tags) > 0 {
			line := "m"
			for _, tg := range tags {
				line += "," + tg
			}
			for _, tail := range []string{" v=1", " v=1 1", ""} {
				if bad := try([]byte(line + tail)); bad != "" {
					return bad
				}
			}
		}
		if k == maxTags {
			return ""
		}
		for _, key := range toks {
			for _, val := range toks[:3] {
				tags = append(tags, key+"="+val)
				if bad := gen(k + 1); bad != "" {
					return bad
				}
				tags = tags[:len(tags)-1]
			}
		}
		return ""
	}
	if bad := gen(0); bad != "" {
		fmt.Println("GOVC-BOUNDED-FAIL", bad)
		return
	}
	fmt.Printf("GOVC-BOUNDED-OK cases=%d raw_maxlen=%d max_tags=%d\n", cases, maxLen, maxTags)
}
