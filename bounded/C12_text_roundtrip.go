package models

// govc-bounded: dir=models
// govc-bounded: stands-in-for=C12 textual round trip and tag-order independence of key and hash (string rewriting and sorting of the whole key are outside what the SMT encoding decides)
// govc-bounded: bound=every point with measurement from 3 names, 0..3 tags (quick) / 0..4 tags (thorough) with keys/values from 5 strings incl. escapes, one field from 9 values of all types; every rotation and the reversal of the tag list; plus every raw line of length 1..6 (thorough: 1..7) over the alphabet {m space TAB = , 1 " backslash}: whatever the parser accepts must survive the text and the binary round trip; plus line independence: every string of length 0..5 (thorough: 0..6) over that alphabet without the double quote, followed by a valid line - the valid line comes back as the last point and the points before it are those of the first line alone

import (
	"bytes"
	"fmt"
	"os"
	"testing"
	"time"
)

func TestGovcBounded(t *testing.T) {
	thorough := os.Getenv("GOVC_BOUND_TIER") == "thorough"
	names := []string{"m", `m\,x`, `m\ y`}
	toks := []string{"a", "b", `a\,`, `\=b`, `c\ `}
	fields := []string{"v=1", "v=-1.5e3", "v=12i", "v=t", "v=FALSE", `v="s"`, `v="a\"b"`, `v="x,y z"`, `a\ b=1,c=2i`}
	maxTags := 3
	if thorough {
		maxTags = 4
	}
	cases := 0
	fail := ""
	check := func(line string) bool {
		cases++
		pts, err := ParsePointsWithPrecision([]byte(line), time.Unix(0, 0).UTC(), "n")
		if err != nil || len(pts) != 1 {
			return true // rejected lines (duplicate tags) are not the subject here
		}
		p := pts[0]
		again, err := ParsePointsWithPrecision([]byte(p.String()), time.Unix(0, 0).UTC(), "n")
		if err != nil || len(again) != 1 {
			fail = fmt.Sprintf("input=%q: String() %q does not parse back: %v", line, p.String(), err)
			return false
		}
		q := again[0]
		f1, e1 := p.Fields()
		f2, e2 := q.Fields()
		if !bytes.Equal(p.Key(), q.Key()) || !p.Time().Equal(q.Time()) || e1 != nil || e2 != nil || fmt.Sprintf("%#v", f1) != fmt.Sprintf("%#v", f2) {
			fail = fmt.Sprintf("input=%q: round trip differs: %q vs %q", line, p.String(), q.String())
			return false
		}
		// binary form
		bin, err := p.MarshalBinary()
		if err != nil {
			fail = fmt.Sprintf("input=%q: MarshalBinary: %v", line, err)
			return false
		}
		r, err := NewPointFromBytes(bin)
		if err != nil || !bytes.Equal(r.Key(), p.Key()) || r.String() != p.String() {
			fail = fmt.Sprintf("input=%q: binary round trip differs (%v)", line, err)
			return false
		}
		return true
	}
	var tags []string
	var gen func(k int) bool
	gen = func(k int) bool {
		for _, nm := range names {
			for _, fl := range fields {
				// the canonical key/hash of the tag list in the given order ...
				build := func(ts []string) string {
					line := nm
					for _, tg := range ts {
						line += "," + tg
					}
					return line + " " + fl + " 7"
				}
				base := build(tags)
				if !check(base) {
					return false
				}
				pts, err := ParsePoints([]byte(base))
				if err != nil || len(pts) != 1 {
					continue
				}
				// ... equals that of every rotation and of the reversal
				var orders [][]string
				for r := 1; r < len(tags); r++ {
					orders = append(orders, append(append([]string{}, tags[r:]...), tags[:r]...))
				}
				rev := make([]string, len(tags))
				for i, tg := range tags {
					rev[len(tags)-1-i] = tg
				}
				orders = append(orders, rev)
				for _, o := range orders {
					cases++
					qs, err := ParsePoints([]byte(build(o)))
					if err != nil || len(qs) != 1 || !bytes.Equal(qs[0].Key(), pts[0].Key()) || qs[0].HashID() != pts[0].HashID() {
						fail = fmt.Sprintf("key or hash depends on tag order: %q vs %q (%v)", base, build(o), err)
						return false
					}
				}
			}
		}
		if k == maxTags {
			return true
		}
		for _, key := range toks {
			for _, val := range toks[:3] {
				tags = append(tags, key+"="+val)
				ok := gen(k + 1)
				tags = tags[:len(tags)-1]
				if !ok {
					return false
				}
			}
		}
		return true
	}
	if !gen(0) {
		fmt.Println("GOVC-BOUNDED-FAIL", fail)
		return
	}
	// raw lines: every string over a small alphabet that contains the separators, both kinds of blank the
	// scanner skips (space, TAB), a quote and the escape character; whatever is accepted must round-trip
	alphabet := []byte{'m', ' ', '\t', '=', ',', '1', '"', '\\'}
	maxRaw := 6
	if thorough {
		maxRaw = 7
	}
	cur := []byte{}
	var raw func() bool
	raw = func() bool {
		if len(cur) > 0 && !check(string(cur)) {
			return false
		}
		if len(cur) == maxRaw {
			return true
		}
		for _, c := range alphabet {
			cur = append(cur, c)
			ok := raw()
			cur = cur[:len(cur)-1]
			if !ok {
				return false
			}
		}
		return true
	}
	if !raw() {
		fmt.Println("GOVC-BOUNDED-FAIL", fail)
		return
	}
	// line independence: a line - accepted or malformed - does not change what the NEXT line of the request
	// means. Every string without a double quote (a quoted string may legitimately span lines) and without a
	// line feed, over the same alphabet, followed by a valid line: that line has to come back as the last point,
	// and the points before it are those of the first line alone.
	maxFirst := maxRaw - 1
	second := "m2 v=2 7"
	wantSecond, _ := ParsePointsString(second)
	first := []byte{}
	var indep func() bool
	indep = func() bool {
		cases++
		alone, _ := ParsePointsWithPrecision(first, time.Unix(0, 0).UTC(), "n")
		joined, _ := ParsePointsWithPrecision([]byte(string(first)+"\n"+second), time.Unix(0, 0).UTC(), "n")
		ok := len(joined) == len(alone)+1 && joined[len(joined)-1].String() == wantSecond[0].String()
		for i := 0; ok && i < len(alone); i++ {
			ok = joined[i].String() == alone[i].String()
		}
		if !ok {
			var got []string
			for _, p := range joined {
				got = append(got, p.String())
			}
			fail = fmt.Sprintf("line %q followed by the valid line %q: the request yields %q (the first line alone yields %d points)", first, second, got, len(alone))
			return false
		}
		if len(first) == maxFirst {
			return true
		}
		for _, c := range alphabet {
			if c == '"' {
				continue
			}
			first = append(first, c)
			ok := indep()
			first = first[:len(first)-1]
			if !ok {
				return false
			}
		}
		return true
	}
	if !indep() {
		fmt.Println("GOVC-BOUNDED-FAIL", fail)
		return
	}
	fmt.Printf("GOVC-BOUNDED-OK cases=%d max_tags=%d max_raw=%d\n", cases, maxTags, maxRaw)
}
