package models_test

// govc-bounded: dir=models
// govc-bounded: stands-in-for=models scanKey / less / insertionSort (the series key, and with it the shard hash, does not depend on the order the tags were given in): the canonical order is by tag NAME; the sort of the parser works on the raw bytes of `name=value` pairs, and whether it orders names that are prefixes of one another the same way depends on how the byte after the shorter name compares with '=' - a statement about sorting byte strings that the contracts of the scanner (panic freedom, buffer sizes) do not make; checked BOUNDED
// govc-bounded: bound=every 3-element subset (thorough: also every 4-element subset) of 8 tag names that are prefixes of one another continued by bytes below, at and above '=' (disk, disk1, disk-a, disk.b, disk_c, diskz, a, b), every permutation: the key and HashID of the parsed point equal those of NewPoint with the same tags, and so does the shard chosen by ShardGroupInfo.ShardFor in a group of 7 shards

import (
	"bytes"
	"fmt"
	"os"
	"testing"
	"time"

	"github.com/influxdata/influxdb/models"
	"github.com/influxdata/influxdb/services/meta"
)

func TestGovcBounded(t *testing.T) {
	names := []string{"disk", "disk1", "disk-a", "disk.b", "disk_c", "diskz", "a", "b"}
	sizes := []int{3}
	if os.Getenv("GOVC_BOUND_TIER") == "thorough" {
		sizes = []int{3, 4}
	}
	sg := meta.ShardGroupInfo{ID: 1}
	for i := 0; i < 7; i++ {
		sg.Shards = append(sg.Shards, meta.ShardInfo{ID: uint64(i + 1)})
	}
	cases := 0
	var subset []string
	var perm func(rest, cur []string, f func([]string) bool) bool
	perm = func(rest, cur []string, f func([]string) bool) bool {
		if len(rest) == 0 {
			return f(cur)
		}
		for i := range rest {
			r := append(append([]string{}, rest[:i]...), rest[i+1:]...)
			if !perm(r, append(cur, rest[i]), f) {
				return false
			}
		}
		return true
	}
	var choose func(from, k int) bool
	choose = func(from, k int) bool {
		if k == 0 {
			tags := map[string]string{}
			for i, n := range subset {
				tags[n] = fmt.Sprintf("v%d", i)
			}
			ref, err := models.NewPoint("m", models.NewTags(tags), models.Fields{"v": 1.0}, time.Unix(0, 7))
			if err != nil {
				fmt.Println("GOVC-BOUNDED-FAIL", err)
				return false
			}
			return perm(subset, nil, func(order []string) bool {
				cases++
				line := "m"
				for _, n := range order {
					line += "," + n + "=" + tags[n]
				}
				line += " v=1 7"
				pts, err := models.ParsePointsString(line)
				if err != nil || len(pts) != 1 {
					fmt.Printf("GOVC-BOUNDED-FAIL line %q does not parse: %v\n", line, err)
					return false
				}
				p := pts[0]
				if !bytes.Equal(p.Key(), ref.Key()) || p.HashID() != ref.HashID() || sg.ShardFor(p).ID != sg.ShardFor(ref).ID {
					fmt.Printf("GOVC-BOUNDED-FAIL line %q: key %q, hash %d, shard %d; the same tags given in canonical order: key %q, hash %d, shard %d\n",
						line, p.Key(), p.HashID(), sg.ShardFor(p).ID, ref.Key(), ref.HashID(), sg.ShardFor(ref).ID)
					return false
				}
				return true
			})
		}
		for i := from; i <= len(names)-k; i++ {
			subset = append(subset, names[i])
			ok := choose(i+1, k-1)
			subset = subset[:len(subset)-1]
			if !ok {
				return false
			}
		}
		return true
	}
	for _, k := range sizes {
		if !choose(0, k) {
			return
		}
	}
	fmt.Printf("GOVC-BOUNDED-OK cases=%d\n", cases)
}
