package tsm1_test

// govc-bounded: dir=tsdb/engine/tsm1
// govc-bounded: stands-in-for=tsdb/engine/tsm1 Engine.Backup -> Engine.Restore / Engine.Import reproduces the shard (the copy answers every read as the source did when the backup was taken, whatever mixture of cached data, data files and pending deletes the source held; the source is unchanged) - equality of shard contents through the hard-link snapshot, the tar stream and the overlay is a whole-engine statement over files, which no function contract here expresses; proved by contract are only the export window, the complete-archive rule and the error surfacing of the copy chain; this is checked BOUNDED instead
// govc-bounded: bound=real engine (inmem index), every history of length 1..3 (thorough: 1..4) over 6 operations - write points 1s..4s of series A and B, overwrite 3s..6s of series A with new values, flush the cache to a data file, range-delete 2s..3s of series A, delete series B entirely, full compaction - followed by Backup, then Restore into one fresh engine and Import into another; both copies and the source (before and after the backup) are read back completely (series A and B) and compared

import (
	"bytes"
	"context"
	"fmt"
	"math"
	"os"
	"testing"
	"time"

	"github.com/influxdata/influxdb/models"
	"github.com/influxdata/influxdb/query"
	"github.com/influxdata/influxql"
)

func govcBoundedRead(e *Engine) string {
	itr, err := e.CreateIterator(context.Background(), "cpu", query.IteratorOptions{
		Expr: influxql.MustParseExpr(`value`), Dimensions: []string{"host"}, StartTime: influxql.MinTime, EndTime: influxql.MaxTime, Ascending: true})
	if err != nil {
		return "error: " + err.Error()
	}
	if itr == nil {
		return ""
	}
	defer itr.Close()
	fitr, ok := itr.(query.FloatIterator)
	if !ok {
		return fmt.Sprintf("iterator %T", itr)
	}
	out := ""
	for {
		p, err := fitr.Next()
		if err != nil {
			return out + " error: " + err.Error()
		}
		if p == nil {
			return out
		}
		out += fmt.Sprintf("%s@%d=%v ", p.Tags.ID(), p.Time/1000000000, p.Value)
	}
}

func govcBoundedPrepare(e *Engine) {
	for _, h := range []string{"A", "B"} {
		e.CreateSeriesIfNotExists([]byte("cpu,host="+h), []byte("cpu"), models.NewTags(map[string]string{"host": h}))
	}
	e.MeasurementFields([]byte("cpu")).CreateFieldIfNotExists([]byte("value"), influxql.Float)
}

func TestGovcBounded(t *testing.T) {
	thorough := os.Getenv("GOVC_BOUND_TIER") == "thorough"
	maxLen := 3
	if thorough {
		maxLen = 4
	}
	ops := []string{"write", "overwrite", "flush", "delete-range", "delete-series", "compact"}
	apply := func(e *Engine, op string) error {
		switch op {
		case "write":
			return e.WritePointsString(
				`cpu,host=A value=1 1000000000`, `cpu,host=A value=2 2000000000`, `cpu,host=A value=3 3000000000`, `cpu,host=A value=4 4000000000`,
				`cpu,host=B value=10 1000000000`, `cpu,host=B value=20 2000000000`)
		case "overwrite":
			return e.WritePointsString(`cpu,host=A value=33 3000000000`, `cpu,host=A value=44 4000000000`, `cpu,host=A value=55 5000000000`, `cpu,host=A value=66 6000000000`)
		case "flush":
			return e.WriteSnapshot()
		case "delete-range":
			return e.DeleteSeriesRange(&seriesIterator{keys: [][]byte{[]byte("cpu,host=A")}}, 2000000000, 3000000000)
		case "delete-series":
			return e.DeleteSeriesRange(&seriesIterator{keys: [][]byte{[]byte("cpu,host=B")}}, math.MinInt64, math.MaxInt64)
		case "compact":
			if err := e.WriteSnapshot(); err != nil {
				return err
			}
			files := e.FileStore.Files()
			if len(files) < 2 {
				return nil
			}
			var names []string
			for _, f := range files {
				names = append(names, f.Path())
			}
			out, err := e.Compactor.CompactFull(names)
			if err != nil {
				return err
			}
			return e.FileStore.Replace(names, out)
		}
		return nil
	}
	cases := 0
	var hist []string
	var rec func() bool
	rec = func() bool {
		if len(hist) > 0 {
			cases++
			src := MustOpenEngine("inmem")
			govcBoundedPrepare(src)
			for _, op := range hist {
				if err := apply(src, op); err != nil {
					src.Close()
					fmt.Printf("GOVC-BOUNDED-FAIL history %v: %s failed: %v\n", hist, op, err)
					return false
				}
			}
			before := govcBoundedRead(src)
			var buf bytes.Buffer
			if err := src.Backup(&buf, "", time.Unix(0, 0)); err != nil {
				src.Close()
				fmt.Printf("GOVC-BOUNDED-FAIL history %v: Backup: %v\n", hist, err)
				return false
			}
			after := govcBoundedRead(src)
			src.Close()
			if before != after {
				fmt.Printf("GOVC-BOUNDED-FAIL history %v: the source answered %q before the backup and %q after it\n", hist, before, after)
				return false
			}
			archive := buf.Bytes()
			for _, mode := range []string{"Restore", "Import"} {
				dst := MustOpenEngine("inmem")
				govcBoundedPrepare(dst)
				var err error
				if mode == "Restore" {
					err = dst.Restore(bytes.NewReader(archive), "")
				} else {
					err = dst.Import(bytes.NewReader(archive), "")
				}
				got := ""
				if err == nil {
					got = govcBoundedRead(dst)
				}
				dst.Close()
				if err != nil || got != before {
					fmt.Printf("GOVC-BOUNDED-FAIL history %v: the source answers %q; the copy made by Backup + %s answers %q (%v)\n", hist, before, mode, got, err)
					return false
				}
			}
		}
		if len(hist) == maxLen {
			return true
		}
		for _, op := range ops {
			hist = append(hist, op)
			ok := rec()
			hist = hist[:len(hist)-1]
			if !ok {
				return false
			}
		}
		return true
	}
	if !rec() {
		return
	}
	// time-bounded backups: a full backup, more data files, a backup of what changed since the first one was
	// started; restoring both in order gives the source's content. (`since` is taken a few milliseconds before
	// the next write - the file system stamps files with a coarser clock than time.Now.)
	for _, later := range [][]string{{"overwrite", "flush"}, {"overwrite", "flush", "write", "flush"}} {
		cases++
		src := MustOpenEngine("inmem")
		govcBoundedPrepare(src)
		fail := func(format string, args ...interface{}) {
			src.Close()
			fmt.Printf("GOVC-BOUNDED-FAIL incremental backup after write, flush, full backup, %v: %s\n", later, fmt.Sprintf(format, args...))
		}
		if err := apply(src, "write"); err != nil {
			fail("%v", err)
			return
		}
		if err := apply(src, "flush"); err != nil {
			fail("%v", err)
			return
		}
		var full, inc bytes.Buffer
		if err := src.Backup(&full, "", time.Unix(0, 0)); err != nil {
			fail("full backup: %v", err)
			return
		}
		time.Sleep(30 * time.Millisecond)
		since := time.Now()
		time.Sleep(30 * time.Millisecond)
		for _, op := range later {
			if err := apply(src, op); err != nil {
				fail("%s: %v", op, err)
				return
			}
		}
		want := govcBoundedRead(src)
		if err := src.Backup(&inc, "", since); err != nil {
			fail("backup since: %v", err)
			return
		}
		dst := MustOpenEngine("inmem")
		govcBoundedPrepare(dst)
		err := dst.Restore(bytes.NewReader(full.Bytes()), "")
		if err == nil {
			err = dst.Restore(bytes.NewReader(inc.Bytes()), "")
		}
		got := ""
		if err == nil {
			got = govcBoundedRead(dst)
		}
		dst.Close()
		if err != nil || got != want {
			fail("the source answers %q; full backup + backup since %s restored in order answer %q (%v)", want, since.Format(time.RFC3339Nano), got, err)
			return
		}
		src.Close()
	}
	fmt.Printf("GOVC-BOUNDED-OK cases=%d max_history=%d\n", cases, maxLen)
}
