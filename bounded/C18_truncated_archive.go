package tsm1_test

// govc-bounded: dir=tsdb/engine/tsm1
// govc-bounded: stands-in-for=tsdb/engine/tsm1 Engine.Restore / Engine.overlay on an archive that ends early (a copy that fails part-way must not leave a half-populated shard that is reported as restored): the contract on overlay proves that only a clean end of the tar stream is taken for "complete" - but a stream that stops exactly between two members IS a clean end for archive/tar (the end-of-archive blocks are not required), which no contract here can see; checked BOUNDED
// govc-bounded: bound=real engine (inmem index) holding two data files and a tombstone file (write, flush, overwrite, flush, range delete); Backup; then Restore into a fresh engine from the archive cut at every multiple of 512 bytes and at 7 bytes past each of them: the restore has to fail, or the copy has to answer as the source does. Cuts that fall exactly between two members are a recorded known finding (case id cut-between-members); any other accepted cut is a violation

import (
	"bytes"
	"context"
	"fmt"
	"os"
	"strings"
	"testing"
	"time"

	"github.com/influxdata/influxdb/models"
	"github.com/influxdata/influxdb/query"
	"github.com/influxdata/influxql"
)

func govcBoundedRead(e *Engine) string {
	itr, err := e.CreateIterator(context.Background(), "cpu", query.IteratorOptions{
		Expr: influxql.MustParseExpr(`value`), Dimensions: []string{"host"}, StartTime: influxql.MinTime, EndTime: influxql.MaxTime, Ascending: true})
	if err != nil {
		return "error: " + err.Error()
	}
	if itr == nil {
		return ""
	}
	defer itr.Close()
	fitr, ok := itr.(query.FloatIterator)
	if !ok {
		return fmt.Sprintf("iterator %T", itr)
	}
	out := ""
	for {
		p, err := fitr.Next()
		if err != nil {
			return out + " error: " + err.Error()
		}
		if p == nil {
			return out
		}
		out += fmt.Sprintf("%s@%d=%v ", p.Tags.ID(), p.Time/1000000000, p.Value)
	}
}

func govcBoundedPrepare(e *Engine) {
	for _, h := range []string{"A", "B"} {
		e.CreateSeriesIfNotExists([]byte("cpu,host="+h), []byte("cpu"), models.NewTags(map[string]string{"host": h}))
	}
	e.MeasurementFields([]byte("cpu")).CreateFieldIfNotExists([]byte("value"), influxql.Float)
}


func TestGovcBounded(t *testing.T) {
	known := map[string]bool{}
	for _, k := range strings.Split(os.Getenv("GOVC_KNOWN_CASES"), ";") {
		if k != "" {
			known[k] = true
		}
	}
	src := MustOpenEngine("inmem")
	govcBoundedPrepare(src)
	steps := []func() error{
		func() error {
			return src.WritePointsString(`cpu,host=A value=1 1000000000`, `cpu,host=A value=2 2000000000`, `cpu,host=A value=3 3000000000`, `cpu,host=B value=10 1000000000`)
		},
		src.WriteSnapshot,
		func() error { return src.WritePointsString(`cpu,host=A value=33 3000000000`, `cpu,host=A value=44 4000000000`) },
		src.WriteSnapshot,
		func() error {
			return src.DeleteSeriesRange(&seriesIterator{keys: [][]byte{[]byte("cpu,host=A")}}, 2000000000, 2000000000)
		},
	}
	for _, st := range steps {
		if err := st(); err != nil {
			fmt.Println("GOVC-BOUNDED-FAIL building the source shard:", err)
			return
		}
	}
	want := govcBoundedRead(src)
	var buf bytes.Buffer
	if err := src.Backup(&buf, "", time.Unix(0, 0)); err != nil {
		fmt.Println("GOVC-BOUNDED-FAIL Backup:", err)
		return
	}
	src.Close()
	archive := buf.Bytes()
	cases, waived := 0, 0
	var cuts []int
	for c := 0; c < len(archive); c += 512 {
		cuts = append(cuts, c, c+7)
	}
	for _, c := range cuts {
		if c >= len(archive) {
			continue
		}
		cases++
		dst := MustOpenEngine("inmem")
		govcBoundedPrepare(dst)
		err := dst.Restore(bytes.NewReader(archive[:c]), "")
		got := ""
		if err == nil {
			got = govcBoundedRead(dst)
		}
		dst.Close()
		if err != nil || got == want {
			continue
		}
		desc := fmt.Sprintf("archive of %d bytes cut after %d bytes: Restore reports success, the copy answers %q, the source %q", len(archive), c, got, want)
		if c%512 == 0 && known["cut-between-members"] {
			waived++
			fmt.Printf("GOVC-BOUNDED-KNOWN cut-between-members %s\n", desc)
			continue
		}
		fmt.Printf("GOVC-BOUNDED-FAIL %s\n", desc)
		return
	}
	fmt.Printf("GOVC-BOUNDED-OK cases=%d (of which %d fail as recorded in known_findings.json)\n", cases, waived)
}
