#!/usr/bin/env python3
# Instantiates the kernel contract schema for the typed value slices of tsm1 (encoding.gen.go):
# FloatValues, IntegerValues, UnsignedValues, StringValues, BooleanValues. Output is appended to the
# tsm1 contract file between the markers.
import re
P='/repo/tsdb/engine/tsm1/verif_contracts.go'
B='// >>> generated: typed value-slice kernels (gen_values_contracts.py)\n'
E='// <<< generated: typed value-slice kernels\n'
out=[B,'''
//@ pure sorted_v(a) = all(i, 0, len(a), all(j, i+1, len(a), a[i].unixnano < a[j].unixnano))
//@ pure insertion_v(a, v, r) = 0 <= r && r <= len(a) && all(k, 0, r, a[k].unixnano < v) && all(k, r, len(a), a[k].unixnano >= v)
//@ pure upper_v(a, v, r) = 0 <= r && r <= len(a) && all(k, 0, r, a[k].unixnano <= v) && all(k, r, len(a), a[k].unixnano > v)
''']
for T in ['FloatValues','IntegerValues','UnsignedValues','StringValues','BooleanValues']:
    d='(len(a) - len(result))'
    out.append('''
//@ func (%(T)s).search
//@   props C02 C09 C10
//@   requires sorted: sorted_v(a)
//@   loop 1 invariant bounds: 0 <= lo && lo <= hi && hi <= len(a)
//@   loop 1 invariant below: all(k, 0, lo, a[k].unixnano < v)
//@   loop 1 invariant above: all(k, hi, len(a), a[k].unixnano >= v)
//@   loop 1 decreases hi - lo
//@   ensures point: insertion_v(a, v, result)
//@   modifies nothing

//@ func (%(T)s).FindRange
//@   props C02 C09 C10
//@   requires sorted: sorted_v(a)
//@   ensures both_or_none: (result0 == -1) == (result1 == -1)
//@   ensures none_iff: (result0 == -1) == (len(a) == 0 || min > max || a[len(a)-1].unixnano < min || a[0].unixnano > max)
//@   ensures lo: result0 != -1 ==> insertion_v(a, min, result0)
//@   ensures hi: result0 != -1 ==> insertion_v(a, max, result1)
//@   ensures lo_seed: result0 != -1 ==> (result0 == len(a) || a[result0].unixnano >= min) && (result0 == 0 || a[result0-1].unixnano < min)
//@   ensures hi_seed: result0 != -1 ==> (result1 == len(a) || a[result1].unixnano >= max) && (result1 == 0 || a[result1-1].unixnano < max)
//@   modifies nothing

// Exclude(min,max): the result holds exactly the elements with t < min or t > max, in order, each with its value.
//@ func (%(T)s).Exclude
//@   props C02 C09 C10
//@   requires sorted: sorted_v(a)
//@   ensures shrinks: len(result) <= len(a)
//@   ensures all_in_range_removed: all(k, 0, len(result), result[k].unixnano < min || result[k].unixnano > max)
//@   ensures below_kept: all(k, 0, len(a), old(a[k].unixnano) < min ==> k < len(result) && result[k].unixnano == old(a[k].unixnano) && result[k].value == old(a[k].value))
//@   ensures above_kept: all(k, 0, len(a), old(a[k].unixnano) > max ==> k - %(d)s >= 0 && result[k - %(d)s].unixnano == old(a[k].unixnano) && result[k - %(d)s].value == old(a[k].value))
//@   ensures low_from_same_index: all(k, 0, len(result), result[k].unixnano < min ==> result[k].unixnano == old(a[k].unixnano) && result[k].value == old(a[k].value))
//@   ensures high_ts_from_shifted_index: all(k, 0, len(result), result[k].unixnano > max ==> result[k].unixnano == old_elem(a, k + %(d)s, unixnano))
//@   ensures high_val_from_shifted_index: all(k, 0, len(result), result[k].unixnano > max ==> result[k].value == old_elem(a, k + %(d)s, value))
//@   ensures sorted: sorted_v(result)
//@   modifies a[:]

// Include(min,max): the result holds exactly the elements with min <= t <= max, in order, each with its value.
//@ func (%(T)s).Include
//@   props C02 C09
//@   dead ret1
//@   requires sorted: sorted_v(a)
//@   ensures only_in_range: all(k, 0, len(result), min <= result[k].unixnano && result[k].unixnano <= max)
//@   ensures empty_range: min > max ==> len(result) == 0
//@   ensures exact_len: all(s_, 0, len(a)+1, all(e_, 0, len(a)+1, (old(insertion_v(a, min, s_)) && old(upper_v(a, max, e_)) && s_ <= e_ && (s_ == len(a) || old_elem(a, s_, unixnano) >= min) && (e_ == 0 || old_elem(a, e_ - 1, unixnano) <= max)) ==> len(result) == e_ - s_))
//@   ensures exact_ts: all(s_, 0, len(a)+1, all(e_, 0, len(a)+1, (old(insertion_v(a, min, s_)) && old(upper_v(a, max, e_)) && s_ <= e_ && (s_ == len(a) || old_elem(a, s_, unixnano) >= min) && (e_ == 0 || old_elem(a, e_ - 1, unixnano) <= max)) ==> all(k, 0, len(result), result[k].unixnano == old_elem(a, k + s_, unixnano))))
//@   ensures exact_val: all(s_, 0, len(a)+1, all(e_, 0, len(a)+1, (old(insertion_v(a, min, s_)) && old(upper_v(a, max, e_)) && s_ <= e_ && (s_ == len(a) || old_elem(a, s_, unixnano) >= min) && (e_ == 0 || old_elem(a, e_ - 1, unixnano) <= max)) ==> all(k, 0, len(result), result[k].value == old_elem(a, k + s_, value))))
//@   ensures sorted: sorted_v(result)
//@   modifies a[:]
''' % dict(T=T,d=d))
out.append(E)
s=open(P).read()
if B in s:
    s=s[:s.index(B)]+s[s.index(E)+len(E):]
open(P,'w').write(s.rstrip('\n')+'\n\n'+''.join(out))
print('ok')
