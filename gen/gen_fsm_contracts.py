#!/usr/bin/env python3
"""Generate the C06.7 contracts of services/meta/store_fsm.go: every (*storeFSM).apply*Command either installs
a new Data or, when it returns a non-nil result (the command is rejected), leaves fsm.data exactly the pointer
it was, and every mutating Data method it calls is called on a private copy (a Data allocated during this
call, i.e. the result of Clone), never on the published fsm.data.

The contracts are derived from the SOURCE of /repo/services/meta/store_fsm.go on every run of this script
(function list, the asserted extension type, the mutator call sites); the verified text is the go/ssa of the
real functions.  Output: the block between the GENERATED-FSM markers of services/meta/verif_contracts.go.
"""
import re, sys

SRC = "/repo/services/meta/store_fsm.go"
DATA = "/repo/services/meta/data.go"
OUT = "/repo/services/meta/verif_contracts.go"
BEGIN = "// ---- GENERATED-FSM BEGIN (gen/gen_fsm_contracts.py) ----"
END = "// ---- GENERATED-FSM END ----"

# Data methods that only read
READERS = {"DataNode", "MetaNode", "Database", "RetentionPolicy", "User", "Clone", "AdminUserExists",
           "ShardGroups", "ShardGroupsByTimeRange", "ShardGroupByTimestamp", "UserPrivileges", "UserPrivilege",
           "CloneDatabases", "CloneUsers", "CloneDataNodes", "CloneMetaNodes", "hasAdminUser", "user", "ShardLocation"}


def functions(src):
    out = []
    for m in re.finditer(r"^func \(fsm \*storeFSM\) (apply\w+Command)\(([^)]*)\) interface\{\} \{\n(.*?)^\}\n", src, re.S | re.M):
        out.append((m.group(1), m.group(2), m.group(3)))
    return out


def data_methods(src):
    return set(re.findall(r"^func \(data \*Data\) (\w+)\(", src, re.M))


def main():
    src = open(SRC).read()
    dm = data_methods(open(DATA).read())
    cur0 = open(OUT).read()
    hand = cur0[:cur0.index(BEGIN)] + cur0[cur0.index(END):] if BEGIN in cur0 else cur0
    contracted = set(re.findall(r"^//@ func \(\*Data\)\.(\w+)$", hand, re.M))
    lines = [BEGIN,
             "// A rejected command changes nothing: the published Data pointer is kept and mutators only ever run on the clone.",
             ""]
    mutators = set()
    ipkg = re.search(r"^package (\w+)", open("/repo/services/meta/internal/meta.pb.go").read(), re.M).group(1)
    if ipkg != "internal":
        ipkg += "pb"  # govc's name for a package under .../internal that is not called internal
    for name, params, body in functions(src):
        lines.append("//@ func (*storeFSM).%s" % name)
        lines.append("//@   props C06 C07")
        lines.append("//@   requires cmd != nil && fsm.data != nil")
        lines.append("//@   holds fsm.mu")
        if "s.config" in body or "fsm.config" in body:
            lines.append("//@   requires fsm.config != nil")
        if "raftState" in body:
            lines.append("//@   requires fsm.raftState != nil")
        m = re.search(r"ext\.\(\*internal\.(\w+)\)", body)
        if m:
            lines.append('//@   at after proto.GetExtension#1: assume typeis(callresult0, "*%s.%s") && ival(callresult0) != 0' % (ipkg, m.group(1)))
        lines.append("//@   ensures rejected_changes_nothing: result != nil ==> fsm.data == old(fsm.data)")
        cnt = {}
        for cm in re.finditer(r"\b(other|fsm\.data|s\.data)\.(\w+)\(", body):
            recv, meth = cm.group(1), cm.group(2)
            if meth not in dm:
                continue
            cnt[meth] = cnt.get(meth, 0) + 1
            if meth in READERS:
                continue
            r = recv
            if meth in contracted:
                # verified elsewhere under its own preconditions (Data invariants the FSM does not track)
                lines.append("//@   call Data.%s#%d assume_callee_requires" % (meth, cnt[meth]))
            else:
                mutators.add(meth)
            lines.append("//@   call Data.%s#%d requires runs_on_private_copy: fresh(%s)" % (meth, cnt[meth], r))
        lines.append("")
    lines.append("// Data's mutators cannot reach the store (Data holds no pointer to it): assumed frame, bodies unverified here.")
    for meth in sorted(mutators):
        lines.append("//@ func (*Data).%s" % meth)
        lines.append("//@   assumed")
        lines.append("//@   modifies *except storeFSM.all store.all")
        lines.append("")
    lines.append(END)
    block = "\n".join(lines) + "\n"
    cur = open(OUT).read()
    if BEGIN in cur:
        pre = cur[:cur.index(BEGIN)]
        post = cur[cur.index(END) + len(END):].lstrip("\n")
        cur = pre + block + ("\n" + post if post else "")
    else:
        cur = cur.rstrip("\n") + "\n\n" + block
    open(OUT, "w").write(cur)
    print("generated %d apply contracts, %d assumed mutator frames" % (len(functions(src)), len(mutators)))


if __name__ == "__main__":
    main()
