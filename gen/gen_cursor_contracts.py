#!/usr/bin/env python3
"""Generate the C02 overlay contracts of the ten array cursors of tsdb/engine/tsm1/array_cursor.gen.go
(<type>Array{Ascending,Descending}Cursor.Next and the assumed contract of nextTSM), one instance per typed copy of
the generated code. Output: the block between the GENERATED-CURSORS markers of tsdb/engine/tsm1/verif_contracts.go."""
import re

OUT = "/repo/tsdb/engine/tsm1/verif_contracts.go"
SRC = "/repo/tsdb/engine/tsm1/array_cursor.gen.go"
BEGIN = "// ---- GENERATED-CURSORS BEGIN (gen/gen_cursor_contracts.py) ----"
END = "// ---- GENERATED-CURSORS END ----"

HEAD = '''// ---- C02: the array cursors overlay cache on TSM values: one point per timestamp, cache wins a tie ----
// Both inputs are strictly increasing in time (the cache values were deduplicated, a TSM block is sorted and the
// key cursor hands out blocks in time order without overlap). After every emitted point the heads still to be
// read on BOTH sides lie strictly beyond it in the direction of travel. That makes the output strictly monotone -
// in particular on a tie both sides advance, otherwise the stale TSM value of the same timestamp would follow
// (or precede) the cache value.
'''

def desc(t):
    c = "%sArrayDescendingCursor" % t
    return '''//@ func (*{c}).nextTSM
//@   assumed
//@   modifies *except c.cache c.res c.end c.res.Timestamps c.res.Values c.res.Timestamps[:] c.res.Values[:] c.cache.values[:]
//@   ensures positioned_at_the_end: result != nil && result == c.tsm.values && c.tsm.pos == len(result.Timestamps) - 1
//@   ensures block_is_sorted: all(i, 0, len(result.Timestamps), all(j, i+1, len(result.Timestamps), result.Timestamps[i] < result.Timestamps[j]))
//@   ensures block_is_not_the_result_buffer: result != c.res && arr(result.Timestamps) != arr(c.res.Timestamps) && arr(result.Timestamps) != arr(c.res.Values)
//@   ensures older_than_the_block_before: old(len(c.tsm.values.Timestamps)) > 0 ==> all(k, 0, len(result.Timestamps), result.Timestamps[k] < old(c.tsm.values.Timestamps[0]))

//@ func (*{c}).Next
//@   props C02
//@   nosafety
//@   requires cache_sorted: all(i, 0, len(c.cache.values), all(j, i+1, len(c.cache.values), value_ts(c.cache.values[i]) < value_ts(c.cache.values[j])))
//@   requires block_sorted: c.tsm.values != nil && all(i, 0, len(c.tsm.values.Timestamps), all(j, i+1, len(c.tsm.values.Timestamps), c.tsm.values.Timestamps[i] < c.tsm.values.Timestamps[j]))
//@   requires positions: c.cache.pos < len(c.cache.values) && c.tsm.pos < len(c.tsm.values.Timestamps) && c.res != nil
//@   requires own_result_buffer: arr(c.res.Timestamps) != arr(c.tsm.values.Timestamps) && arr(c.res.Values) != arr(c.tsm.values.Timestamps) && arr(c.res.Values) != arr(c.res.Timestamps) && c.res != c.tsm.values
//@   loop 1 invariant walking: 0 <= pos && arr(c.cache.values) == arr(cvals) && off(c.cache.values) == off(cvals) && len(c.cache.values) == len(cvals) && tvals != nil && tvals == c.tsm.values && c.cache.pos < len(cvals) && c.tsm.pos < len(tvals.Timestamps) && arr(c.res.Timestamps) != arr(tvals.Timestamps) && arr(c.res.Values) != arr(tvals.Timestamps) && arr(c.res.Values) != arr(c.res.Timestamps) && c.res != tvals
//@   loop 1 invariant still_sorted: all(i, 0, len(tvals.Timestamps), all(j, i+1, len(tvals.Timestamps), tvals.Timestamps[i] < tvals.Timestamps[j]))
//@   loop 1 invariant cache_still_sorted: all(i, 0, len(cvals), all(j, i+1, len(cvals), value_ts(cvals[i]) < value_ts(cvals[j])))
//@   loop 1 invariant heads_are_older_than_the_last_point: pos > 0 ==> (c.cache.pos >= 0 ==> value_ts(cvals[c.cache.pos]) < c.res.Timestamps[pos-1]) && (c.tsm.pos >= 0 ==> tvals.Timestamps[c.tsm.pos] < c.res.Timestamps[pos-1])

'''.format(c=c)

def asc(t):
    c = "%sArrayAscendingCursor" % t
    return '''//@ func (*{c}).nextTSM
//@   assumed
//@   modifies *except c.cache c.res c.end c.res.Timestamps c.res.Values c.res.Timestamps[:] c.res.Values[:] c.cache.values[:]
//@   ensures positioned_at_the_start: result != nil && result == c.tsm.values && c.tsm.pos == 0
//@   ensures block_is_sorted: all(i, 0, len(result.Timestamps), all(j, i+1, len(result.Timestamps), result.Timestamps[i] < result.Timestamps[j]))
//@   ensures block_is_not_the_result_buffer: result != c.res && arr(result.Timestamps) != arr(c.res.Timestamps) && arr(result.Timestamps) != arr(c.res.Values)
//@   ensures newer_than_the_block_before: old(len(c.tsm.values.Timestamps)) > 0 ==> all(k, 0, len(result.Timestamps), result.Timestamps[k] > old(c.tsm.values.Timestamps[len(c.tsm.values.Timestamps)-1]))

//@ func (*{c}).Next
//@   props C02
//@   nosafety
//@   requires cache_sorted: all(i, 0, len(c.cache.values), all(j, i+1, len(c.cache.values), value_ts(c.cache.values[i]) < value_ts(c.cache.values[j])))
//@   requires block_sorted: c.tsm.values != nil && all(i, 0, len(c.tsm.values.Timestamps), all(j, i+1, len(c.tsm.values.Timestamps), c.tsm.values.Timestamps[i] < c.tsm.values.Timestamps[j]))
//@   requires positions: 0 <= c.cache.pos && 0 <= c.tsm.pos && c.res != nil
//@   requires own_result_buffer: arr(c.res.Timestamps) != arr(c.tsm.values.Timestamps) && arr(c.res.Values) != arr(c.tsm.values.Timestamps) && arr(c.res.Values) != arr(c.res.Timestamps) && c.res != c.tsm.values
//@   loop 1 invariant walking: 0 <= pos && arr(c.cache.values) == arr(cvals) && off(c.cache.values) == off(cvals) && len(c.cache.values) == len(cvals) && tvals != nil && tvals == c.tsm.values && 0 <= c.cache.pos && 0 <= c.tsm.pos && arr(c.res.Timestamps) != arr(tvals.Timestamps) && arr(c.res.Values) != arr(tvals.Timestamps) && arr(c.res.Values) != arr(c.res.Timestamps) && c.res != tvals
//@   loop 1 invariant still_sorted: all(i, 0, len(tvals.Timestamps), all(j, i+1, len(tvals.Timestamps), tvals.Timestamps[i] < tvals.Timestamps[j]))
//@   loop 1 invariant cache_still_sorted: all(i, 0, len(cvals), all(j, i+1, len(cvals), value_ts(cvals[i]) < value_ts(cvals[j])))
//@   loop 1 invariant heads_are_newer_than_the_last_point: pos > 0 ==> (c.cache.pos < len(cvals) ==> value_ts(cvals[c.cache.pos]) > c.res.Timestamps[pos-1]) && (c.tsm.pos < len(tvals.Timestamps) ==> tvals.Timestamps[c.tsm.pos] > c.res.Timestamps[pos-1])

'''.format(c=c)

QHEAD = '''// ---- C02: the InfluxQL cursors (iterator.gen.go) overlay cache on TSM values one point per call ----
// next<T> returns the head that comes first in the direction of travel and leaves BOTH heads strictly beyond the
// returned timestamp (on a tie both sides advance and the cache value is the one returned). Sortedness is carried
// from call to call (ensures still_sorted = the next call's requires).
'''

EOFV = "(0 - 9223372036854775807 - 1)"
SORTED_C = "all(i, 0, len(c.cache.values), all(j, i+1, len(c.cache.values), value_ts(c.cache.values[i]) < value_ts(c.cache.values[j])))"
SORTED_T = "all(i, 0, len(c.tsm.values), all(j, i+1, len(c.tsm.values), c.tsm.values[i].unixnano < c.tsm.values[j].unixnano))"
NOEOF_C = "all(i, 0, len(c.cache.values), value_ts(c.cache.values[i]) > %s)" % EOFV
NOEOF_T = "all(i, 0, len(c.tsm.values), c.tsm.values[i].unixnano > %s)" % EOFV
TSM_HEAD = "0 <= c.tsm.pos && c.tsm.pos < len(c.tsm.values)"

def q(t, up):
    T = t[0].upper() + t[1:]
    c = "%s%sCursor" % (t, "Ascending" if up else "Descending")
    cache_head = "c.cache.pos < len(c.cache.values)" if up else "0 <= c.cache.pos && c.cache.pos < len(c.cache.values)"
    beyond, first, word, word2 = (">", "<=", "newer", "oldest") if up else ("<", ">=", "older", "newest")
    pos_req = "0 <= c.cache.pos" if up else "c.cache.pos < len(c.cache.values)"
    return '''//@ func (*{c}).nextTSM
//@   assumed
//@   modifies *except c.cache c.cache.values[:]
//@   ensures block_is_sorted: {st}
//@   ensures no_eof_timestamps: {nt}
//@   ensures moved_on: old({th}) && {th} ==> c.tsm.values[c.tsm.pos].unixnano {beyond} old(c.tsm.values[c.tsm.pos].unixnano)

//@ func (*{c}).next{T}
//@   props C02
//@   nosafety
//@   requires cache_sorted: {sc}
//@   requires block_sorted: {st}
//@   requires no_eof_timestamps: {nc} && {nt}
//@   requires positions: {pos_req}
//@   ensures exhausted_only_when_both_are: (result0 == {eof}) == old(!({ch}) && !({th}))
//@   ensures {word2}_head_first: result0 != {eof} ==> (old({ch}) ==> result0 {first} old(value_ts(c.cache.values[c.cache.pos]))) && (old({th}) ==> result0 {first} old(c.tsm.values[c.tsm.pos].unixnano))
//@   ensures is_one_of_the_heads: result0 != {eof} ==> (old({ch}) && result0 == old(value_ts(c.cache.values[c.cache.pos]))) || (old({th}) && result0 == old(c.tsm.values[c.tsm.pos].unixnano))
//@   ensures heads_are_{word}_than_the_point: result0 != {eof} ==> (({ch}) ==> value_ts(c.cache.values[c.cache.pos]) {beyond} result0) && (({th}) ==> c.tsm.values[c.tsm.pos].unixnano {beyond} result0)
//@   ensures still_sorted: {sc} && {st} && {nc} && {nt} && {pos_req}

'''.format(c=c, T=T, st=SORTED_T, sc=SORTED_C, nt=NOEOF_T, nc=NOEOF_C, th=TSM_HEAD, ch=cache_head, beyond=beyond,
           first=first, word=word, word2=word2, eof=EOFV, pos_req=pos_req)

def main():
    src = open(SRC).read()
    types = sorted(set(re.findall(r"^type (\w+?)ArrayAscendingCursor struct", src, re.M)))
    block = BEGIN + "\n" + HEAD + "\n"
    for t in types:
        block += asc(t) + desc(t)
    qsrc = open("/repo/tsdb/engine/tsm1/iterator.gen.go").read()
    qtypes = sorted(set(re.findall(r"^type (\w+?)AscendingCursor struct", qsrc, re.M)))
    block += QHEAD + "\n"
    for t in qtypes:
        block += q(t, True) + q(t, False)
    block += END + "\n"
    cur = open(OUT).read()
    if BEGIN in cur:
        cur = cur[:cur.index(BEGIN)] + block + cur[cur.index(END) + len(END):].lstrip("\n")
    else:
        cur = cur.rstrip("\n") + "\n\n" + block
    open(OUT, "w").write(cur)
    print("generated cursor contracts for", types)

if __name__ == "__main__":
    main()
