#!/usr/bin/env python3
"""Generate the C02 overlay contracts of the ten array cursors of tsdb/engine/tsm1/array_cursor.gen.go
(<type>Array{Ascending,Descending}Cursor.Next and the assumed contract of nextTSM), one instance per typed copy of
the generated code. Output: the block between the GENERATED-CURSORS markers of tsdb/engine/tsm1/verif_contracts.go."""
import re

OUT = "/repo/tsdb/engine/tsm1/verif_contracts.go"
SRC = "/repo/tsdb/engine/tsm1/array_cursor.gen.go"
BEGIN = "// ---- GENERATED-CURSORS BEGIN (gen/gen_cursor_contracts.py) ----"
END = "// ---- GENERATED-CURSORS END ----"

HEAD = '''// ---- C02: the array cursors overlay cache on TSM values: one point per timestamp, cache wins a tie ----
// Both inputs are strictly increasing in time (the cache values were deduplicated, a TSM block is sorted and the
// key cursor hands out blocks in time order without overlap). After every emitted point the heads still to be
// read on BOTH sides lie strictly beyond it in the direction of travel. That makes the output strictly monotone -
// in particular on a tie both sides advance, otherwise the stale TSM value of the same timestamp would follow
// (or precede) the cache value.
'''

def desc(t):
    c = "%sArrayDescendingCursor" % t
    return '''//@ func (*{c}).nextTSM
//@   assumed
//@   modifies *except c.cache c.res c.end c.res.Timestamps c.res.Values c.res.Timestamps[:] c.res.Values[:] c.cache.values[:]
//@   ensures positioned_at_the_end: result != nil && result == c.tsm.values && c.tsm.pos == len(result.Timestamps) - 1
//@   ensures block_is_sorted: all(i, 0, len(result.Timestamps), all(j, i+1, len(result.Timestamps), result.Timestamps[i] < result.Timestamps[j]))
//@   ensures block_is_not_the_result_buffer: result != c.res && arr(result.Timestamps) != arr(c.res.Timestamps) && arr(result.Timestamps) != arr(c.res.Values)
//@   ensures older_than_the_block_before: old(len(c.tsm.values.Timestamps)) > 0 ==> all(k, 0, len(result.Timestamps), result.Timestamps[k] < old(c.tsm.values.Timestamps[0]))

//@ func (*{c}).Next
//@   props C02
//@   nosafety
//@   requires cache_sorted: all(i, 0, len(c.cache.values), all(j, i+1, len(c.cache.values), value_ts(c.cache.values[i]) < value_ts(c.cache.values[j])))
//@   requires block_sorted: c.tsm.values != nil && all(i, 0, len(c.tsm.values.Timestamps), all(j, i+1, len(c.tsm.values.Timestamps), c.tsm.values.Timestamps[i] < c.tsm.values.Timestamps[j]))
//@   requires positions: c.cache.pos < len(c.cache.values) && c.tsm.pos < len(c.tsm.values.Timestamps) && c.res != nil
//@   requires own_result_buffer: arr(c.res.Timestamps) != arr(c.tsm.values.Timestamps) && arr(c.res.Values) != arr(c.tsm.values.Timestamps) && arr(c.res.Values) != arr(c.res.Timestamps) && c.res != c.tsm.values
//@   loop 1 invariant walking: 0 <= pos && arr(c.cache.values) == arr(cvals) && off(c.cache.values) == off(cvals) && len(c.cache.values) == len(cvals) && tvals != nil && tvals == c.tsm.values && c.cache.pos < len(cvals) && c.tsm.pos < len(tvals.Timestamps) && arr(c.res.Timestamps) != arr(tvals.Timestamps) && arr(c.res.Values) != arr(tvals.Timestamps) && arr(c.res.Values) != arr(c.res.Timestamps) && c.res != tvals
//@   loop 1 invariant still_sorted: all(i, 0, len(tvals.Timestamps), all(j, i+1, len(tvals.Timestamps), tvals.Timestamps[i] < tvals.Timestamps[j]))
//@   loop 1 invariant cache_still_sorted: all(i, 0, len(cvals), all(j, i+1, len(cvals), value_ts(cvals[i]) < value_ts(cvals[j])))
//@   loop 1 invariant heads_are_older_than_the_last_point: pos > 0 ==> (c.cache.pos >= 0 ==> value_ts(cvals[c.cache.pos]) < c.res.Timestamps[pos-1]) && (c.tsm.pos >= 0 ==> tvals.Timestamps[c.tsm.pos] < c.res.Timestamps[pos-1])

'''.format(c=c)

def asc(t):
    c = "%sArrayAscendingCursor" % t
    return '''//@ func (*{c}).nextTSM
//@   assumed
//@   modifies *except c.cache c.res c.end c.res.Timestamps c.res.Values c.res.Timestamps[:] c.res.Values[:] c.cache.values[:]
//@   ensures positioned_at_the_start: result != nil && result == c.tsm.values && c.tsm.pos == 0
//@   ensures block_is_sorted: all(i, 0, len(result.Timestamps), all(j, i+1, len(result.Timestamps), result.Timestamps[i] < result.Timestamps[j]))
//@   ensures block_is_not_the_result_buffer: result != c.res && arr(result.Timestamps) != arr(c.res.Timestamps) && arr(result.Timestamps) != arr(c.res.Values)
//@   ensures newer_than_the_block_before: old(len(c.tsm.values.Timestamps)) > 0 ==> all(k, 0, len(result.Timestamps), result.Timestamps[k] > old(c.tsm.values.Timestamps[len(c.tsm.values.Timestamps)-1]))

//@ func (*{c}).Next
//@   props C02
//@   nosafety
//@   requires cache_sorted: all(i, 0, len(c.cache.values), all(j, i+1, len(c.cache.values), value_ts(c.cache.values[i]) < value_ts(c.cache.values[j])))
//@   requires block_sorted: c.tsm.values != nil && all(i, 0, len(c.tsm.values.Timestamps), all(j, i+1, len(c.tsm.values.Timestamps), c.tsm.values.Timestamps[i] < c.tsm.values.Timestamps[j]))
//@   requires positions: 0 <= c.cache.pos && 0 <= c.tsm.pos && c.res != nil
//@   requires own_result_buffer: arr(c.res.Timestamps) != arr(c.tsm.values.Timestamps) && arr(c.res.Values) != arr(c.tsm.values.Timestamps) && arr(c.res.Values) != arr(c.res.Timestamps) && c.res != c.tsm.values
//@   loop 1 invariant walking: 0 <= pos && arr(c.cache.values) == arr(cvals) && off(c.cache.values) == off(cvals) && len(c.cache.values) == len(cvals) && tvals != nil && tvals == c.tsm.values && 0 <= c.cache.pos && 0 <= c.tsm.pos && arr(c.res.Timestamps) != arr(tvals.Timestamps) && arr(c.res.Values) != arr(tvals.Timestamps) && arr(c.res.Values) != arr(c.res.Timestamps) && c.res != tvals
//@   loop 1 invariant still_sorted: all(i, 0, len(tvals.Timestamps), all(j, i+1, len(tvals.Timestamps), tvals.Timestamps[i] < tvals.Timestamps[j]))
//@   loop 1 invariant cache_still_sorted: all(i, 0, len(cvals), all(j, i+1, len(cvals), value_ts(cvals[i]) < value_ts(cvals[j])))
//@   loop 1 invariant heads_are_newer_than_the_last_point: pos > 0 ==> (c.cache.pos < len(cvals) ==> value_ts(cvals[c.cache.pos]) > c.res.Timestamps[pos-1]) && (c.tsm.pos < len(tvals.Timestamps) ==> tvals.Timestamps[c.tsm.pos] > c.res.Timestamps[pos-1])

'''.format(c=c)

def main():
    src = open(SRC).read()
    types = sorted(set(re.findall(r"^type (\w+?)ArrayAscendingCursor struct", src, re.M)))
    block = BEGIN + "\n" + HEAD + "\n"
    for t in types:
        block += asc(t) + desc(t)
    block += END + "\n"
    cur = open(OUT).read()
    if BEGIN in cur:
        cur = cur[:cur.index(BEGIN)] + block + cur[cur.index(END) + len(END):].lstrip("\n")
    else:
        cur = cur.rstrip("\n") + "\n\n" + block
    open(OUT, "w").write(cur)
    print("generated cursor contracts for", types)

if __name__ == "__main__":
    main()
