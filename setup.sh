#!/bin/sh
# Builds the govc verifier offline from files on disk.
set -e
export GOFLAGS=-mod=mod GOPROXY=off GOSUMDB=off GOTOOLCHAIN=local
cd /verif/govc
go build -o /verif/bin/govc ./cmd/govc
