#!/bin/bash
# usage: selftest_seeds.sh [id ...] : the must-fail corpus. Applies every seeded change of /verif/seeded (or the named
# ones) to /repo in turn, runs the quick check of its property, reverts it, and records whether a VIOLATION line was
# printed. Takes about 1.5 min per seed. Result: /verif/seeded/SELFTEST.txt (one line per seed) and exit 1 if any seed
# went undetected.
cd /verif/seeded || exit 2
ids="$@"; [ -z "$ids" ] && ids=$(ls -d C*/ | tr -d /)
rc=0; out=/verif/seeded/SELFTEST.txt; : > $out.new
for id in $ids; do
  prop=$(python3 -c "import json;print(json.load(open('/verif/seeded/$id/meta.json'))['property'])")
  res=$(/verif/seedtest.sh $prop /verif/seeded/$id/patch.diff 2>&1)
  if echo "$res" | grep -q '^VIOLATION property='"$prop"; then
    line="$id $prop DETECTED $(echo "$res" | grep '^VIOLATION' | head -1 | sed 's/.*replay=//' | xargs basename 2>/dev/null | cut -c1-120)"
  else
    line="$id $prop MISSED"; rc=1
  fi
  echo "$line"; echo "$line" >> $out.new
done
[ $# -eq 0 ] && mv $out.new $out || { cat $out.new >> $out; rm -f $out.new; }
exit $rc
