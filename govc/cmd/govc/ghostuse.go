package main

import "go/ast"

// mentionsGhost: the expression names one of the contract's own ghost variables.
func mentionsGhost(e ast.Expr, fc *funcContract) bool {
	if fc == nil || len(fc.ghosts) == 0 {
		return false
	}
	names := map[string]bool{}
	for _, g := range fc.ghosts {
		names[g.name] = true
	}
	found := false
	ast.Inspect(e, func(n ast.Node) bool {
		if id, ok := n.(*ast.Ident); ok && names[id.Name] {
			found = true
		}
		return !found
	})
	return found
}

// noSafety: run-time-panic obligations are switched off for this frame: its own contract says nosafety, or the
// function under verification does and this frame is code inlined into it.
func (v *vc) noSafety(fr *frame) bool {
	if fr != nil && fr.fc != nil && fr.fc.nosafety {
		return true
	}
	return v.fc != nil && v.fc.nosafety
}
