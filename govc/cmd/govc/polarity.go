package main

import "go/ast"

// evalGoal evaluates a contract clause that is to be PROVED, evalAssume one that is ASSUMED.
// The polarity lets quantifier rewritings choose a sound direction (see rebase.go).
func (se *specEnv) evalGoal(e ast.Expr) string {
	save := se.pol
	se.pol = 1
	t := se.evalBool(e)
	se.pol = save
	return t
}

func (se *specEnv) evalAssume(e ast.Expr) string {
	save := se.pol
	se.pol = -1
	t := se.evalBool(e)
	se.pol = save
	return t
}
