package main

import (
	"fmt"
	"go/ast"
	"go/types"
	"strings"

	"golang.org/x/tools/go/ssa"
)

func calleeName(c *ssa.CallCommon) string {
	if c.IsInvoke() {
		rt := c.Value.Type()
		return fmt.Sprintf("(%s).%s", types.TypeString(rt, nil), c.Method.Name())
	}
	switch f := c.Value.(type) {
	case *ssa.Function:
		return f.String()
	case *ssa.Builtin:
		return "builtin." + f.Name()
	case *ssa.MakeClosure:
		return f.Fn.(*ssa.Function).String()
	}
	return "dynamic"
}

// short callee name used in site ids: Method or Func name without package path
func shortCallee(c *ssa.CallCommon) string {
	if c.IsInvoke() {
		return c.Method.Name()
	}
	switch f := c.Value.(type) {
	case *ssa.Function:
		n := f.Name()
		if recv := f.Signature.Recv(); recv != nil {
			t := recv.Type()
			if p, ok := t.(*types.Pointer); ok {
				t = p.Elem()
			}
			if nt, ok := t.(*types.Named); ok {
				return nt.Obj().Name() + "." + n
			}
		}
		if f.Pkg != nil && f.Parent() == nil {
			return f.Pkg.Pkg.Name() + "." + n
		}
		return n
	case *ssa.Builtin:
		return f.Name()
	case *ssa.MakeClosure:
		return f.Fn.(*ssa.Function).Name()
	}
	return "dynamic"
}

// callSite returns "<short callee>#k": k-th call of that callee in block-index order of the function.
func (v *vc) callSite(instr ssa.Instruction) string {
	fn := instr.Parent()
	m := v.eng.callSites(fn)
	return m[instr]
}

func (v *vc) setResult(fr *frame, st *state, res *ssa.Call, vals []string) {
	if res == nil {
		return
	}
	if tup, ok := res.Type().(*types.Tuple); ok {
		_ = tup
		fr.setTuple(res, vals)
		return
	}
	if len(vals) > 0 {
		fr.vals[res] = vals[0]
	}
}

func resultTypes(sig *types.Signature) []types.Type {
	var ts []types.Type
	for i := 0; i < sig.Results().Len(); i++ {
		ts = append(ts, sig.Results().At(i).Type())
	}
	return ts
}

func (v *vc) havocResults(st *state, sig *types.Signature, hint string) []string {
	var out []string
	for i, t := range resultTypes(sig) {
		out = append(out, v.havoc(fmt.Sprintf("%s.r%d", hint, i), t, st))
	}
	return out
}

func (v *vc) execCall(fr *frame, st *state, instr ssa.Instruction, c *ssa.CallCommon, res *ssa.Call) {
	name := calleeName(c)
	site := v.callSite(instr)
	v.curBlock = instr.Block()
	v.ghostUpdates(fr, st, "before "+site)
	defer func() {
		// "callresult" / "callresultK" name the call's results in an "at after <site>" ghost update
		v.lastCall = nil
		if res != nil {
			if tup := fr.tuple(res); tup != nil {
				v.lastCall = tup
			} else if t, ok := fr.vals[res]; ok {
				v.lastCall = []string{t}
			}
			v.lastCallSig = c.Signature()
		}
		v.curBlock = instr.Block()
		v.ghostUpdates(fr, st, "after "+site)
		v.lastCall = nil
	}()
	_, isBuiltin := c.Value.(*ssa.Builtin)
	args := make([]string, len(c.Args))
	if !isBuiltin {
		for i, a := range c.Args {
			if _, isAddr := fr.addrs[a]; isAddr {
				if _, has := fr.vals[a]; !has {
					args[i] = "interior_ptr"
					continue
				}
			}
			args[i] = v.val(fr, st, a)
		}
	}
	if fr.top && fr.fc != nil {
		for _, cl := range fr.fc.callRequires[site] {
			se := v.newSpecEnv(fr, st, instr.Block())
			if !isBuiltin {
				// callargK: the K-th operand of the call as go/ssa lists them (the receiver of a static
				// method call is callarg0; an interface call's receiver is not among them)
				for i, a := range c.Args {
					se.names[fmt.Sprintf("callarg%d", i)] = tv{term: args[i], typ: a.Type()}
				}
			}
			v.oblige(st, "typestate", cl.label, site, se.evalGoal(cl.expr), cl.props)
		}
	}
	if b, ok := c.Value.(*ssa.Builtin); ok {
		v.builtin(fr, st, instr, b, c, res)
		return
	}
	sig := c.Signature()
	var callee *ssa.Function
	var clo *ssa.MakeClosure
	if c.IsInvoke() {
		recv := v.val(fr, st, c.Value)
		if !v.noSafety(fr) {
			v.oblige(st, "safety", "nil", site, fmt.Sprintf("(not (= (i_type %s) 0))", recv), nil)
		}
		if v.intrinsic(fr, st, instr, name, c, append([]string{recv}, args...), res) {
			return
		}
		if m := v.devirt(c); m != nil {
			// the receiver's dynamic type is fixed by the code: dispatch statically
			callee = m
			name = m.String()
			args = append([]string{fmt.Sprintf("(i_val %s)", recv)}, args...)
		}
	}
	if c.IsInvoke() && callee == nil {
		recv := v.val(fr, st, c.Value)
		if fc := v.eng.contracts.funcs["."+name]; fc != nil {
			v.contractCall(fr, st, instr, fc, nil, c, append([]string{recv}, args...), res, site)
			return
		}
		// methods of unnamed interface types (struct fields such as PointsWriter.HintedHandoff) are keyed
		// "<package of the function under contract>.(iface).<Method>"
		if _, named := c.Value.Type().(*types.Named); !named && v.fc != nil {
			if fc := v.eng.contracts.funcs[v.fc.pkgPath+".(iface)."+c.Method.Name()]; fc != nil {
				v.contractCall(fr, st, instr, fc, nil, c, append([]string{recv}, args...), res, site)
				return
			}
		}
		v.note("call of interface method %s without contract: everything havocked", name)
		v.havocAll(st)
		v.setResult(fr, st, res, v.havocResults(st, sig, shortCallee(c)))
		return
	}
	if !c.IsInvoke() {
		switch f := c.Value.(type) {
		case *ssa.Function:
			callee = f
		case *ssa.MakeClosure:
			callee = f.Fn.(*ssa.Function)
			clo = f
		default:
			if mc := fr.closures()[c.Value]; mc != nil {
				callee = mc.Fn.(*ssa.Function)
				clo = mc
			}
		}
	}
	if callee == nil && v.fc != nil && v.fc.dynPure {
		v.trusted["assumed in contract of "+v.fnName+": calls through function values do not write the modelled state"] = true
		v.setResult(fr, st, res, v.havocResults(st, sig, "dyn"))
		return
	}
	if callee == nil {
		v.note("dynamic call in %s: everything havocked", fr.fn.Name())
		v.havocAll(st)
		v.setResult(fr, st, res, v.havocResults(st, sig, "dyn"))
		return
	}
	if v.intrinsic(fr, st, instr, name, c, args, res) {
		return
	}
	v.checkCalleeHolds(fr, st, instr, callee, c, args, site)
	v.checkLookedUpReceiver(fr, st, callee, c, args, site)
	v.checkNoRelock(fr, st, callee, c, site)
	if fc := v.eng.contractFor(callee); fc != nil && !fc.inline {
		v.contractCall(fr, st, instr, fc, callee, c, args, res, site)
		return
	}
	if v.canInline(callee) {
		v.inlineCall(fr, st, callee, clo, c, args, res)
		return
	}
	if v.eng.isPure(name) {
		v.trusted["pure(no effect on modelled state): "+name] = true
		v.setResult(fr, st, res, v.havocResults(st, sig, shortCallee(c)))
		return
	}
	v.note("call of %s without contract: everything havocked", name)
	v.havocAll(st)
	v.setResult(fr, st, res, v.havocResults(st, sig, shortCallee(c)))
}

func (v *vc) canInline(f *ssa.Function) bool {
	if f.Blocks == nil || v.depth >= 4 {
		return false
	}
	if v.inlineStack[f] {
		return false
	}
	fi := v.eng.fnInfo(f)
	if len(fi.loops) > 0 {
		return false
	}
	n := 0
	for _, b := range f.Blocks {
		n += len(b.Instrs)
	}
	if fc := v.eng.contractFor(f); fc != nil && fc.inline {
		return true
	}
	return n <= 80
}

func (v *vc) inlineCall(fr *frame, st *state, callee *ssa.Function, clo *ssa.MakeClosure, c *ssa.CallCommon, args []string, res *ssa.Call) {
	v.ctr++
	nf := &frame{fn: callee, vals: map[ssa.Value]string{}, addrs: map[ssa.Value]*addr{}, prefix: fmt.Sprintf("%sinl%d.", fr.prefix, v.ctr), parent: fr}
	if nf.fc == nil && (v.fc != nil && v.fc.nosafety || fr.fc != nil && fr.fc.nosafety) {
		// a nosafety contract covers the code inlined into it as well
		nf.fc = &funcContract{nosafety: true, loops: map[int]*loopSpec{}, callRequires: map[string][]*clause{}, expectFail: map[string]bool{}}
	}
	for i, p := range callee.Params {
		if i < len(args) {
			nf.vals[p] = args[i]
		}
		off := 0
		if c.IsInvoke() {
			off = 1 // a devirtualised interface call: Params[0] is the receiver, which c.Args does not hold
		}
		if i-off >= 0 && i-off < len(c.Args) {
			// interior pointers (address of a nested struct field / local) are passed as addresses
			if a, ok := fr.addrs[c.Args[i-off]]; ok {
				if _, isVal := fr.vals[c.Args[i-off]]; !isVal || args[i] == "interior_ptr" {
					nf.addrs[p] = a
					delete(nf.vals, p)
				}
			}
		}
	}
	if clo != nil {
		// find the frame that created the closure
		cf := fr
		for cf != nil && cf.fn != clo.Parent() {
			cf = cf.parent
		}
		if cf == nil {
			cf = fr
		}
		for i, fv := range callee.FreeVars {
			b := clo.Bindings[i]
			if a, ok := cf.addrs[b]; ok {
				nf.addrs[fv] = a
			}
			if t, ok := cf.vals[b]; ok {
				nf.vals[fv] = t
			} else if _, isAddr := cf.addrs[b]; !isAddr {
				nf.vals[fv] = v.val(cf, st, b)
			}
		}
	}
	v.inlined[callee.String()] = true
	v.depth++
	v.inlineStack[callee] = true
	saveDefers := st.defers
	st.defers = nil
	rets := v.runBody(nf, st)
	delete(v.inlineStack, callee)
	v.depth--
	if len(rets) == 0 {
		// callee never returns (panics): caller path ends; model as unreachable continuation
		st.reach = "false"
		v.setResult(fr, st, res, v.havocResults(st, c.Signature(), "noret"))
		return
	}
	var edges []edge
	for _, r := range rets {
		edges = append(edges, edge{cond: r.st.reach, st: r.st})
	}
	m := v.merge(edges)
	m.defers = saveDefers
	nres := len(rets[0].vals)
	vals := make([]string, nres)
	rts := resultTypes(callee.Signature)
	for i := 0; i < nres; i++ {
		expr := rets[len(rets)-1].vals[i]
		for k := len(rets) - 2; k >= 0; k-- {
			expr = ite(rets[k].st.reach, rets[k].vals[i], expr)
		}
		vals[i] = v.define("inl.r", v.sc.sortOf(rts[i]), expr)
	}
	*st = *m
	v.setResult(fr, st, res, vals)
}

// ---------- contract calls ----------

func (v *vc) calleeEnv(fr *frame, st *state, fc *funcContract, callee *ssa.Function, c *ssa.CallCommon, args []string) *specEnv {
	se := &specEnv{v: v, cur: st, pre: st, names: map[string]tv{}, pkg: nil}
	if callee != nil {
		se.pkg = callee.Pkg
		if se.pkg == nil && callee.Parent() != nil {
			se.pkg = callee.Parent().Pkg
		}
		for i, p := range callee.Params {
			if i < len(args) {
				se.names[p.Name()] = tv{term: args[i], typ: p.Type()}
			}
		}
		if len(callee.Params) == 0 && len(args) > 0 {
			// function without a body (loaded from export data): bind by signature; the receiver is also "self"
			sig := callee.Signature
			k := 0
			if r := sig.Recv(); r != nil {
				se.names["self"] = tv{term: args[0], typ: r.Type()}
				if r.Name() != "" && r.Name() != "_" {
					se.names[r.Name()] = tv{term: args[0], typ: r.Type()}
				}
				k = 1
			}
			for i := 0; i < sig.Params().Len() && k+i < len(args); i++ {
				p := sig.Params().At(i)
				if p.Name() != "" && p.Name() != "_" {
					se.names[p.Name()] = tv{term: args[k+i], typ: p.Type()}
				}
				se.names[fmt.Sprintf("p%d", i)] = tv{term: args[k+i], typ: p.Type()}
			}
		}
		// free variables of closures are visible by name
		if mc, ok := c.Value.(*ssa.MakeClosure); ok {
			for i, fv := range callee.FreeVars {
				b := mc.Bindings[i]
				if t, ok := fr.vals[b]; ok {
					// pointer to captured variable: expose the variable's value
					if pt, ok := fv.Type().Underlying().(*types.Pointer); ok && !isStruct(pt.Elem()) {
						a := &addr{kind: aCell, base: t, typ: pt.Elem()}
						se.names[fv.Name()] = tv{term: v.load(st, a), typ: pt.Elem()}
						continue
					}
					se.names[fv.Name()] = tv{term: t, typ: fv.Type()}
				}
			}
		}
		se.sig = callee.Signature
	} else {
		// interface method: receiver is "self"
		sig := c.Signature()
		se.sig = sig
		se.names["self"] = tv{term: args[0], typ: c.Value.Type()}
		for i := 0; i < sig.Params().Len(); i++ {
			p := sig.Params().At(i)
			nm := p.Name()
			if nm == "" || nm == "_" {
				nm = fmt.Sprintf("p%d", i)
			}
			se.names[nm] = tv{term: args[i+1], typ: p.Type()}
			se.names[fmt.Sprintf("p%d", i)] = tv{term: args[i+1], typ: p.Type()}
		}
		if nt, ok := c.Value.Type().(*types.Named); ok && nt.Obj().Pkg() != nil {
			se.pkg = v.eng.prog.Package(nt.Obj().Pkg())
		}
	}
	if se.pkg == nil {
		se.pkg = fr.fn.Pkg
	}
	return se
}

func (v *vc) contractCall(fr *frame, st *state, instr ssa.Instruction, fc *funcContract, callee *ssa.Function, c *ssa.CallCommon, args []string, res *ssa.Call, site string) {
	key := fc.pkgPath + "." + fc.name
	if fc.assumed {
		v.trusted["assumed contract: "+key] = true
	} else {
		v.assumedContracts[key] = true
	}
	pre := st.clone()
	se := v.calleeEnv(fr, st, fc, callee, c, args)
	se.pre = pre
	se.cur = pre
	assumeReq := fr.top && fr.fc != nil && fr.fc.callAssumeReq[site] || v.fc != nil && v.fc.assumeAllCalleeReq
	for _, r := range fc.requires {
		if v.fc != nil && v.fc.sweep {
			break // the lock sweep claims nothing about the callee's functional preconditions
		}
		if assumeReq {
			v.trusted[fmt.Sprintf("assumption: preconditions of %s assumed at %s (invariant of the callee's receiver, not tracked by the caller)", key, site)] = true
			v.fact(st, se.evalAssume(r.expr))
			continue
		}
		t := se.evalGoal(r.expr)
		v.oblige(st, "requires", r.label, site, t, nil)
	}
	// modifies
	if !fc.hasMod {
		v.havocAll(st)
	} else {
		for _, m := range fc.modifies {
			v.applyModifies(se, st, pre, m)
		}
		// a closure handed to the callee may be called by it: the variables that closure captures and writes
		// may change, whatever the callee's own frame says
		for _, a := range c.Args {
			mc, _ := a.(*ssa.MakeClosure)
			if mc == nil {
				mc = fr.closures()[a]
			}
			if mc == nil {
				continue
			}
			cfn, ok := mc.Fn.(*ssa.Function)
			if !ok {
				continue
			}
			for i, b := range mc.Bindings {
				if i >= len(cfn.FreeVars) || !writesThrough(cfn.FreeVars[i], map[ssa.Value]bool{}) {
					continue
				}
				if ad := v.addrOf(fr, st, b); ad != nil && !isStruct(ad.typ) {
					v.store(st, ad, v.havoc("captured", ad.typ, st))
				} else {
					v.havocAll(st)
				}
			}
		}
		// the callee may allocate whatever its frame says
		nt := v.fresh("top")
		v.decl(nt, "Int")
		v.fact(st, fmt.Sprintf("(>= %s %s)", nt, st.top))
		st.top = nt
	}
	sig := c.Signature()
	results := v.havocResults(st, sig, shortCallee(c))
	se.cur = st
	se.setResults(sig, results)
	for _, e := range fc.ensures {
		if mentionsGhost(e.expr, fc) {
			continue // about the callee's own ghost state: nothing the caller can use
		}
		// a clause about a local of the callee says nothing the caller can use either
		se.outOfScopeOK, se.outOfScope, se.scopeFn = true, false, callee
		nerr := len(v.errs)
		t := se.evalAssume(e.expr)
		se.outOfScopeOK, se.scopeFn = false, nil
		if se.outOfScope {
			v.errs = v.errs[:nerr]
			continue
		}
		v.fact(st, t)
	}
	if fr.top && len(fc.ensures) > 0 {
		v.coverOnce(st, "after-"+site)
	}
	v.setResult(fr, st, res, results)
}

// applyModifies havocs the location(s) named by a modifies entry.
func (v *vc) applyModifies(se *specEnv, st *state, pre *state, m string) {
	if m == "*" {
		v.havocAll(st)
		return
	}
	if strings.HasPrefix(m, "*except ") {
		// everything may change except the listed whole-type heaps (e.g. "*except store.all")
		old := st.clone()
		v.havocAll(st)
		for _, ent := range strings.Fields(strings.TrimPrefix(m, "*except ")) {
			e, err := parseSpecExpr(ent)
			if err != nil {
				v.errs = append(v.errs, err.Error())
				continue
			}
			for _, l := range se.locations(e, pre) {
				sort, known := v.heapSort[l.heap]
				if !known {
					continue
				}
				if l.ref != "" {
					// a single object field or a slice's backing row keeps its value
					cur := v.getHeap(st, l.heap)
					v.setHeap(st, l.heap, sort, sto(cur, l.ref, sel(v.getHeap(old, l.heap), l.ref)))
					continue
				}
				st.heaps[l.heap] = v.getHeap(old, l.heap)
			}
		}
		return
	}
	if strings.HasPrefix(m, "ghost ") {
		g := strings.TrimSpace(m[6:])
		if sort, ok := v.ghostSorts[g]; ok {
			n := v.fresh("ghost " + g)
			v.decl(n, sort)
			st.ghost[g] = n
		}
		return
	}
	e, err := parseSpecExpr(m)
	if err != nil {
		v.errs = append(v.errs, err.Error())
		v.havocAll(st)
		return
	}
	locs := se.locations(e, pre)
	if locs == nil {
		v.errs = append(v.errs, fmt.Sprintf("modifies entry %q not understood", m))
		v.havocAll(st)
		return
	}
	for _, l := range locs {
		v.havocLoc(st, l)
	}
}

// loc: a set of heap locations: one heap, either everything (ref == "") or one index.
type loc struct {
	heap string
	ref  string
	typ  types.Type // value type at the location (for type invariants)
}

func (v *vc) havocLoc(st *state, l loc) {
	sort := v.heapSort[l.heap]
	if l.ref == "" {
		n := v.fresh(l.heap)
		v.decl(n, sort)
		v.heapAxiom(n, l.heap, "") // the callee may allocate: no bound on the references it stores
		st.heaps[l.heap] = n
		return
	}
	// element sort of the heap
	var esort string
	if strings.HasPrefix(l.heap, "A ") {
		esort = strings.TrimSuffix(strings.TrimPrefix(sort, "(Array Int "), ")")
	} else {
		esort = strings.TrimSuffix(strings.TrimPrefix(sort, "(Array Int "), ")")
	}
	n := v.fresh("hv")
	v.decl(n, esort)
	if l.typ != nil && !strings.HasPrefix(l.heap, "A ") {
		if inv := v.sc.typeInv(n, l.typ); inv != "" {
			v.fact(st, inv)
		}
		v.refFacts(st, n, l.typ)
	}
	v.setHeap(st, l.heap, sort, sto(v.getHeap(st, l.heap), l.ref, n))
}

// ---------- ghost updates ----------

func (v *vc) ghostUpdates(fr *frame, st *state, where string) {
	// "at <where>: ghost ..." applies to the function under contract; "at <where> in <fn>: ghost ..."
	// applies to the body of an inlined callee / closure named <fn>.
	if v.fc == nil {
		return
	}
	for _, g := range v.fc.ghostAt {
		gw := g.where
		if k := strings.Index(gw, "#*"); k >= 0 && k+2 <= len(gw) {
			// "send#*" matches every ordinal of that site kind
			if h := strings.Index(where, "#"); h >= 0 && where[:h] == gw[:k] {
				rest := where[h+1:]
				j := 0
				for j < len(rest) && rest[j] >= '0' && rest[j] <= '9' {
					j++
				}
				gw = where[:h+1] + rest[:j] + gw[k+2:]
			}
		}
		if fr.top {
			if gw != where {
				continue
			}
		} else if gw != where+" in "+fr.fn.Name() {
			continue
		}
		se := v.newSpecEnv(fr, st, nil)
		for n, t := range v.hookNames {
			se.names[n] = t
		}
		for i, t := range v.lastCall {
			rt := v.lastCallSig.Results().At(i).Type()
			se.names[fmt.Sprintf("callresult%d", i)] = tv{term: t, typ: rt}
			if i == 0 {
				se.names["callresult"] = tv{term: t, typ: rt}
			}
		}
		se.block = v.curBlock
		if g.name == "@assume" {
			v.fact(st, se.evalAssume(g.expr))
			v.trusted["assumed in contract of "+v.fnName+" at "+g.where+": "+strings.TrimSpace(g.text)] = true
			continue
		}
		if k := strings.Index(g.name, "["); k > 0 && strings.HasSuffix(g.name, "]") {
			// ghost map update: name[index] = expr
			base := g.name[:k]
			ie, err := parseSpecExpr(g.name[k+1 : len(g.name)-1])
			if err != nil {
				v.errs = append(v.errs, err.Error())
				continue
			}
			idx := se.evalInt(ie)
			val := se.evalInt(g.expr)
			st.ghost[base] = v.define("ghost "+base, v.ghostSorts[base], sto(st.ghost[base], idx, val))
			continue
		}
		sort := v.ghostSorts[g.name]
		var t string
		if sort == "Bool" {
			t = se.evalBool(g.expr)
		} else {
			t = se.evalInt(g.expr)
		}
		st.ghost[g.name] = v.define("ghost "+g.name, sort, t)
	}
}

// ---------- write sets (for loop havoc) ----------

func (v *vc) instrMods(fr *frame, in ssa.Instruction, m *modSet, depth int) {
	switch x := in.(type) {
	case *ssa.Store:
		v.ptrMods(fr, x.Addr, m)
	case *ssa.Next:
		if rng, ok := x.Iter.(*ssa.Range); ok {
			if _, isMap := rng.X.Type().Underlying().(*types.Map); isMap {
				m.locals[v.rangeSeenKey(fr, rng)] = true
			}
		}
	case *ssa.MapUpdate:
		mt := x.Map.Type().Underlying().(*types.Map)
		a, b, c := v.mapHeaps(mt)
		m.heaps[a], m.heaps[b], m.heaps[c] = true, true, true
	case *ssa.Alloc:
		m.allocs = true
		et := x.Type().Underlying().(*types.Pointer).Elem()
		if isStruct(et) && !x.Heap && !ptrEscapes(x, map[ssa.Value]bool{}) {
			k := v.localKey(fr, x)
			m.locals[k] = true
			m.localTypes[k] = et
		} else if isStruct(et) {
			v.structMods(et, m)
		} else if arr, ok := et.Underlying().(*types.Array); ok {
			if isStruct(arr.Elem()) {
				v.structMods(arr.Elem(), m)
			} else {
				h, _ := v.elemHeap(arr.Elem())
				m.heaps[h] = true
			}
		} else if x.Heap {
			h, _ := v.cellHeap(et)
			m.heaps[h] = true
		} else {
			k := v.localKey(fr, x)
			m.locals[k] = true
			m.localTypes[k] = et
		}
	case *ssa.MakeSlice:
		m.allocs = true
		et := x.Type().Underlying().(*types.Slice).Elem()
		if isStruct(et) {
			v.structMods(et, m)
		} else {
			h, _ := v.elemHeap(et)
			m.heaps[h] = true
		}
	case *ssa.MakeMap:
		m.allocs = true
		mt := x.Type().Underlying().(*types.Map)
		_, b, c := v.mapHeaps(mt)
		m.heaps[b], m.heaps[c] = true, true
	case *ssa.MakeInterface:
		switch x.X.Type().Underlying().(type) {
		case *types.Pointer, *types.Map, *types.Chan, *types.Signature:
		default:
			m.allocs = true
			if isStruct(x.X.Type()) {
				v.structMods(x.X.Type(), m)
			} else if _, isArr := x.X.Type().Underlying().(*types.Array); !isArr {
				h, _ := v.cellHeap(x.X.Type())
				m.heaps[h] = true
			}
		}
	case *ssa.MakeClosure, *ssa.MakeChan:
		m.allocs = true
	case *ssa.Convert:
		if isSlice(x.Type()) && isString(x.X.Type()) {
			m.allocs = true
			h, _ := v.elemHeap(x.Type().Underlying().(*types.Slice).Elem())
			m.heaps[h] = true
		}
	case *ssa.Call:
		v.callMods(fr, x.Common(), m, depth)
	case *ssa.Defer:
		v.callMods(fr, x.Common(), m, depth)
	case *ssa.RunDefers:
		// defers registered anywhere in the function may run here
		for _, b := range in.Parent().Blocks {
			for _, i2 := range b.Instrs {
				if d, ok := i2.(*ssa.Defer); ok {
					v.callMods(fr, d.Common(), m, depth)
				}
			}
		}
	}
}

func (v *vc) structMods(t types.Type, m *modSet) {
	s := t.Underlying().(*types.Struct)
	for i := 0; i < s.NumFields(); i++ {
		h, _ := v.fieldHeap(t, i)
		m.heaps[h] = true
	}
}

func (v *vc) ptrMods(fr *frame, p ssa.Value, m *modSet) {
	switch x := p.(type) {
	case *ssa.FieldAddr:
		stt := x.X.Type().Underlying().(*types.Pointer).Elem()
		// nested: root may be a local or another field
		if _, isFA := x.X.(*ssa.FieldAddr); isFA {
			v.ptrMods(fr, x.X, m)
			return
		}
		if _, isIA := x.X.(*ssa.IndexAddr); isIA {
			if !isStruct(stt) {
				v.ptrMods(fr, x.X, m)
				return
			}
		}
		if a, ok := x.X.(*ssa.Alloc); ok && !a.Heap && (!isStruct(stt) || !ptrEscapes(a, map[ssa.Value]bool{})) {
			v.ptrMods(fr, x.X, m)
			return
		}
		h, _ := v.fieldHeap(stt, x.Field)
		m.heaps[h] = true
	case *ssa.IndexAddr:
		switch xt := x.X.Type().Underlying().(type) {
		case *types.Slice:
			if isStruct(xt.Elem()) {
				v.structMods(xt.Elem(), m)
			} else {
				h, _ := v.elemHeap(xt.Elem())
				m.heaps[h] = true
			}
		case *types.Pointer:
			arr := xt.Elem().Underlying().(*types.Array)
			if _, isFA := x.X.(*ssa.FieldAddr); isFA {
				v.ptrMods(fr, x.X, m)
				return
			}
			if isStruct(arr.Elem()) {
				v.structMods(arr.Elem(), m)
			} else {
				h, _ := v.elemHeap(arr.Elem())
				m.heaps[h] = true
			}
		}
	case *ssa.Alloc:
		et := x.Type().Underlying().(*types.Pointer).Elem()
		if isStruct(et) && !x.Heap && !ptrEscapes(x, map[ssa.Value]bool{}) {
			k := v.localKey(fr, x)
			m.locals[k] = true
			m.localTypes[k] = et
		} else if isStruct(et) {
			v.structMods(et, m)
		} else if arr, ok := et.Underlying().(*types.Array); ok {
			if isStruct(arr.Elem()) {
				v.structMods(arr.Elem(), m)
			} else {
				h, _ := v.elemHeap(arr.Elem())
				m.heaps[h] = true
			}
		} else if x.Heap {
			h, _ := v.cellHeap(et)
			m.heaps[h] = true
		} else {
			k := v.localKey(fr, x)
			m.locals[k] = true
			m.localTypes[k] = et
		}
	case *ssa.Global:
		et := x.Type().Underlying().(*types.Pointer).Elem()
		h, _ := v.globalHeap(x.String(), et)
		m.heaps[h] = true
	default:
		pt, ok := p.Type().Underlying().(*types.Pointer)
		if !ok {
			m.all = true
			return
		}
		et := pt.Elem()
		if isStruct(et) {
			v.structMods(et, m)
		} else if arr, ok := et.Underlying().(*types.Array); ok {
			if isStruct(arr.Elem()) {
				v.structMods(arr.Elem(), m)
			} else {
				h, _ := v.elemHeap(arr.Elem())
				m.heaps[h] = true
			}
		} else {
			h, _ := v.cellHeap(et)
			m.heaps[h] = true
		}
	}
}

func (v *vc) callMods(fr *frame, c *ssa.CallCommon, m *modSet, depth int) {
	name := calleeName(c)
	if b, ok := c.Value.(*ssa.Builtin); ok {
		switch b.Name() {
		case "append":
			m.allocs = true
			et := c.Args[0].Type().Underlying().(*types.Slice).Elem()
			if isStruct(et) {
				v.structMods(et, m)
			} else {
				h, _ := v.elemHeap(et)
				m.heaps[h] = true
			}
		case "copy":
			et := c.Args[0].Type().Underlying().(*types.Slice).Elem()
			if isStruct(et) {
				v.structMods(et, m)
			} else {
				h, _ := v.elemHeap(et)
				m.heaps[h] = true
			}
		case "delete":
			mt := c.Args[0].Type().Underlying().(*types.Map)
			_, b2, c2 := v.mapHeaps(mt)
			m.heaps[b2], m.heaps[c2] = true, true
		}
		return
	}
	if strings.HasPrefix(name, "(*sync.RWMutex).") || strings.HasPrefix(name, "(*sync.Mutex).") {
		if len(c.Args) > 0 {
			if g, _ := v.eng.lockGhostOfArg(c.Args[0]); g != "" {
				m.ghost[g] = true
			}
		}
	}
	if ok, mods := v.intrinsicMods(fr, name, c); ok {
		for _, h := range mods {
			if h == "*" {
				m.all = true
			} else if h == "alloc" {
				m.allocs = true
			} else {
				m.heaps[h] = true
			}
		}
		return
	}
	var fc *funcContract
	var callee *ssa.Function
	if dm := v.devirt(c); dm != nil {
		callee = dm
		fc = v.eng.contractFor(dm)
	} else if c.IsInvoke() {
		fc = v.eng.contracts.funcs["."+name]
		if _, named := c.Value.Type().(*types.Named); fc == nil && !named && v.fc != nil {
			fc = v.eng.contracts.funcs[v.fc.pkgPath+".(iface)."+c.Method.Name()]
		}
	} else {
		switch f := c.Value.(type) {
		case *ssa.Function:
			callee = f
		case *ssa.MakeClosure:
			callee = f.Fn.(*ssa.Function)
		default:
			if mc := fr.closures()[c.Value]; mc != nil {
				callee = mc.Fn.(*ssa.Function)
			} else {
				// closure created earlier in the function but not yet executed: look it up statically
				if mc2, ok := c.Value.(*ssa.MakeClosure); ok {
					callee = mc2.Fn.(*ssa.Function)
				}
			}
		}
		if callee != nil {
			fc = v.eng.contractFor(callee)
		}
	}
	if fc != nil && !fc.inline {
		m.allocs = true
		if !fc.hasMod {
			m.all = true
			return
		}
		for _, a := range c.Args {
			mc, _ := a.(*ssa.MakeClosure)
			if mc == nil {
				mc = fr.closures()[a]
			}
			if mc == nil {
				continue
			}
			if cfn, ok := mc.Fn.(*ssa.Function); ok {
				for i := range mc.Bindings {
					if i >= len(cfn.FreeVars) || writesThrough(cfn.FreeVars[i], map[ssa.Value]bool{}) {
						m.all = true // the callee may run a closure that writes its captured variables
						return
					}
				}
			}
		}
		for _, e := range fc.modifies {
			if e == "*" {
				m.all = true
				return
			}
			if strings.HasPrefix(e, "ghost ") {
				m.ghost[strings.TrimSpace(e[6:])] = true
				continue
			}
			// heap names touched by this entry, determined from types
			hs := v.modEntryHeaps(fc, callee, c, e)
			if hs == nil {
				m.all = true
				return
			}
			for _, h := range hs {
				m.heaps[h] = true
			}
		}
		return
	}
	if callee != nil && depth < 4 && callee.Blocks != nil && len(v.eng.fnInfo(callee).loops) == 0 && v.canInline(callee) {
		nf := &frame{fn: callee, vals: map[ssa.Value]string{}, addrs: map[ssa.Value]*addr{}, prefix: "mods."}
		for _, b := range callee.Blocks {
			for _, in := range b.Instrs {
				v.instrMods(nf, in, m, depth+1)
			}
		}
		// locals of the inlined callee get fresh keys per inlining: drop them
		for k := range m.locals {
			if strings.HasPrefix(k, "mods.") {
				delete(m.locals, k)
			}
		}
		return
	}
	if v.eng.isPure(name) {
		m.allocs = true
		return
	}
	if callee == nil && !c.IsInvoke() && v.fc != nil && v.fc.dynPure {
		// calls through function values are assumed (and listed) not to write the modelled state
		m.allocs = true
		return
	}
	m.all = true
}

// modEntryHeaps resolves a modifies entry to heap names using static types only.
func (v *vc) modEntryHeaps(fc *funcContract, callee *ssa.Function, c *ssa.CallCommon, entry string) []string {
	e, err := parseSpecExpr(entry)
	if err != nil {
		return nil
	}
	scope := map[string]types.Type{}
	var pkg *ssa.Package
	if callee != nil {
		for _, p := range callee.Params {
			scope[p.Name()] = p.Type()
		}
		for _, fvar := range callee.FreeVars {
			if pt, ok := fvar.Type().Underlying().(*types.Pointer); ok {
				scope[fvar.Name()] = pt.Elem()
			}
		}
		pkg = callee.Pkg
		if pkg == nil && callee.Parent() != nil {
			pkg = callee.Parent().Pkg
		}
	} else if c != nil {
		sig := c.Signature()
		scope["self"] = c.Value.Type()
		for i := 0; i < sig.Params().Len(); i++ {
			scope[sig.Params().At(i).Name()] = sig.Params().At(i).Type()
			scope[fmt.Sprintf("p%d", i)] = sig.Params().At(i).Type()
		}
	}
	return v.staticHeaps(e, scope, pkg)
}

func (v *vc) staticType(e ast.Expr, scope map[string]types.Type, pkg *ssa.Package) types.Type {
	switch x := e.(type) {
	case *ast.Ident:
		if t, ok := scope[x.Name]; ok {
			return t
		}
		if pkg != nil {
			if o := pkg.Pkg.Scope().Lookup(x.Name); o != nil {
				return o.Type()
			}
		}
	case *ast.ParenExpr:
		return v.staticType(x.X, scope, pkg)
	case *ast.SelectorExpr:
		bt := v.staticType(x.X, scope, pkg)
		if bt == nil {
			return nil
		}
		if p, ok := bt.Underlying().(*types.Pointer); ok {
			bt = p.Elem()
		}
		if s, ok := bt.Underlying().(*types.Struct); ok {
			for i := 0; i < s.NumFields(); i++ {
				if s.Field(i).Name() == x.Sel.Name {
					return s.Field(i).Type()
				}
			}
		}
	case *ast.IndexExpr:
		bt := v.staticType(x.X, scope, pkg)
		if bt == nil {
			return nil
		}
		switch u := bt.Underlying().(type) {
		case *types.Slice:
			return u.Elem()
		case *types.Array:
			return u.Elem()
		case *types.Map:
			return u.Elem()
		}
	case *ast.StarExpr:
		bt := v.staticType(x.X, scope, pkg)
		if bt == nil {
			return nil
		}
		if p, ok := bt.Underlying().(*types.Pointer); ok {
			return p.Elem()
		}
	}
	return nil
}

func (v *vc) staticHeaps(e ast.Expr, scope map[string]types.Type, pkg *ssa.Package) []string {
	switch x := e.(type) {
	case *ast.SelectorExpr:
		// Type.field (whole heap) or x.f
		var bt types.Type
		if id, ok := x.X.(*ast.Ident); ok {
			if _, isVar := scope[id.Name]; !isVar && pkg != nil {
				if o, ok := pkg.Pkg.Scope().Lookup(id.Name).(*types.TypeName); ok {
					bt = o.Type()
				}
			}
		}
		if bt == nil {
			bt = v.staticType(x.X, scope, pkg)
		}
		if bt == nil {
			return nil
		}
		if p, ok := bt.Underlying().(*types.Pointer); ok {
			bt = p.Elem()
		}
		s, ok := bt.Underlying().(*types.Struct)
		if !ok {
			return nil
		}
		if x.Sel.Name == "all" || x.Sel.Name == "_all" {
			var hs []string
			for i := 0; i < s.NumFields(); i++ {
				h, _ := v.fieldHeap(bt, i)
				hs = append(hs, h)
			}
			return hs
		}
		for i := 0; i < s.NumFields(); i++ {
			if s.Field(i).Name() == x.Sel.Name {
				h, _ := v.fieldHeap(bt, i)
				return []string{h}
			}
		}
	case *ast.SliceExpr, *ast.IndexExpr:
		var base ast.Expr
		if se, ok := x.(*ast.SliceExpr); ok {
			base = se.X
		} else {
			base = x.(*ast.IndexExpr).X
		}
		bt := v.staticType(base, scope, pkg)
		if bt == nil {
			return nil
		}
		switch u := bt.Underlying().(type) {
		case *types.Slice:
			if isStruct(u.Elem()) {
				var hs []string
				s := u.Elem().Underlying().(*types.Struct)
				for i := 0; i < s.NumFields(); i++ {
					h, _ := v.fieldHeap(u.Elem(), i)
					hs = append(hs, h)
				}
				return hs
			}
			h, _ := v.elemHeap(u.Elem())
			return []string{h}
		case *types.Map:
			a, b, c := v.mapHeaps(u)
			return []string{a, b, c}
		}
	case *ast.StarExpr:
		bt := v.staticType(x.X, scope, pkg)
		if bt == nil {
			return nil
		}
		p, ok := bt.Underlying().(*types.Pointer)
		if !ok {
			return nil
		}
		if isStruct(p.Elem()) {
			var hs []string
			s := p.Elem().Underlying().(*types.Struct)
			for i := 0; i < s.NumFields(); i++ {
				h, _ := v.fieldHeap(p.Elem(), i)
				hs = append(hs, h)
			}
			return hs
		}
		if arr, isArr := p.Elem().Underlying().(*types.Array); isArr && !isStruct(arr.Elem()) {
			h, _ := v.elemHeap(arr.Elem())
			return []string{h}
		}
		h, _ := v.cellHeap(p.Elem())
		return []string{h}
	}
	return nil
}
