package main

import (
	"bytes"
	"context"
	"fmt"
	"os"
	"os/exec"
	"path/filepath"
	"strings"
	"sync"
	"time"
)

const preludeExtra = `(declare-const interior_ptr Int)
(assert (> interior_ptr 0))
(declare-fun str_id (Str) Int)
(declare-fun str_sub (Str Int Int) Str)
(declare-fun str_cat (Str Str) Str)
(declare-fun uf_strlt (Str Str) Bool)
(declare-fun uf_feq (F64 F64) Bool)
(declare-fun uf_flt (F64 F64) Bool)
(declare-fun uf_fle (F64 F64) Bool)
(declare-fun uf_fadd (F64 F64) F64)
(declare-fun uf_fsub (F64 F64) F64)
(declare-fun uf_fmul (F64 F64) F64)
(declare-fun uf_fdiv (F64 F64) F64)
(declare-fun uf_fneg (F64) F64)
`

func (v *vc) smtFor(ob *obligation, withModel bool, values []string) string {
	var b strings.Builder
	b.WriteString(preludeFixed)
	b.WriteString(preludeExtra)
	for _, d := range v.sc.decls {
		b.WriteString(d)
		b.WriteByte('\n')
	}
	head := b.String()
	b.Reset()
	for idx, it := range v.items[:ob.pos] {
		switch it.kind {
		case itDecl:
			b.WriteString(it.text)
			b.WriteByte('\n')
		case itFact:
			if ob.skipItem > 0 && idx == ob.skipItem || ob.skipOrigin != "" && it.origin == ob.skipOrigin {
				continue
			}
			b.WriteString("(assert ")
			b.WriteString(it.text)
			b.WriteString(")\n")
		}
	}
	if ob.cover {
		fmt.Fprintf(&b, "(assert %s)\n", ob.goal)
	} else {
		fmt.Fprintf(&b, "(assert (not %s))\n", ob.goal)
	}
	b.WriteString("(check-sat)\n")
	if withModel && len(values) > 0 {
		fmt.Fprintf(&b, "(get-value (%s))\n", strings.Join(values, " "))
	}
	body := b.String()
	var lines strings.Builder
	for _, l := range v.smtLinesFor(body, false) {
		lines.WriteString(l)
		lines.WriteByte('\n')
	}
	return head + lines.String() + body
}

type solverSpec struct {
	name string
	argv func(file string, timeoutS int) []string
}

var solvers = []solverSpec{
	{"z3-new-5.1.0", func(f string, t int) []string { return []string{"z3-new", fmt.Sprintf("-T:%d", t), "-smt2", f} }},
	{"cvc5-1.0", func(f string, t int) []string {
		return []string{"cvc5", fmt.Sprintf("--tlimit=%d", t*1000), "--lang=smt2", f}
	}},
	{"z3-4.8.12", func(f string, t int) []string { return []string{"/usr/bin/z3", fmt.Sprintf("-T:%d", t), "-smt2", f} }},
}

func runSolver(s solverSpec, file string, timeoutS int) (status, output string, ms int64) {
	argv := s.argv(file, timeoutS)
	ctx, cancel := context.WithTimeout(context.Background(), time.Duration(timeoutS+5)*time.Second)
	defer cancel()
	cmd := exec.CommandContext(ctx, argv[0], argv[1:]...)
	var out bytes.Buffer
	cmd.Stdout = &out
	cmd.Stderr = &out
	t0 := time.Now()
	cmd.Run()
	ms = time.Since(t0).Milliseconds()
	output = out.String()
	for _, line := range strings.Split(output, "\n") {
		first := strings.TrimSpace(line)
		if strings.HasPrefix(first, "WARNING") || first == "" {
			continue
		}
		switch first {
		case "unsat", "sat", "unknown":
			return first, output[strings.Index(output, first):], ms
		}
		break
	}
	if strings.Contains(output, "timeout") || ctx.Err() != nil {
		return "timeout", output, ms
	}
	return "error", output, ms
}

type solveOpts struct {
	timeoutS   int
	dumpDir    string
	twoSolvers bool
	seed       int
}

// discharge runs the portfolio on one obligation.
func (v *vc) discharge(ob *obligation, opts solveOpts, workDir string) {
	text := v.smtFor(ob, false, nil)
	// VERIF_SEED is recorded in the evidence but deliberately NOT passed to the solvers: a verdict must not
	// depend on the solver's random seed (obligations are registered only if they discharge deterministically).
	ob.smtSize = len(text)
	fname := sanitize(ob.name) + ".smt2"
	file := filepath.Join(workDir, fname)
	if err := os.WriteFile(file, []byte(text), 0o644); err != nil {
		ob.status = "error"
		ob.output = err.Error()
		return
	}
	if ob.smtSize > 4<<20 {
		ob.status = "unknown"
		ob.output = "VC exceeds the 4 MB size cap"
		return
	}
	want := "unsat"
	if ob.cover {
		want = "sat"
		// vacuity guard: models of quantified formulas are expensive; try the full query briefly,
		// then the relaxation without quantified facts (a model of fewer facts; detects every
		// contradiction among the quantifier-free facts: requires, invariants, path conditions).
		status, _, ms := runSolver(solvers[0], file, 3)
		ob.ms += ms
		if status == "sat" {
			ob.status, ob.backend = "sat", solvers[0].name
			return
		}
		if status == "unsat" {
			ob.status, ob.backend = "unsat", solvers[0].name
			return
		}
		relaxed := v.smtRelaxed(ob)
		rfile := filepath.Join(workDir, sanitize(ob.name)+".relaxed.smt2")
		os.WriteFile(rfile, []byte(relaxed), 0o644)
		for _, s := range solvers {
			status, out, ms := runSolver(s, rfile, 10)
			ob.ms += ms
			if status == "sat" || status == "unsat" {
				ob.status, ob.backend = status, s.name+"(qf-relaxed)"
				return
			}
			ob.output += fmt.Sprintf("[%s] %s %s\n", s.name, status, firstLines(out, 1))
		}
		ob.status = "unknown"
		return
	}
	agree := 0
	var total int64
	if strings.Contains(text, "(forall") && !opts.twoSolvers {
		// Most safety obligations do not need the quantified hypotheses: try to prove the goal from the
		// quantifier-free subset of the facts first (fewer hypotheses: sound), then fall back to the full VC.
		sub := v.smtSubset(ob)
		sfile := filepath.Join(workDir, sanitize(ob.name)+".qf.smt2")
		os.WriteFile(sfile, []byte(sub), 0o644)
		status, _, ms := runSolver(solvers[0], sfile, 3)
		total += ms
		if status == "unsat" {
			ob.status, ob.backend, ob.ms = "unsat", solvers[0].name+"(qf-subset of hypotheses)", total
			return
		}
	}
	order := solvers
	if h, ok := solverHints[ob.name]; ok && !opts.twoSolvers {
		// try the back end that discharged this obligation last time first (pure scheduling: any back end's
		// `unsat` is accepted, and all are still tried if the hinted one does not answer)
		var first, rest []solverSpec
		for _, s := range solvers {
			if strings.HasPrefix(h, s.name) {
				first = append(first, s)
			} else {
				rest = append(rest, s)
			}
		}
		order = append(first, rest...)
	}
	for _, s := range order {
		t := opts.timeoutS
		status, out, ms := runSolver(s, file, t)
		total += ms
		if status == "error" {
			ob.output += fmt.Sprintf("[%s] %s\n", s.name, firstLines(out, 3))
			continue
		}
		if status == want {
			agree++
			if ob.backend == "" {
				ob.backend = s.name
			} else {
				ob.backend += "+" + s.name
			}
			if !opts.twoSolvers || agree >= 2 || ob.cover {
				ob.status = status
				ob.ms = total
				return
			}
			continue
		}
		if status == "sat" || status == "unsat" {
			// definite answer of the other polarity
			ob.status = status
			ob.backend = s.name
			ob.ms = total
			ob.output = firstLines(out, 2)
			return
		}
		ob.output += fmt.Sprintf("[%s] %s\n", s.name, status)
	}
	ob.ms = total
	if agree > 0 {
		ob.status = want
		return
	}
	if ob.status == "" {
		ob.status = "unknown"
	}
}

func firstLines(s string, n int) string {
	ls := strings.Split(strings.TrimSpace(s), "\n")
	if len(ls) > n {
		ls = ls[:n]
	}
	return strings.Join(ls, " | ")
}

func sanitize(s string) string {
	var b strings.Builder
	for _, r := range s {
		switch {
		case r >= 'a' && r <= 'z', r >= 'A' && r <= 'Z', r >= '0' && r <= '9', r == '.', r == '-', r == '_':
			b.WriteRune(r)
		default:
			b.WriteByte('_')
		}
	}
	out := b.String()
	if len(out) > 150 {
		out = out[:150]
	}
	return out
}

func dischargeAll(vcs []*vc, obs []*obligation, owner map[*obligation]*vc, opts solveOpts, workDir string) {
	var wg sync.WaitGroup
	ch := make(chan *obligation)
	for w := 0; w < 16; w++ {
		wg.Add(1)
		go func() {
			defer wg.Done()
			for ob := range ch {
				owner[ob].discharge(ob, opts, workDir)
			}
		}()
	}
	for _, ob := range obs {
		ch <- ob
	}
	close(ch)
	wg.Wait()
}
