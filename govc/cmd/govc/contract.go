package main

// Contract files: structured comments (//@ ...) kept in /repo/<pkg>/verif_contracts.go
// (comment-only, //go:build verif) and in /verif/trusted/*.spec for code outside /repo.

import (
	"fmt"
	"go/ast"
	"go/parser"
	"os"
	"regexp"
	"strconv"
	"strings"
)

type clause struct {
	label string
	text  string
	expr  ast.Expr
	props []string // empty = all props of the function
	line  int
}

type loopSpec struct {
	assumes    []*clause
	invariants []*clause
	decreases  *clause
}

type ghostDecl struct {
	name string
	typ  string // int | bool
	init string
}

type funcContract struct {
	pkgPath  string
	name     string // RelString name
	props    []string
	bv       bool
	assumed  bool // contract is trusted, body not verified
	nosafety bool
	requires []*clause
	ensures  []*clause
	modifies []string // location expressions; "*" = everything
	hasMod   bool
	loops    map[int]*loopSpec
	ghosts   []ghostDecl
	inline   bool
	file     string
	line     int
	// call-site directives: "callee#k" -> list of clauses
	callRequires map[string][]*clause
	callAssumeReq map[string]bool
	exactDiv      bool
	exactDivs     []string
	exactConsts   []string
	holds         []holdSpec
	readsUnlocked map[string]string
	setupOnly     string
	lockHandoff   string
	waitsHolding  string
	absentUnused  map[string]string
	assumeAllCalleeReq bool
	sweep         bool // synthetic contract of the lock-discipline sweep
	ghostAt      []ghostUpdate
	panicsOK     bool
	havocOnly    bool // function is outside the subset: refutations only
	lemmas       []*clause
	tier         string // "" = quick, "ext" = thorough only
	expectFail   map[string]bool
	dynPure      bool
	allocBound   string
	wraps        bool
}

type ghostUpdate struct {
	where string // "call <callee>#k after" etc.
	name  string
	expr  ast.Expr
	text  string
}

type pureFunc struct {
	name   string
	params []string
	body   ast.Expr
	text   string
}

type lemmaSpec struct {
	name    string
	props   []string
	bv      bool
	expr    ast.Expr
	pkgPath string
	text    string
}

type contractSet struct {
	smtPkg []string // package each smt line belongs to ("" = every query)
	lemmas []*lemmaSpec
	funcs  map[string]*funcContract // key pkgPath + "." + name
	pures  map[string]*pureFunc
	smt    []string
	files  []string
	errors []string
	guards []*guardSpec
}

// guardSpec: field <typ>.<field> of package pkgPath may only be accessed while <typ>.<mu> of the same object is held.
type guardSpec struct {
	pkgPath, typ, field, mu string
	file                    string
	line                    int
}

type holdSpec struct {
	expr  ast.Expr
	text  string
	write bool
}

func newContractSet() *contractSet {
	return &contractSet{funcs: map[string]*funcContract{}, pures: map[string]*pureFunc{}}
}

var labelRe = regexp.MustCompile(`^([A-Za-z_][A-Za-z0-9_\.]*)\s*:\s*(.*)$`)
var propTagRe = regexp.MustCompile(`^\[([A-Z0-9, ]+)\]\s*(.*)$`)

// preprocess turns "a ==> b" into imp(a,b) and "a <==> b" into iff(a,b) so go/parser accepts it.
func preprocess(s string) string {
	s = strings.TrimSpace(s)
	depth := 0
	inStr := false
	for i := 0; i < len(s); i++ {
		ch := s[i]
		if inStr {
			if ch == '\\' {
				i++
			} else if ch == '"' {
				inStr = false
			}
			continue
		}
		switch ch {
		case '"':
			inStr = true
		case '(', '[', '{':
			depth++
		case ')', ']', '}':
			depth--
		case '<':
			if depth == 0 && strings.HasPrefix(s[i:], "<==>") {
				return "iff(" + preprocess(s[:i]) + ", " + preprocess(s[i+4:]) + ")"
			}
		}
	}
	depth = 0
	inStr = false
	for i := 0; i < len(s); i++ {
		ch := s[i]
		if inStr {
			if ch == '\\' {
				i++
			} else if ch == '"' {
				inStr = false
			}
			continue
		}
		switch ch {
		case '"':
			inStr = true
		case '(', '[', '{':
			depth++
		case ')', ']', '}':
			depth--
		case '=':
			if depth == 0 && strings.HasPrefix(s[i:], "==>") {
				return "imp(" + preprocess(s[:i]) + ", " + preprocess(s[i+3:]) + ")"
			}
		}
	}
	// recurse into bracket groups
	var out strings.Builder
	i := 0
	for i < len(s) {
		ch := s[i]
		if ch == '"' {
			j := i + 1
			for j < len(s) && s[j] != '"' {
				if s[j] == '\\' {
					j++
				}
				j++
			}
			out.WriteString(s[i:min(j+1, len(s))])
			i = j + 1
			continue
		}
		if ch == '(' || ch == '[' {
			close := byte(')')
			if ch == '[' {
				close = ']'
			}
			d := 0
			j := i
			for ; j < len(s); j++ {
				if s[j] == '(' || s[j] == '[' {
					d++
				} else if s[j] == ')' || s[j] == ']' {
					d--
					if d == 0 {
						break
					}
				}
			}
			inner := s[i+1 : min(j, len(s))]
			parts := splitTop(inner, ',')
			for k := range parts {
				parts[k] = preprocess(parts[k])
			}
			out.WriteByte(ch)
			out.WriteString(strings.Join(parts, ", "))
			out.WriteByte(close)
			i = j + 1
			continue
		}
		out.WriteByte(ch)
		i++
	}
	return out.String()
}

func splitTop(s string, sep byte) []string {
	var parts []string
	depth := 0
	inStr := false
	last := 0
	for i := 0; i < len(s); i++ {
		ch := s[i]
		if inStr {
			if ch == '\\' {
				i++
			} else if ch == '"' {
				inStr = false
			}
			continue
		}
		switch ch {
		case '"':
			inStr = true
		case '(', '[', '{':
			depth++
		case ')', ']', '}':
			depth--
		default:
			if ch == sep && depth == 0 {
				parts = append(parts, s[last:i])
				last = i + 1
			}
		}
	}
	parts = append(parts, s[last:])
	return parts
}

func parseSpecExpr(text string) (ast.Expr, error) {
	pp := preprocess(text)
	e, err := parser.ParseExpr(pp)
	if err != nil {
		return nil, fmt.Errorf("spec expr %q (preprocessed %q): %v", text, pp, err)
	}
	return e, nil
}

func (cs *contractSet) parseClause(rest string, line int, defLabel string) (*clause, error) {
	c := &clause{line: line}
	rest = strings.TrimSpace(rest)
	if m := propTagRe.FindStringSubmatch(rest); m != nil {
		for _, p := range strings.Split(m[1], ",") {
			c.props = append(c.props, strings.TrimSpace(p))
		}
		rest = m[2]
	}
	if m := labelRe.FindStringSubmatch(rest); m != nil && !strings.HasPrefix(m[2], "=") {
		c.label = m[1]
		rest = m[2]
	} else {
		c.label = defLabel
	}
	c.text = rest
	e, err := parseSpecExpr(rest)
	if err != nil {
		return nil, err
	}
	c.expr = e
	return c, nil
}

// loadFile parses one contract file. pkgPath is the import path the file's "func" names are relative to
// (empty for trusted spec files, whose func names are fully qualified).
func (cs *contractSet) loadFile(path, pkgPath string) error {
	data, err := os.ReadFile(path)
	if err != nil {
		return err
	}
	cs.files = append(cs.files, path)
	var lines []string
	var lineNos []int
	for i, raw := range strings.Split(string(data), "\n") {
		t := strings.TrimSpace(raw)
		if !strings.HasPrefix(t, "//@") {
			continue
		}
		t = strings.TrimSpace(t[3:])
		if t == "" {
			continue
		}
		if strings.HasPrefix(t, "..") && len(lines) > 0 {
			lines[len(lines)-1] += " " + strings.TrimSpace(t[2:])
			continue
		}
		lines = append(lines, t)
		lineNos = append(lineNos, i+1)
	}
	var cur *funcContract
	curPkg := pkgPath
	for i, t := range lines {
		ln := lineNos[i]
		fail := func(err error) error { return fmt.Errorf("%s:%d: %v", path, ln, err) }
		word, rest := t, ""
		if k := strings.IndexAny(t, " \t"); k >= 0 {
			word, rest = t[:k], strings.TrimSpace(t[k+1:])
		}
		switch word {
		case "package":
			curPkg = rest
		case "guarded":
			// guarded <Type>.<field> by <mutex field>   (lock discipline, swept over the whole package for C19)
			f := strings.Fields(rest)
			dot := -1
			if len(f) > 0 {
				dot = strings.Index(f[0], ".")
			}
			if len(f) != 3 || f[1] != "by" || dot <= 0 {
				return fail(fmt.Errorf("guarded needs: Type.field by mutexField"))
			}
			cs.guards = append(cs.guards, &guardSpec{pkgPath: curPkg, typ: f[0][:dot], field: f[0][dot+1:], mu: f[2], file: path, line: ln})
		case "owned":
			// owned <Type>.<field>: objects stored in that field are protected by the owner's mutex (owned.go)
			if !parseOwned(curPkg, rest) {
				return fail(fmt.Errorf("owned needs: Type.field"))
			}
		case "func":
			cur = &funcContract{pkgPath: curPkg, name: rest, loops: map[int]*loopSpec{}, file: path, line: ln, callRequires: map[string][]*clause{}, expectFail: map[string]bool{}}
			key := curPkg + "." + rest
			if _, dup := cs.funcs[key]; dup {
				return fail(fmt.Errorf("duplicate contract for %s", key))
			}
			cs.funcs[key] = cur
		case "pure":
			// pure name(a, b) = expr
			k := strings.Index(rest, "=")
			for k >= 0 && k+1 < len(rest) && (rest[k+1] == '=' || (k > 0 && strings.ContainsRune("!<>=", rune(rest[k-1])))) {
				nk := strings.Index(rest[k+2:], "=")
				if nk < 0 {
					k = -1
					break
				}
				k = k + 2 + nk
			}
			if k < 0 {
				return fail(fmt.Errorf("bad pure"))
			}
			head, body := strings.TrimSpace(rest[:k]), strings.TrimSpace(rest[k+1:])
			op := strings.Index(head, "(")
			if op < 0 || !strings.HasSuffix(head, ")") {
				return fail(fmt.Errorf("bad pure head %q", head))
			}
			pf := &pureFunc{name: strings.TrimSpace(head[:op]), text: body}
			for _, p := range strings.Split(head[op+1:len(head)-1], ",") {
				p = strings.TrimSpace(p)
				if p != "" {
					pf.params = append(pf.params, strings.Fields(p)[0])
				}
			}
			e, err := parseSpecExpr(body)
			if err != nil {
				return fail(err)
			}
			pf.body = e
			cs.pures[pf.name] = pf
		case "smt":
			cs.smt = append(cs.smt, rest)
			cs.smtPkg = append(cs.smtPkg, curPkg)
		case "lemma":
			// lemma <name> <P1,P2> <int|bv>: <expr>
			k := strings.Index(rest, ":")
			if k < 0 {
				return fail(fmt.Errorf("bad lemma"))
			}
			hd := strings.Fields(rest[:k])
			if len(hd) != 3 {
				return fail(fmt.Errorf("lemma needs: name props arith"))
			}
			e, err := parseSpecExpr(rest[k+1:])
			if err != nil {
				return fail(err)
			}
			cs.lemmas = append(cs.lemmas, &lemmaSpec{name: hd[0], props: strings.Split(hd[1], ","), bv: hd[2] == "bv", expr: e, pkgPath: curPkg, text: rest[k+1:]})
			cur = nil
		default:
			if cur == nil {
				return fail(fmt.Errorf("directive %q outside func", word))
			}
			switch word {
			case "props":
				cur.props = strings.Fields(rest)
			case "arith":
				cur.bv = rest == "bv"
			case "assumed", "trusted":
				cur.assumed = true
			case "nosafety":
				cur.nosafety = true
			case "inline":
				cur.inline = true
			case "panics_ok":
				cur.panicsOK = true
			case "havoc_mode":
				cur.havocOnly = true
			case "tier":
				cur.tier = rest
			case "alloc_bound":
				cur.allocBound = rest
			case "callee_requires_assumed":
				// the preconditions of every callee under contract are data invariants this function does not
				// track: assumed at each call and listed in the evidence (the function's own obligations stand)
				cur.assumeAllCalleeReq = true
			case "absent_entry_unused":
				// absent_entry_unused Type.field <reason>: what this function looks up in that guarded map after it
				// dropped the lock may be missing, but is then not used (an assumption about the code in between,
				// listed; to be backed by a schedule-point witness)
				f := strings.SplitN(rest, " ", 2)
				if len(f) < 2 || !strings.Contains(f[0], ".") {
					return fail(fmt.Errorf("absent_entry_unused needs: Type.field reason"))
				}
				if cur.absentUnused == nil {
					cur.absentUnused = map[string]string{}
				}
				cur.absentUnused[f[0]] = f[1]
			case "waits_holding":
				// waits_holding <reason>: WaitGroup.Wait under a lock the waited-for goroutines never take
				cur.waitsHolding = rest
				if rest == "" {
					return fail(fmt.Errorf("waits_holding needs a reason"))
				}
			case "lock_handoff":
				// lock_handoff <reason>: the function returns with a lock taken or released on purpose (its
				// callers pair it); no balance obligations, listed in the evidence
				cur.lockHandoff = rest
				if rest == "" {
					return fail(fmt.Errorf("lock_handoff needs a reason"))
				}
			case "setup_only":
				// setup_only <reason>: configuration method, called only before the object is shared with other
				// goroutines (an assumption about the callers, listed in the evidence): no lock obligations
				cur.setupOnly = rest
				if rest == "" {
					return fail(fmt.Errorf("setup_only needs a reason"))
				}
			case "reads_unlocked":
				// reads_unlocked Type.field <reason>: this function runs on the goroutine that owns all writes of
				// the field after construction, so its reads need no lock (an assumption, listed in the evidence)
				f := strings.SplitN(rest, " ", 2)
				if len(f) < 2 || !strings.Contains(f[0], ".") {
					return fail(fmt.Errorf("reads_unlocked needs: Type.field reason"))
				}
				if cur.readsUnlocked == nil {
					cur.readsUnlocked = map[string]string{}
				}
				cur.readsUnlocked[f[0]] = f[1]
			case "holds", "holds_r":
				// holds x.mu: the caller holds the (write / at least read) lock of the object x
				e, err := parseSpecExpr(rest)
				if err != nil {
					return fail(err)
				}
				cur.holds = append(cur.holds, holdSpec{expr: e, text: rest, write: word == "holds"})
			case "wraps":
				cur.wraps = true
			case "exact_divmod":
				// unsigned / and % by a variable are the SMT div/mod (nonlinear) instead of abstract functions:
				// for functions whose divisor ranges over a small set the contract enumerates
				cur.exactDiv = true
				cur.exactDivs = strings.Fields(rest) // optional: the constants the divisor ranges over
			case "exact_consts":
				// signed products x*y and quotients x/y whose second operand ranges over the listed constants are
				// translated exactly (ite chain over the constants) instead of by the abstract uf_mul / uf_div
				cur.exactConsts = strings.Fields(rest)
			case "dynamic_calls_modify_nothing":
				cur.dynPure = true
			case "requires":
				c, err := cs.parseClause(rest, ln, fmt.Sprintf("r%d", len(cur.requires)+1))
				if err != nil {
					return fail(err)
				}
				cur.requires = append(cur.requires, c)
			case "ensures":
				c, err := cs.parseClause(rest, ln, fmt.Sprintf("e%d", len(cur.ensures)+1))
				if err != nil {
					return fail(err)
				}
				cur.ensures = append(cur.ensures, c)
			case "modifies":
				cur.hasMod = true
				for _, m := range splitTop(rest, ',') {
					m = strings.TrimSpace(m)
					if m != "" && m != "nothing" {
						cur.modifies = append(cur.modifies, m)
					}
				}
			case "ghost":
				// ghost name type = init
				f := strings.SplitN(rest, "=", 2)
				hd := strings.Fields(f[0])
				if len(hd) != 2 {
					return fail(fmt.Errorf("bad ghost decl"))
				}
				g := ghostDecl{name: hd[0], typ: hd[1]}
				if len(f) == 2 {
					g.init = strings.TrimSpace(f[1])
				}
				cur.ghosts = append(cur.ghosts, g)
			case "loop":
				f := strings.SplitN(rest, " ", 3)
				if len(f) < 3 {
					return fail(fmt.Errorf("bad loop directive"))
				}
				k, err := strconv.Atoi(f[0])
				if err != nil {
					return fail(err)
				}
				ls := cur.loops[k]
				if ls == nil {
					ls = &loopSpec{}
					cur.loops[k] = ls
				}
				switch f[1] {
				case "invariant":
					c, err := cs.parseClause(f[2], ln, fmt.Sprintf("i%d", len(ls.invariants)+1))
					if err != nil {
						return fail(err)
					}
					ls.invariants = append(ls.invariants, c)
				case "assume":
					// an invariant that is ASSUMED, not proved (listed in the evidence; used for bounded stand-ins)
					c, err := cs.parseClause(f[2], ln, fmt.Sprintf("a%d", len(ls.assumes)+1))
					if err != nil {
						return fail(err)
					}
					ls.assumes = append(ls.assumes, c)
				case "decreases":
					c, err := cs.parseClause(f[2], ln, "decreases")
					if err != nil {
						return fail(err)
					}
					ls.decreases = c
				default:
					return fail(fmt.Errorf("bad loop directive %q", f[1]))
				}
			case "call":
				// call <callee>#k requires label: expr
				f := strings.SplitN(rest, " ", 3)
				if len(f) == 2 && f[1] == "assume_callee_requires" {
					// the callee's preconditions are a data-structure invariant this function cannot establish:
					// assumed at this site and listed as an assumption in the evidence
					if cur.callAssumeReq == nil {
						cur.callAssumeReq = map[string]bool{}
					}
					cur.callAssumeReq[f[0]] = true
					if _, ok := cur.callRequires[f[0]]; !ok {
						cur.callRequires[f[0]] = nil
					}
					continue
				}
				if len(f) < 3 || f[1] != "requires" {
					return fail(fmt.Errorf("bad call directive"))
				}
				c, err := cs.parseClause(f[2], ln, "callreq")
				if err != nil {
					return fail(err)
				}
				cur.callRequires[f[0]] = append(cur.callRequires[f[0]], c)
			case "at":
				// at <where...> : ghost name = expr
				if ka := strings.Index(rest, ": assume "); ka >= 0 {
					// at <where>: assume <expr>   -- an explicitly listed assumption (e.g. a channel's message invariant)
					e, err := parseSpecExpr(rest[ka+9:])
					if err != nil {
						return fail(err)
					}
					cur.ghostAt = append(cur.ghostAt, ghostUpdate{where: strings.TrimSpace(rest[:ka]), name: "@assume", expr: e, text: rest[ka+9:]})
					continue
				}
				k := strings.Index(rest, ": ghost ")
				if k < 0 {
					return fail(fmt.Errorf("bad at directive"))
				}
				where := strings.TrimSpace(rest[:k])
				asg := strings.SplitN(rest[k+8:], "=", 2)
				if len(asg) != 2 {
					return fail(fmt.Errorf("bad ghost update"))
				}
				e, err := parseSpecExpr(asg[1])
				if err != nil {
					return fail(err)
				}
				cur.ghostAt = append(cur.ghostAt, ghostUpdate{where: where, name: strings.TrimSpace(asg[0]), expr: e, text: asg[1]})
			case "expect_fail":
				cur.expectFail[rest] = true
			case "dead":
				// dead <cover label>: this return / loop body is unreachable code (the vacuity cover is expected unsat)
				cur.expectFail["cover:"+rest] = true
			default:
				return fail(fmt.Errorf("unknown directive %q", word))
			}
		}
	}
	return nil
}
