package main

import "fmt"

// abstractDivMod: a contract's x / y or x % y with a divisor that is not a literal is the same abstract function
// the code's division by a variable is translated to (uf_div / uf_rem, or the ite chain over the constants of an
// `exact_divmod` directive), so that "the result is hash % len(shards)" means the same term on both sides.
func (se *specEnv) abstractDivMod(fn, op, x, y string) (string, bool) {
	if _, isConst := parseIntTerm(y); isConst {
		return "", false
	}
	term := fmt.Sprintf("(%s %s %s)", fn, x, y)
	if fc := se.v.fc; fc != nil && fc.exactDiv {
		if len(fc.exactDivs) == 0 {
			return "", false // plain exact_divmod: SMT div/mod as before
		}
		for i := len(fc.exactDivs) - 1; i >= 0; i-- {
			c := fc.exactDivs[i]
			term = fmt.Sprintf("(ite (= %s %s) (%s %s %s) %s)", y, c, op, x, c, term)
		}
	}
	return term, true
}
