package main

// replay turns a solver model into a run of the real code (see replay_gen.go); stub until wired.
func (v *vc) replay(ob *obligation, work string, rep map[string]interface{}) (bool, string) {
	return false, ""
}
