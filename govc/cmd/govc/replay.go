package main

// Replay: turn the solver's counterexample for a failed obligation into a run of the REAL code
// (an in-package test injected with `go test -overlay`, nothing is written into /repo).

import (
	"encoding/json"
	"fmt"
	"go/ast"
	"go/token"
	"go/types"
	"math/big"
	"os"
	"os/exec"
	"path/filepath"
	"strings"
	"context"
	"time"

	"golang.org/x/tools/go/ssa"
)

// ---- s-expression parsing of (get-value ...) output ----

type sexp struct {
	atom string
	list []*sexp
}

func parseSexps(s string) []*sexp {
	var out []*sexp
	i := 0
	var parse func() *sexp
	skip := func() {
		for i < len(s) && (s[i] == ' ' || s[i] == '\n' || s[i] == '\t' || s[i] == '\r') {
			i++
		}
	}
	parse = func() *sexp {
		skip()
		if i >= len(s) {
			return nil
		}
		if s[i] == '(' {
			i++
			n := &sexp{list: []*sexp{}}
			for {
				skip()
				if i >= len(s) {
					return n
				}
				if s[i] == ')' {
					i++
					return n
				}
				c := parse()
				if c == nil {
					return n
				}
				n.list = append(n.list, c)
			}
		}
		if s[i] == '|' {
			j := strings.IndexByte(s[i+1:], '|')
			if j < 0 {
				j = len(s) - i - 1
			}
			a := s[i : i+j+2]
			i += j + 2
			return &sexp{atom: a}
		}
		if s[i] == '"' {
			j := i + 1
			for j < len(s) && s[j] != '"' {
				j++
			}
			a := s[i:min(j+1, len(s))]
			i = j + 1
			return &sexp{atom: a}
		}
		j := i
		for j < len(s) && !strings.ContainsRune(" \n\t\r()", rune(s[j])) {
			j++
		}
		a := s[i:j]
		i = j
		return &sexp{atom: a}
	}
	for {
		skip()
		if i >= len(s) {
			break
		}
		x := parse()
		if x == nil {
			break
		}
		out = append(out, x)
	}
	return out
}

func (x *sexp) String() string {
	if x.list == nil {
		return x.atom
	}
	parts := make([]string, len(x.list))
	for i, c := range x.list {
		parts[i] = c.String()
	}
	return "(" + strings.Join(parts, " ") + ")"
}

// intValue interprets a model value as an integer.
func (x *sexp) intValue() (*big.Int, bool) {
	if x.list == nil {
		a := x.atom
		if strings.HasPrefix(a, "#x") {
			return new(big.Int).SetString(a[2:], 16)
		}
		if strings.HasPrefix(a, "#b") {
			return new(big.Int).SetString(a[2:], 2)
		}
		return new(big.Int).SetString(a, 10)
	}
	if len(x.list) == 2 && x.list[0].atom == "-" {
		v, ok := x.list[1].intValue()
		if !ok {
			return nil, false
		}
		return v.Neg(v), true
	}
	if len(x.list) == 3 && x.list[0].atom == "_" && strings.HasPrefix(x.list[1].atom, "bv") {
		return new(big.Int).SetString(x.list[1].atom[2:], 10)
	}
	return nil, false
}

// ---- model access ----

type modelQuery struct {
	terms  []string
	index  map[string]int
	slices []string // every slice-valued term of the planned inputs (kept small when a model is asked for)
}

func (m *modelQuery) want(t string) {
	if m.index == nil {
		m.index = map[string]int{}
	}
	if _, ok := m.index[t]; ok {
		return
	}
	m.index[t] = len(m.terms)
	m.terms = append(m.terms, t)
}

type model struct {
	q    *modelQuery
	vals []*sexp
}

func (m *model) get(t string) *sexp {
	i, ok := m.q.index[t]
	if !ok || i >= len(m.vals) {
		return nil
	}
	return m.vals[i]
}
func (m *model) int(t string) (*big.Int, bool) {
	x := m.get(t)
	if x == nil {
		return nil, false
	}
	return x.intValue()
}
func (m *model) bool(t string) bool {
	x := m.get(t)
	return x != nil && x.atom == "true"
}

const replayElems = 48

// entryHeap returns the entry-state heap term if it was declared before position pos.
func (v *vc) entryHeap(name string, pos int) (string, bool) {
	key := fmt.Sprintf("%s@e%d", name, 0)
	t, ok := v.heapMemo[key]
	if !ok {
		return "", false
	}
	want := fmt.Sprintf("(declare-const %s ", t)
	for i, it := range v.items {
		if i >= pos {
			break
		}
		if it.kind == itDecl && strings.HasPrefix(it.text, want) {
			return t, true
		}
	}
	return "", false
}

type rnode struct {
	typ   types.Type
	term  string
	kids  []*rnode
	elems []*rnode
	field []*rnode
	unsup string
}

func (v *vc) plan(mq *modelQuery, term string, t types.Type, pos, depth int) *rnode {
	n := &rnode{typ: t, term: term}
	if depth > 4 {
		n.unsup = "nesting too deep"
		return n
	}
	switch u := t.Underlying().(type) {
	case *types.Basic:
		switch {
		case u.Info()&types.IsInteger != 0, u.Info()&types.IsBoolean != 0:
			mq.want(term)
		case u.Info()&types.IsString != 0:
			mq.want(fmt.Sprintf("(str_len %s)", term))
			for i := 0; i < replayElems; i++ {
				mq.want(fmt.Sprintf("(str_at %s %d)", term, i))
			}
		case u.Info()&types.IsFloat != 0:
			n.unsup = "float parameter"
		default:
			n.unsup = "basic kind " + u.String()
		}
	case *types.Slice:
		mq.want(fmt.Sprintf("(s_len %s)", term))
		mq.want(fmt.Sprintf("(s_cap %s)", term))
		mq.want(fmt.Sprintf("(s_arr %s)", term))
		if depth > 0 {
			mq.slices = append(mq.slices, term)
		}
		et := u.Elem()
		k := replayElems
		if _, isBasic := et.Underlying().(*types.Basic); !isBasic {
			k = 6
		}
		if isStruct(et) {
			for i := 0; i < k; i++ {
				ref := fmt.Sprintf("(elem (s_arr %s) (+ (s_off %s) %d))", term, term, i)
				n.elems = append(n.elems, v.planStruct(mq, ref, et, pos, depth+1))
			}
		} else {
			h, _ := v.elemHeap(et)
			if ht, ok := v.entryHeap(h, pos); ok {
				for i := 0; i < k; i++ {
					n.elems = append(n.elems, v.plan(mq, fmt.Sprintf("(select (select %s (s_arr %s)) (+ (s_off %s) %d))", ht, term, term, i), et, pos, depth+1))
				}
			}
		}
	case *types.Pointer:
		mq.want(term)
		if isStruct(u.Elem()) {
			n.kids = []*rnode{v.planStruct(mq, term, u.Elem(), pos, depth+1)}
		} else {
			n.unsup = "pointer to " + u.Elem().String()
		}
	case *types.Struct:
		if isTime(t) {
			n.unsup = "time.Time"
			return n
		}
		for i := 0; i < u.NumFields(); i++ {
			n.field = append(n.field, v.plan(mq, fmt.Sprintf("(%s %s)", v.sc.structSel(t, i), term), u.Field(i).Type(), pos, depth+1))
		}
	case *types.Interface:
		n.unsup = "interface"
	case *types.Map:
		mq.want(term)
	default:
		n.unsup = fmt.Sprintf("%T", u)
	}
	return n
}

func (v *vc) planStruct(mq *modelQuery, ref string, t types.Type, pos, depth int) *rnode {
	n := &rnode{typ: t, term: ref}
	s := t.Underlying().(*types.Struct)
	for i := 0; i < s.NumFields(); i++ {
		h, _ := v.fieldHeap(t, i)
		ht, ok := v.entryHeap(h, pos)
		if !ok {
			n.field = append(n.field, nil) // unconstrained: zero value
			continue
		}
		n.field = append(n.field, v.plan(mq, sel(ht, ref), s.Field(i).Type(), pos, depth+1))
	}
	return n
}

func (v *vc) goType(t types.Type) string {
	pkg := v.fn.Pkg
	if pkg == nil && v.fn.Parent() != nil {
		pkg = v.fn.Parent().Pkg
	}
	return types.TypeString(t, func(p *types.Package) string {
		if pkg != nil && p == pkg.Pkg {
			return ""
		}
		return p.Name()
	})
}

// emit builds a Go expression for a planned value from the model.
func (v *vc) emit(n *rnode, m *model) (string, bool) {
	if n == nil {
		return "", false
	}
	if n.unsup != "" {
		return "", false
	}
	t := n.typ
	switch u := t.Underlying().(type) {
	case *types.Basic:
		switch {
		case u.Info()&types.IsBoolean != 0:
			if m.bool(n.term) {
				return "true", true
			}
			return "false", true
		case u.Info()&types.IsInteger != 0:
			bi, ok := m.int(n.term)
			if !ok {
				return "", false
			}
			if v.sc.isBVType(t) {
				bits, signed, _ := intInfo(t)
				if signed && bi.Bit(bits-1) == 1 {
					bi = new(big.Int).Sub(bi, new(big.Int).Lsh(big.NewInt(1), uint(bits)))
				}
			}
			return fmt.Sprintf("%s(%s)", v.goType(t), bi.String()), true
		case u.Info()&types.IsString != 0:
			ln, ok := m.int(fmt.Sprintf("(str_len %s)", n.term))
			if !ok || !ln.IsInt64() || ln.Int64() > 1<<16 {
				return "", false
			}
			bs := make([]byte, ln.Int64())
			for i := 0; i < len(bs) && i < replayElems; i++ {
				if c, ok := m.int(fmt.Sprintf("(str_at %s %d)", n.term, i)); ok {
					bs[i] = byte(c.Int64())
				}
			}
			return fmt.Sprintf("%s(%q)", v.goType(t), string(bs)), true
		}
	case *types.Slice:
		arr, _ := m.int(fmt.Sprintf("(s_arr %s)", n.term))
		ln, ok1 := m.int(fmt.Sprintf("(s_len %s)", n.term))
		cp, ok2 := m.int(fmt.Sprintf("(s_cap %s)", n.term))
		if !ok1 || !ok2 || !ln.IsInt64() || !cp.IsInt64() || cp.Int64() > 1<<20 {
			return "", false
		}
		if arr != nil && arr.Sign() == 0 {
			return fmt.Sprintf("%s(nil)", v.goType(t)), true
		}
		var b strings.Builder
		fmt.Fprintf(&b, "func() %s { s := make(%s, %d, %d); ", v.goType(t), v.goType(t), ln.Int64(), cp.Int64())
		for i, e := range n.elems {
			if int64(i) >= ln.Int64() {
				break
			}
			ge, ok := v.emit(e, m)
			if !ok {
				return "", false
			}
			fmt.Fprintf(&b, "s[%d] = %s; ", i, ge)
		}
		b.WriteString("return s }()")
		return b.String(), true
	case *types.Pointer:
		p, ok := m.int(n.term)
		if !ok {
			return "", false
		}
		if p.Sign() == 0 {
			return fmt.Sprintf("(%s)(nil)", v.goType(t)), true
		}
		if len(n.kids) == 1 {
			s, ok := v.emitStruct(n.kids[0], m)
			if !ok {
				return "", false
			}
			return "&" + s, true
		}
	case *types.Struct:
		if len(n.field) == u.NumFields() {
			return v.emitStruct(n, m)
		}
	case *types.Map:
		p, ok := m.int(n.term)
		if !ok {
			return "", false
		}
		if p.Sign() == 0 {
			return fmt.Sprintf("%s(nil)", v.goType(t)), true
		}
		return fmt.Sprintf("make(%s)", v.goType(t)), true // contents of maps are not concretised
	}
	return "", false
}

func (v *vc) emitStruct(n *rnode, m *model) (string, bool) {
	s := n.typ.Underlying().(*types.Struct)
	var parts []string
	for i := 0; i < s.NumFields(); i++ {
		f := n.field[i]
		if f == nil {
			continue
		}
		if f.unsup != "" {
			continue // leave zero value; replay is only a confirmation
		}
		ge, ok := v.emit(f, m)
		if !ok {
			continue
		}
		parts = append(parts, fmt.Sprintf("%s: %s", s.Field(i).Name(), ge))
	}
	return fmt.Sprintf("%s{%s}", v.goType(n.typ), strings.Join(parts, ", ")), true
}

type readOp struct {
	param string // reader parameter name
	reach string
	kind  string // binread | readfull
	term  string // value read (binread) / n (readfull)
	bits  int
	signed bool
	errT  string
	pos   int
}

func (v *vc) replay(ob *obligation, work string, rep map[string]interface{}) (bool, string) {
	if v.fn == nil {
		return false, ""
	}
	fn := v.fn
	if fn.Parent() != nil {
		return false, "closure: no generic replay"
	}
	mq := &modelQuery{}
	type parg struct {
		name string
		node *rnode
		reader bool
	}
	var pargs []parg
	for _, p := range fn.Params {
		t := v.paramTV[p.Name()]
		if nt, ok := p.Type().(*types.Named); ok && nt.Obj().Pkg() != nil && nt.Obj().Pkg().Path() == "io" && nt.Obj().Name() == "Reader" {
			pargs = append(pargs, parg{name: p.Name(), reader: true})
			continue
		}
		pargs = append(pargs, parg{name: p.Name(), node: v.plan(mq, t.term, p.Type(), ob.pos, 0)})
	}
	var ops []readOp
	for _, op := range v.readOps {
		if op.pos < ob.pos {
			ops = append(ops, op)
		}
	}
	for _, op := range ops {
		mq.want(op.reach)
		mq.want(op.term)
		if op.errT != "" {
			mq.want(fmt.Sprintf("(= %s nil_iface)", op.errT))
		}
	}
	text := v.smtFor(ob, true, mq.terms)
	file := filepath.Join(work, sanitize(ob.name)+".model.smt2")
	// prefer a small counterexample: every slice/string parameter no longer than what is concretised
	var small []string
	for _, p := range fn.Params {
		t := v.paramTV[p.Name()]
		switch p.Type().Underlying().(type) {
		case *types.Slice:
			small = append(small, fmt.Sprintf("(assert (<= (s_cap %s) %d))", t.term, replayElems))
		case *types.Basic:
			if isString(p.Type()) {
				small = append(small, fmt.Sprintf("(assert (<= (str_len %s) %d))", t.term, replayElems))
			}
		}
	}
	for _, t := range mq.slices {
		small = append(small, fmt.Sprintf("(assert (<= (s_cap %s) %d))", t, replayElems))
	}
	status, out := "", ""
	var first []string
	for _, fe := range v.firstIter {
		if fe.pos < ob.pos {
			first = append(first, fmt.Sprintf("(assert (= %s %s))", fe.a, fe.b))
		}
	}
	if len(first) > 0 {
		// prefer a counterexample on the first iteration of every enclosing loop: a real execution prefix
		os.WriteFile(file, []byte(strings.Replace(text, "(check-sat)", strings.Join(append(first, small...), "\n")+"\n(check-sat)", 1)), 0o644)
		status, out, _ = runSolver(solvers[0], file, 10)
	}
	if status != "sat" && len(small) > 0 {
		os.WriteFile(file, []byte(strings.Replace(text, "(check-sat)", strings.Join(small, "\n")+"\n(check-sat)", 1)), 0o644)
		status, out, _ = runSolver(solvers[0], file, 10)
	}
	if status != "sat" {
		os.WriteFile(file, []byte(text), 0o644)
		status, out, _ = runSolver(solvers[0], file, 20)
	}
	if status != "sat" {
		status, out, _ = runSolver(solvers[2], file, 20)
	}
	if status != "sat" {
		return false, "model extraction failed: " + status
	}
	rest := out[strings.Index(out, "\n")+1:]
	sx := parseSexps(rest)
	if len(sx) == 0 || len(sx[0].list) == 0 {
		return false, "no model values"
	}
	m := &model{q: mq}
	for _, pair := range sx[0].list {
		if len(pair.list) == 2 {
			m.vals = append(m.vals, pair.list[1])
		} else {
			m.vals = append(m.vals, &sexp{atom: "?"})
		}
	}
	inputs := map[string]string{}
	var setup strings.Builder
	var argNames []string
	for i, pa := range pargs {
		an := fmt.Sprintf("a%d", i)
		argNames = append(argNames, an)
		if pa.reader {
			// rebuild the byte stream from the reads on the model's path
			setup.WriteString(fmt.Sprintf("\tvar stream%d []byte\n", i))
			for _, op := range ops {
				if op.param != pa.name || !m.bool(op.reach) {
					continue
				}
				okRead := op.errT == "" || m.bool(fmt.Sprintf("(= %s nil_iface)", op.errT))
				if !okRead {
					break
				}
				val, _ := m.int(op.term)
				if val == nil {
					val = big.NewInt(0)
				}
				switch op.kind {
				case "binread":
					w := new(big.Int).Mod(val, new(big.Int).Lsh(big.NewInt(1), uint(op.bits)))
					bs := w.FillBytes(make([]byte, op.bits/8))
					setup.WriteString(fmt.Sprintf("\tstream%d = append(stream%d, %s...)\n", i, i, byteLit(bs)))
				case "readfull":
					if val.IsInt64() && val.Int64() < 1<<20 {
						setup.WriteString(fmt.Sprintf("\tstream%d = append(stream%d, make([]byte, %d)...)\n", i, i, val.Int64()))
					}
				}
			}
			setup.WriteString(fmt.Sprintf("\t%s := bytes.NewReader(stream%d)\n", an, i))
			inputs[pa.name] = "byte stream rebuilt from the reads on the counterexample path"
			continue
		}
		ge, ok := v.emit(pa.node, m)
		if !ok {
			why := "unsupported parameter type"
			if pa.node != nil && pa.node.unsup != "" {
				why = pa.node.unsup
			}
			return false, fmt.Sprintf("parameter %s cannot be concretised (%s)", pa.name, why)
		}
		inputs[pa.name] = ge
		setup.WriteString(fmt.Sprintf("\t%s := %s\n", an, ge))
	}
	rep["model_inputs"] = inputs
	// call expression
	var call string
	sig := fn.Signature
	if sig.Recv() != nil {
		call = fmt.Sprintf("%s.%s(%s)", argNames[0], fn.Name(), strings.Join(argNames[1:], ", "))
	} else {
		call = fmt.Sprintf("%s(%s)", fn.Name(), strings.Join(argNames, ", "))
	}
	nres := sig.Results().Len()
	var resNames []string
	for i := 0; i < nres; i++ {
		resNames = append(resNames, fmt.Sprintf("r%d", i))
	}
	var body strings.Builder
	body.WriteString(setup.String())
	// the concretised input must establish the contract's preconditions, otherwise a panic proves nothing
	for _, r := range v.fc.requires {
		g := v.newGoConv(pargsNames(fn.Params, argNames), nil)
		ge := g.conv(r.expr, nil)
		if !g.ok {
			return false, fmt.Sprintf("precondition %s cannot be evaluated on the concretised input", r.label)
		}
		body.WriteString(fmt.Sprintf("\tif !(%s) { fmt.Println(\"GOVC-REPLAY-PRECONDITION-FALSE %s\"); return }\n", ge, r.label))
	}
	// the failed postcondition as Go (old(...) values are snapshotted before the call)
	ensuresGo := ""
	if ob.kind == "ensures" {
		for _, e := range v.fc.ensures {
			if e.label != ob.label {
				continue
			}
			g := v.newGoConv(pargsNames(fn.Params, argNames), resNames)
			ge := g.conv(e.expr, nil)
			if g.ok {
				ensuresGo = ge
				for _, s := range g.pre {
					body.WriteString("\t" + s + "\n")
				}
			}
		}
	}
	if nres > 0 {
		body.WriteString(fmt.Sprintf("\t%s := %s\n", strings.Join(resNames, ", "), call))
		for _, r := range resNames {
			body.WriteString(fmt.Sprintf("\t_ = %s\n", r))
		}
	} else {
		body.WriteString("\t" + call + "\n")
	}
	body.WriteString("\tfmt.Println(\"GOVC-REPLAY-RETURNED\")\n")
	ensuresChecked := false
	if ensuresGo != "" {
		body.WriteString(fmt.Sprintf("\tif !(%s) { fmt.Println(\"GOVC-REPLAY-ENSURES-FALSE\") }\n", ensuresGo))
		ensuresChecked = true
	}
	pkgName := fn.Pkg.Pkg.Name()
	src := fmt.Sprintf("package %s\n\nimport (\n\t\"bytes\"\n\t\"fmt\"\n\t\"testing\"\n)\n\nvar _ = bytes.NewReader\n\n// Replay of obligation %s\nfunc TestGovcReplay(t *testing.T) {\n\tdefer func() {\n\t\tif r := recover(); r != nil {\n\t\t\tfmt.Printf(\"GOVC-REPLAY-PANIC: %%v\\n\", r)\n\t\t}\n\t}()\n%s}\n", pkgName, ob.name, body.String())
	rep["replay_test"] = src
	dir := strings.TrimPrefix(fn.Pkg.Pkg.Path(), modPath+"/")
	testPath := filepath.Join(repoRoot, dir, "govc_replay_test.go")
	srcFile := filepath.Join(work, sanitize(ob.name)+"_replay_test.go")
	os.WriteFile(srcFile, []byte(src), 0o644)
	ov, _ := json.Marshal(map[string]interface{}{"Replace": map[string]string{testPath: srcFile}})
	ovFile := filepath.Join(work, sanitize(ob.name)+".overlay.json")
	os.WriteFile(ovFile, ov, 0o644)
	ctx, cancel := context.WithTimeout(context.Background(), 300*time.Second)
	defer cancel()
	cmd := exec.CommandContext(ctx, "go", "test", "-overlay", ovFile, "-vet=off", "-timeout", "60s", "-count=1", "-v", "-run", "^TestGovcReplay$", "./"+dir+"/")
	cmd.Dir = repoRoot
	cmd.Env = append(os.Environ(), "GOFLAGS=-mod=mod", "GOPROXY=off", "GOSUMDB=off", "GOTOOLCHAIN=local")
	outb, _ := cmd.CombinedOutput()
	outs := string(outb)
	rep["replay_output"] = firstLines(outs, 12)
	rep["replay_cmd"] = "cd /repo && go test -overlay <overlay> -vet=off -timeout 60s -count=1 -run '^TestGovcReplay$' ./" + dir + "/"
	switch {
	case strings.Contains(outs, "GOVC-REPLAY-PRECONDITION-FALSE"):
		return false, "concretised input does not establish the precondition: " + lineWith(outs, "GOVC-REPLAY-PRECONDITION-FALSE")
	case strings.Contains(outs, "GOVC-REPLAY-PANIC"):
		if v.fc.nosafety {
			// the contract does not state the function's safety preconditions: a panic on a model input
			// (e.g. a zero-valued receiver) confirms nothing
			return false, "real code panics on the model input, but the contract is nosafety (no safety preconditions stated): not a confirmation"
		}
		if !v.fc.panicsOK {
			// the input satisfies the preconditions, so any run-time panic breaks the no-panic contract
			return true, "real code panics on the model input: " + lineWith(outs, "GOVC-REPLAY-PANIC")
		}
	case strings.Contains(outs, "GOVC-REPLAY-ENSURES-FALSE"):
		return true, "real code returns a result that violates the postcondition on the model input"
	case strings.Contains(outs, "GOVC-REPLAY-RETURNED"):
		if ensuresChecked {
			return false, "real code satisfies the postcondition on the model input (counterexample comes from an abstraction)"
		}
		return false, "real code returned normally on the model input"
	}
	return false, "replay did not run to completion"
}

func pargsNames(params []*ssa.Parameter, argNames []string) map[string]string {
	m := map[string]string{}
	for i, p := range params {
		m[p.Name()] = argNames[i]
	}
	return m
}

func lineWith(s, sub string) string {
	for _, l := range strings.Split(s, "\n") {
		if strings.Contains(l, sub) {
			return strings.TrimSpace(l)
		}
	}
	return ""
}

func byteLit(bs []byte) string {
	parts := make([]string, len(bs))
	for i, b := range bs {
		parts[i] = fmt.Sprintf("0x%02x", b)
	}
	return "[]byte{" + strings.Join(parts, ", ") + "}"
}

// specToGo compiles a contract expression to a Go boolean over the replay variables.
// Only a subset is supported (no old() of heap state); unsupported => ok=false.
func (v *vc) specToGo(e ast.Expr, params map[string]string, results []string) (string, bool) {
	ok := true
	var conv func(e ast.Expr) string
	conv = func(e ast.Expr) string {
		switch x := e.(type) {
		case *ast.BasicLit:
			return x.Value
		case *ast.Ident:
			if p, is := params[x.Name]; is {
				return p
			}
			if x.Name == "result" && len(results) == 1 {
				return results[0]
			}
			if strings.HasPrefix(x.Name, "result") {
				var k int
				if _, err := fmt.Sscanf(x.Name, "result%d", &k); err == nil && k < len(results) {
					return results[k]
				}
			}
			if x.Name == "err" && len(results) > 0 {
				sig := v.fn.Signature
				for i := 0; i < sig.Results().Len(); i++ {
					if sig.Results().At(i).Name() == "err" {
						return results[i]
					}
				}
				return results[len(results)-1]
			}
			sig := v.fn.Signature
			for i := 0; i < sig.Results().Len(); i++ {
				if sig.Results().At(i).Name() == x.Name {
					return results[i]
				}
			}
			return x.Name
		case *ast.ParenExpr:
			return "(" + conv(x.X) + ")"
		case *ast.UnaryExpr:
			return x.Op.String() + conv(x.X)
		case *ast.BinaryExpr:
			return "(" + conv(x.X) + " " + x.Op.String() + " " + conv(x.Y) + ")"
		case *ast.SelectorExpr:
			return conv(x.X) + "." + x.Sel.Name
		case *ast.IndexExpr:
			return conv(x.X) + "[" + conv(x.Index) + "]"
		case *ast.CallExpr:
			id, isId := x.Fun.(*ast.Ident)
			if !isId {
				ok = false
				return "false"
			}
			switch id.Name {
			case "imp":
				return "(!(" + conv(x.Args[0]) + ") || (" + conv(x.Args[1]) + "))"
			case "iff":
				return "((" + conv(x.Args[0]) + ") == (" + conv(x.Args[1]) + "))"
			case "len", "cap", "int", "int64", "uint64", "uint32", "byte":
				return id.Name + "(" + conv(x.Args[0]) + ")"
			case "all", "ex":
				if len(x.Args) != 4 {
					ok = false
					return "false"
				}
				vn := x.Args[0].(*ast.Ident).Name
				if id.Name == "all" {
					return fmt.Sprintf("func() bool { for %s := int(%s); %s < int(%s); %s++ { if !(%s) { return false } }; return true }()", vn, conv(x.Args[1]), vn, conv(x.Args[2]), vn, conv(x.Args[3]))
				}
				return fmt.Sprintf("func() bool { for %s := int(%s); %s < int(%s); %s++ { if %s { return true } }; return false }()", vn, conv(x.Args[1]), vn, conv(x.Args[2]), vn, conv(x.Args[3]))
			}
			ok = false
			return "false"
		}
		ok = false
		return "false"
	}
	_ = token.ADD
	s := conv(e)
	return s, ok
}
