package main

// Symbolic execution of one SSA function body: loop cutting, block merge, instruction semantics.

import (
	"fmt"
	"go/constant"
	"go/token"
	"go/types"
	"math/big"
	"sort"
	"strings"

	"golang.org/x/tools/go/ssa"
)

type loopInfo struct {
	header  *ssa.BasicBlock
	body    map[*ssa.BasicBlock]bool
	backs   []*ssa.BasicBlock // sources of back edges
	ordinal int
	minPos  token.Pos
}

type fnInfo struct {
	loops    map[*ssa.BasicBlock]*loopInfo
	order    []*ssa.BasicBlock
	backEdge map[[2]int]bool
	bad      string
}

func analyzeFn(fn *ssa.Function) *fnInfo {
	fi := &fnInfo{loops: map[*ssa.BasicBlock]*loopInfo{}, backEdge: map[[2]int]bool{}}
	if len(fn.Blocks) == 0 {
		return fi
	}
	// back edges: u->h where h dominates u
	for _, u := range fn.Blocks {
		for _, h := range u.Succs {
			if h.Dominates(u) {
				fi.backEdge[[2]int{u.Index, h.Index}] = true
				li := fi.loops[h]
				if li == nil {
					li = &loopInfo{header: h, body: map[*ssa.BasicBlock]bool{h: true}}
					fi.loops[h] = li
				}
				li.backs = append(li.backs, u)
			}
		}
	}
	for _, li := range fi.loops {
		var stack []*ssa.BasicBlock
		for _, u := range li.backs {
			if !li.body[u] {
				li.body[u] = true
				stack = append(stack, u)
			}
		}
		for len(stack) > 0 {
			b := stack[len(stack)-1]
			stack = stack[:len(stack)-1]
			for _, p := range b.Preds {
				if !li.body[p] {
					li.body[p] = true
					stack = append(stack, p)
				}
			}
		}
		li.minPos = token.Pos(1 << 40)
		for b := range li.body {
			for _, in := range b.Instrs {
				if _, isDbg := in.(*ssa.DebugRef); isDbg {
					continue
				}
				if _, isPhi := in.(*ssa.Phi); isPhi {
					continue // a phi carries the position of the variable's declaration
				}
				if _, isAlloc := in.(*ssa.Alloc); isAlloc {
					continue
				}
				if p := in.Pos(); p.IsValid() && p < li.minPos {
					li.minPos = p
				}
			}
		}
	}
	var ls []*loopInfo
	for _, li := range fi.loops {
		ls = append(ls, li)
	}
	sort.Slice(ls, func(i, j int) bool {
		if ls[i].minPos != ls[j].minPos {
			return ls[i].minPos < ls[j].minPos
		}
		if len(ls[i].body) != len(ls[j].body) {
			return len(ls[i].body) > len(ls[j].body)
		}
		return ls[i].header.Index < ls[j].header.Index
	})
	for i, li := range ls {
		li.ordinal = i + 1
	}
	// reverse postorder ignoring back edges
	seen := map[*ssa.BasicBlock]bool{}
	var post []*ssa.BasicBlock
	var dfs func(b *ssa.BasicBlock)
	dfs = func(b *ssa.BasicBlock) {
		seen[b] = true
		for _, s := range b.Succs {
			if fi.backEdge[[2]int{b.Index, s.Index}] || seen[s] {
				continue
			}
			dfs(s)
		}
		post = append(post, b)
	}
	dfs(fn.Blocks[0])
	for i := len(post) - 1; i >= 0; i-- {
		fi.order = append(fi.order, post[i])
	}
	return fi
}

func (v *vc) localKey(fr *frame, a *ssa.Alloc) string {
	return fmt.Sprintf("%s%s.%s", fr.prefix, a.Parent().Name(), a.Name())
}

// val returns the SMT term of an SSA value in a frame.
func (v *vc) val(fr *frame, st *state, x ssa.Value) string {
	if t, ok := fr.vals[x]; ok {
		return t
	}
	switch c := x.(type) {
	case *ssa.Const:
		return v.constTerm(c)
	case *ssa.Global:
		// pointer to a global: only meaningful through load/store (addrOf)
		return v.fresh("globalptr")
	case *ssa.Function:
		return fmt.Sprintf("%d", 1000000+v.sc.typeID(types.NewPointer(types.Typ[types.Int]))*0+v.funcID(c))
	case *ssa.FreeVar:
		if fr.parent != nil {
			// resolved at closure creation
		}
	case *ssa.Builtin:
		return "0"
	}
	if _, ok := fr.addrs[x]; ok {
		// interior pointer escaping as a value
		v.note("interior pointer used as a value: %s in %s", x.Name(), fr.fn.Name())
		n := v.fresh("iptr")
		v.decl(n, "Int")
		v.rawFact(fmt.Sprintf("(> %s 0)", n))
		fr.vals[x] = n
		return n
	}
	v.note("unresolved value %s (%T) in %s", x.Name(), x, fr.fn.Name())
	n := v.havoc("unres", x.Type(), st)
	fr.vals[x] = n
	return n
}

func (v *vc) funcID(f *ssa.Function) int {
	return v.sc.typeID(types.NewNamed(types.NewTypeName(0, nil, "func "+f.String(), nil), types.Typ[types.Int], nil))
}

func (v *vc) constTerm(c *ssa.Const) string {
	t := c.Type()
	if c.Value == nil {
		return v.sc.zero(t)
	}
	switch c.Value.Kind() {
	case constant.Bool:
		if constant.BoolVal(c.Value) {
			return "true"
		}
		return "false"
	case constant.Int:
		bi, _ := new(big.Int).SetString(c.Value.ExactString(), 10)
		if isFloat(t) {
			return fmt.Sprintf("(uf_i2f %s)", intTerm(bi))
		}
		return v.sc.intLit(bi, t)
	case constant.String:
		return v.strConst(constant.StringVal(c.Value))
	case constant.Float:
		if isFloat(t) {
			return v.floatConst(c.Value.ExactString())
		}
		if f, ok := constant.Float64Val(c.Value); ok {
			return v.sc.intLit(big.NewInt(int64(f)), t)
		}
	}
	return v.sc.zero(t)
}

func (v *vc) floatConst(s string) string {
	k := "float " + s
	if n, ok := v.sc.strConst[k]; ok {
		return n
	}
	n := q(k)
	v.sc.strConst[k] = n
	v.eng.mu.Lock()
	v.eng.mu.Unlock()
	v.sc.decls = append(v.sc.decls, fmt.Sprintf("(declare-const %s F64)", n))
	return n
}

func (v *vc) strConst(s string) string {
	if s == "" {
		return "str_empty"
	}
	k := "str " + s
	if n, ok := v.sc.strConst[k]; ok {
		return n
	}
	disp := s
	if len(disp) > 40 {
		disp = fmt.Sprintf("%s..#%d", disp[:40], len(v.sc.strConst))
	}
	n := q(fmt.Sprintf("str %q", disp))
	v.sc.strConst[k] = n
	id := len(v.sc.strConst)
	d := fmt.Sprintf("(declare-const %s Str)\n(assert (= (str_len %s) %d))\n(assert (= (str_id %s) %d))", n, n, len(s), n, id)
	if len(s) <= 32 {
		for i := 0; i < len(s); i++ {
			d += fmt.Sprintf("\n(assert (= (str_at %s %d) %d))", n, i, s[i])
		}
	}
	v.sc.decls = append(v.sc.decls, d)
	return n
}

// ---------- running a function body ----------

func (v *vc) runBody(fr *frame, st0 *state) []returnPoint {
	fn := fr.fn
	fi := v.eng.fnInfo(fn)
	in := map[*ssa.BasicBlock]*state{}
	out := map[*ssa.BasicBlock]*state{}
	hdrEntry := map[*ssa.BasicBlock]*state{}
	hdrMeasure := map[*ssa.BasicBlock]string{}
	for _, b := range fi.order {
		var st *state
		li := fi.loops[b]
		if b.Index == 0 && len(b.Preds) == 0 {
			st = st0
		} else {
			var edges []edge
			var edgePreds []*ssa.BasicBlock
			if b.Index == 0 {
				edges = append(edges, edge{cond: st0.reach, st: st0})
				edgePreds = append(edgePreds, nil)
			}
			for _, p := range b.Preds {
				if fi.backEdge[[2]int{p.Index, b.Index}] {
					continue
				}
				ps := out[p]
				if ps == nil {
					continue
				}
				c := v.edgeCond(fr, ps, p, b)
				if c == "false" {
					continue
				}
				edges = append(edges, edge{cond: v.define("edge", "Bool", c), st: ps})
				edgePreds = append(edgePreds, p)
			}
			if len(edges) == 0 {
				continue // unreachable
			}
			st = v.merge(edges)
			// phis
			for _, in := range b.Instrs {
				phi, ok := in.(*ssa.Phi)
				if !ok {
					break
				}
				terms := make([]string, len(edges))
				isAddr := false
				for i, e := range edges {
					var x ssa.Value
					if edgePreds[i] == nil {
						x = phi.Edges[0]
					} else {
						for k, p := range b.Preds {
							if p == edgePreds[i] {
								x = phi.Edges[k]
							}
						}
					}
					if _, ok := fr.addrs[x]; ok {
						if _, has := fr.vals[x]; !has {
							isAddr = true
						}
					}
					terms[i] = v.val(fr, e.st, x)
				}
				_ = isAddr
				expr := terms[len(terms)-1]
				for i := len(terms) - 2; i >= 0; i-- {
					expr = ite(edges[i].cond, terms[i], expr)
				}
				fr.vals[phi] = v.define(phi.Name(), v.sc.sortOf(phi.Type()), expr)
			}
		}
		if li != nil {
			st = v.enterLoop(fr, st, li, hdrEntry, hdrMeasure)
		}
		in[b] = st
		cur := st.clone()
		alive := true
		for _, instr := range b.Instrs {
			if _, ok := instr.(*ssa.Phi); ok {
				continue
			}
			if !v.execInstr(fr, cur, instr) {
				alive = false
				break
			}
		}
		if !alive {
			continue
		}
		out[b] = cur
		// back edges: check invariant preservation
		for _, s := range b.Succs {
			if fi.backEdge[[2]int{b.Index, s.Index}] {
				c := v.edgeCond(fr, cur, b, s)
				bs := cur.clone()
				bs.reach = v.define("backedge", "Bool", c)
				v.checkBackEdge(fr, bs, b, fi.loops[s], hdrEntry, hdrMeasure)
			}
		}
	}
	return fr.results
}

func (v *vc) edgeCond(fr *frame, ps *state, p, b *ssa.BasicBlock) string {
	last := p.Instrs[len(p.Instrs)-1]
	if iff, ok := last.(*ssa.If); ok {
		c := v.val(fr, ps, iff.Cond)
		if p.Succs[0] == b && p.Succs[1] == b {
			return ps.reach
		}
		if p.Succs[0] == b {
			return and(ps.reach, c)
		}
		return and(ps.reach, not(c))
	}
	return ps.reach
}

// loop handling -----------------------------------------------------------

func (v *vc) loopSpecFor(fr *frame, li *loopInfo) *loopSpec {
	if fr.fc == nil {
		return nil
	}
	return fr.fc.loops[li.ordinal]
}

func (v *vc) phiEnv(fr *frame, h *ssa.BasicBlock, pick func(phi *ssa.Phi) string) map[string]tv {
	env := map[string]tv{}
	for _, in := range h.Instrs {
		phi, ok := in.(*ssa.Phi)
		if !ok {
			break
		}
		if phi.Comment != "" {
			env[phi.Comment] = tv{term: pick(phi), typ: phi.Type()}
		}
		env[phi.Name()] = tv{term: pick(phi), typ: phi.Type()}
	}
	return env
}

func (v *vc) enterLoop(fr *frame, st *state, li *loopInfo, hdrEntry map[*ssa.BasicBlock]*state, hdrMeasure map[*ssa.BasicBlock]string) *state {
	h := li.header
	ls := v.loopSpecFor(fr, li)
	site := fmt.Sprintf("loop%d", li.ordinal)
	if !fr.top {
		v.note("loop inside inlined function %s", fr.fn.Name())
	}
	// inv-init with phi values from entry
	for _, ai := range v.loopAutoInv(fr, st, h, func(phi *ssa.Phi) string { return fr.vals[phi] }) {
		v.oblige(st, "inv-init", ai.label, site, ai.term, nil)
	}
	v.recordLoopEntry(h, v.phiEnv(fr, h, func(phi *ssa.Phi) string { return fr.vals[phi] }), st)
	if ls != nil {
		env := v.phiEnv(fr, h, func(phi *ssa.Phi) string { return fr.vals[phi] })
		for _, c := range ls.invariants {
			se := v.newSpecEnv(fr, st, h)
			se.overrides = env
			t := se.evalGoal(c.expr)
			v.oblige(st, "inv-init", c.label, site, t, c.props)
		}
	}
	// havoc
	n := st.clone()
	mod := v.loopModSet(fr, li)
	if mod.allocs || mod.all {
		nt := v.fresh("top")
		v.decl(nt, "Int")
		v.fact(n, fmt.Sprintf("(>= %s %s)", nt, st.top))
		n.top = nt
	}
	if mod.all {
		n.epoch = v.newEpoch(true, nil)
		v.epochs[n.epoch].top = n.top
		n.heaps = map[string]string{}
	} else {
		for _, hname := range sortedKeys(mod.heaps) {
			sort, ok := v.heapSort[hname]
			if !ok {
				continue
			}
			nh := v.fresh(hname)
			v.decl(nh, sort)
			v.heapAxiom(nh, hname, n.top)
			v.firstIter = append(v.firstIter, firstIterEq{pos: len(v.items), a: nh, b: v.getHeap(st, hname)})
			n.heaps[hname] = nh
		}
	}
	for _, k := range sortedKeys(mod.locals) {
		if _, ok := n.locals[k]; ok {
			nl := v.fresh("loc")
			v.decl(nl, v.localSorts[k])
			n.locals[k] = nl
			if t := mod.localTypes[k]; t != nil {
				if inv := v.sc.typeInv(nl, t); inv != "" {
					v.fact(n, inv)
				}
			}
		}
	}
	for _, g := range sortedKeys(n.ghost) {
		if strings.HasPrefix(g, balPrefix) {
			continue // not havocked: every back edge proves the iteration left it as it was (lockbalance.go)
		}
		if mod.ghostAll || mod.ghost[g] {
			ng := v.fresh("ghost " + g)
			v.decl(ng, v.ghostSorts[g])
			n.ghost[g] = ng
		}
	}
	for _, in := range h.Instrs {
		phi, ok := in.(*ssa.Phi)
		if !ok {
			break
		}
		entryVal := fr.vals[phi]
		// a phi that only merges values arriving from outside the loop (every back edge carries the phi
		// itself) is not changed by the loop: it keeps the value it has on entry
		unchanged := true
		for i, pred := range h.Preds {
			isBack := false
			for _, b := range li.backs {
				if b == pred {
					isBack = true
				}
			}
			if isBack && i < len(phi.Edges) && phi.Edges[i] != ssa.Value(phi) {
				unchanged = false
			}
		}
		if unchanged && len(li.backs) > 0 {
			continue
		}
		fr.vals[phi] = v.havoc(phi.Name()+"."+phi.Comment, phi.Type(), n)
		v.firstIter = append(v.firstIter, firstIterEq{pos: len(v.items), a: fr.vals[phi], b: entryVal})
	}
	hdrEntry[h] = st
	for _, ai := range v.loopAutoInv(fr, n, h, func(phi *ssa.Phi) string { return fr.vals[phi] }) {
		v.fact(n, ai.term)
	}
	if fr.top && !mod.all {
		for _, hname := range sortedKeys(mod.heaps) {
			if f := v.frameFormula(fr, st, hname); f != "" {
				v.oblige(st, "inv-init", "auto-frame "+hname, site, f, nil)
			}
			if f := v.frameFormula(fr, n, hname); f != "" {
				v.fact(n, f)
			}
		}
	}
	if ls != nil {
		henv := v.phiEnv(fr, h, func(phi *ssa.Phi) string { return fr.vals[phi] })
		for _, c := range ls.assumes {
			se := v.newSpecEnv(fr, n, h)
			se.overrides = henv
			v.fact(n, se.evalAssume(c.expr))
			v.trusted[fmt.Sprintf("ASSUMED loop invariant (not proved) in %s loop %d: %s: %s", v.fnName, li.ordinal, c.label, c.text)] = true
		}
		for _, c := range ls.invariants {
			se := v.newSpecEnv(fr, n, h)
			se.overrides = henv
			t := se.evalAssume(c.expr)
			v.curOrigin = "inv:" + c.label + "@" + site
			v.fact(n, t)
			v.curOrigin = ""
		}
		if ls.decreases != nil {
			se := v.newSpecEnv(fr, n, h)
			se.overrides = henv
			m := se.evalInt(ls.decreases.expr)
			hdrMeasure[h] = v.define("measure", "Int", m)
		}
	}
	v.cover(n, site+"-body", "true")
	return n
}

func (v *vc) checkBackEdge(fr *frame, st *state, from *ssa.BasicBlock, li *loopInfo, hdrEntry map[*ssa.BasicBlock]*state, hdrMeasure map[*ssa.BasicBlock]string) {
	ls := v.loopSpecFor(fr, li)
	h := li.header
	site := fmt.Sprintf("loop%d", li.ordinal)
	pick := func(phi *ssa.Phi) string {
		for k, p := range h.Preds {
			if p == from {
				return v.val(fr, st, phi.Edges[k])
			}
		}
		return fr.vals[phi]
	}
	for _, ai := range v.loopAutoInv(fr, st, h, pick) {
		v.oblige(st, "inv-keep", ai.label, site, ai.term, nil)
	}
	v.balanceAtBackEdge(fr, st, hdrEntry[h], site)
	if fr.top {
		if mod := v.loopModSet(fr, li); !mod.all {
			for _, hname := range sortedKeys(mod.heaps) {
				if f := v.frameFormula(fr, st, hname); f != "" {
					v.oblige(st, "inv-keep", "auto-frame "+hname, site, f, nil)
				}
			}
		}
	}
	if ls == nil {
		return
	}
	env := v.phiEnv(fr, h, pick)
	for _, c := range ls.invariants {
		se := v.newSpecEnv(fr, st, h)
		se.overrides = env
		t := se.evalGoal(c.expr)
		v.oblige(st, "inv-keep", c.label, site, t, c.props)
	}
	if ls.decreases != nil {
		se := v.newSpecEnv(fr, st, h)
		se.overrides = env
		m := se.evalInt(ls.decreases.expr)
		m0 := hdrMeasure[h]
		v.oblige(st, "decreases", "", site, fmt.Sprintf("(and (>= %s 0) (< %s %s))", m0, m, m0), nil)
	}
}

type modSet struct {
	all        bool
	heaps      map[string]bool
	locals     map[string]bool
	localTypes map[string]types.Type
	ghost      map[string]bool
	ghostAll   bool
	allocs     bool
}

func newModSet() *modSet {
	return &modSet{heaps: map[string]bool{}, locals: map[string]bool{}, localTypes: map[string]types.Type{}, ghost: map[string]bool{}}
}

func (v *vc) loopModSet(fr *frame, li *loopInfo) *modSet {
	m := newModSet()
	for b := range li.body {
		for _, in := range b.Instrs {
			v.instrMods(fr, in, m, 0)
		}
	}
	if fr.fc != nil && len(fr.fc.ghostAt) > 0 {
		// ghosts are havocked only by loops that contain one of their update sites
		sites := v.eng.callSites(fr.fn)
		for b := range li.body {
			for _, in := range b.Instrs {
				s, ok := sites[in]
				if !ok {
					continue
				}
				for _, g := range fr.fc.ghostAt {
					w := g.where
					if k := strings.Index(w, " in "); k >= 0 {
						// update inside an inlined callee: attribute it to every call in the loop (conservative)
						m.ghost[ghostBase(g.name)] = true
						continue
					}
					if w == "before "+s || w == "after "+s {
						m.ghost[ghostBase(g.name)] = true
					}
				}
			}
		}
	}
	return m
}

// ---------- instructions ----------

func (v *vc) execInstr(fr *frame, st *state, instr ssa.Instruction) bool {
	switch in := instr.(type) {
	case *ssa.DebugRef:
		return true
	case *ssa.Alloc:
		v.execAlloc(fr, st, in)
	case *ssa.BinOp:
		fr.vals[in] = v.binop(fr, st, in)
	case *ssa.UnOp:
		v.unop(fr, st, in)
	case *ssa.Convert:
		fr.vals[in] = v.convert(fr, st, in)
	case *ssa.ChangeType:
		fr.vals[in] = v.val(fr, st, in.X)
		if a, ok := fr.addrs[in.X]; ok {
			fr.addrs[in] = a
		}
	case *ssa.ChangeInterface:
		fr.vals[in] = v.val(fr, st, in.X)
	case *ssa.MakeInterface:
		fr.vals[in] = v.makeIface(fr, st, in)
	case *ssa.TypeAssert:
		v.typeAssert(fr, st, in)
	case *ssa.Extract:
		tup := fr.tuple(in.Tuple)
		if tup == nil || in.Index >= len(tup) {
			v.note("extract from unknown tuple in %s", fr.fn.Name())
			fr.vals[in] = v.havoc("extract", in.Type(), st)
		} else {
			fr.vals[in] = tup[in.Index]
		}
	case *ssa.Field:
		x := v.val(fr, st, in.X)
		fr.vals[in] = v.define(in.Name(), v.sc.sortOf(in.Type()), fmt.Sprintf("(%s %s)", v.sc.structSel(in.X.Type(), in.Field), x))
	case *ssa.FieldAddr:
		v.fieldAddr(fr, st, in)
	case *ssa.IndexAddr:
		v.indexAddr(fr, st, in)
	case *ssa.Index:
		v.index(fr, st, in)
	case *ssa.Slice:
		v.sliceOp(fr, st, in)
	case *ssa.MakeSlice:
		v.makeSlice(fr, st, in)
	case *ssa.MakeMap:
		ref := v.alloc(st, "map")
		mt := in.Type().Underlying().(*types.Map)
		_, dom, ln := v.mapHeaps(mt)
		ks := v.sc.sortOf(mt.Key())
		v.setHeap(st, dom, v.heapSort[dom], sto(v.getHeap(st, dom), ref, fmt.Sprintf("((as const (Array %s Bool)) false)", ks)))
		v.setHeap(st, ln, v.heapSort[ln], sto(v.getHeap(st, ln), ref, "0"))
		fr.vals[in] = ref
	case *ssa.MakeChan:
		fr.vals[in] = v.alloc(st, "chan")
	case *ssa.MakeClosure:
		id := v.alloc(st, "closure")
		fr.vals[in] = id
		fr.closures()[in] = in
	case *ssa.Lookup:
		v.lookup(fr, st, in)
		v.noteGuardedLookup(fr, st, in)
	case *ssa.MapUpdate:
		if site := v.callSite(in); fr.top && fr.fc != nil && site != "" {
			v.curBlock = in.Block()
			for _, cl := range fr.fc.callRequires[site] {
				se := v.newSpecEnv(fr, st, in.Block())
				v.oblige(st, "typestate", cl.label, site, se.evalGoal(cl.expr), cl.props)
			}
		}
		v.mapUpdate(fr, st, in)
		v.instrHookNamed(fr, st, in, []string{v.val(fr, st, in.Key)}, []types.Type{in.Key.Type()}, []string{"mapkey"})
	case *ssa.Range:
		fr.vals[in] = "0"
		fr.ranges()[in] = in.X
		if mt, ok := in.X.Type().Underlying().(*types.Map); ok {
			// the set of keys already produced by this iteration: empty
			k := v.rangeSeenKey(fr, in)
			v.localSorts[k] = fmt.Sprintf("(Array %s Bool)", v.sc.sortOf(mt.Key()))
			st.locals[k] = fmt.Sprintf("((as const %s) false)", v.localSorts[k])
		}
	case *ssa.Next:
		v.next(fr, st, in)
	case *ssa.Call:
		v.goCaptureCheck(fr, st, in)
		v.execCall(fr, st, in, in.Common(), in)
	case *ssa.Defer:
		st.defers = append(st.defers, deferEntry{guard: "true", instr: in, fr: fr})
	case *ssa.Go:
		v.goCaptureCheck(fr, st, in)
		v.note("goroutine spawn not modelled (no interleaving semantics): %s in %s", calleeName(in.Common()), fr.fn.Name())
	case *ssa.RunDefers:
		v.runDefers(fr, st)
	case *ssa.Return:
		vals := make([]string, len(in.Results))
		for i, r := range in.Results {
			vals[i] = v.val(fr, st, r)
		}
		fr.results = append(fr.results, returnPoint{st: st.clone(), vals: vals})
		if fr.top {
			v.retBlock = in.Block()
			v.atReturn(fr, st, vals, len(fr.results))
		}
		return false
	case *ssa.Panic:
		if fr.top && fr.fc != nil && fr.fc.panicsOK {
			return false
		}
		v.oblige(st, "safety", "panic", v.site(in), "false", nil)
		return false
	case *ssa.If, *ssa.Jump:
		return true
	case *ssa.Store:
		v.execStore(fr, st, in)
	case *ssa.Send:
		// no effect on modelled state; "at after send#k" ghost updates may refer to the value as sendval
		v.instrHook(fr, st, in, []string{v.val(fr, st, in.X)}, []types.Type{in.X.Type()}, "sendval")
	case *ssa.Select:
		v.execSelect(fr, st, in)
		tup := fr.selects()[in]
		names := []string{}
		var ts []types.Type
		// selectidx, then one selectrecvK per state (zero for send states)
		vals := []string{tup[0]}
		ts = append(ts, types.Typ[types.Int])
		names = append(names, "selectidx")
		k := 2
		for i, s := range in.States {
			if s.Dir == types.RecvOnly {
				vals = append(vals, tup[k])
				ts = append(ts, s.Chan.Type().Underlying().(*types.Chan).Elem())
				names = append(names, fmt.Sprintf("selectrecv%d", i))
				k++
			}
		}
		v.instrHookNamed(fr, st, in, vals, ts, names)
	default:
		v.note("unsupported instruction %T in %s", instr, fr.fn.Name())
		if val, ok := instr.(ssa.Value); ok {
			fr.vals[val] = v.havoc("unsup", val.Type(), st)
		}
		v.havocAll(st)
	}
	return true
}

func (v *vc) site(in ssa.Instruction) string {
	// position-independent site id: ordinal of the instruction kind inside its function
	fn := in.Parent()
	k := 0
	kind := fmt.Sprintf("%T", in)
	for _, b := range fn.Blocks {
		for _, x := range b.Instrs {
			if fmt.Sprintf("%T", x) == kind {
				k++
				if x == in {
					return fmt.Sprintf("%s#%d", strings.TrimPrefix(kind, "*ssa."), k)
				}
			}
		}
	}
	return kind
}

func (fr *frame) tuple(x ssa.Value) []string {
	if fr.tuples == nil {
		return nil
	}
	return fr.tuples[x]
}

func (v *vc) havocAll(st *state) {
	old := st.clone()
	defer v.restorePreserved(st, old)
	st.epoch = v.newEpoch(true, nil)
	st.heaps = map[string]string{}
	nt := v.fresh("top")
	v.decl(nt, "Int")
	v.fact(st, fmt.Sprintf("(>= %s %s)", nt, st.top))
	st.top = nt
	v.epochs[st.epoch].top = nt
}

func (v *vc) execAlloc(fr *frame, st *state, in *ssa.Alloc) {
	et := in.Type().Underlying().(*types.Pointer).Elem()
	switch u := et.Underlying().(type) {
	case *types.Struct:
		if !isTime(et) && !in.Heap && !ptrEscapes(in, map[ssa.Value]bool{}) {
			// a struct temporary whose address never leaves the function: a local value, not a heap object
			k := v.localKey(fr, in)
			v.localSorts[k] = v.sc.sortOf(et)
			fr.addrs[in] = &addr{kind: aLocal, key: k, typ: et}
			st.locals[k] = v.sc.zero(et)
			return
		}
		if !isTime(et) {
			ref := v.alloc(st, in.Name())
			v.storeStruct(st, ref, et, v.sc.zero(et))
			fr.vals[in] = ref
			var hs []string
			for i := 0; i < u.NumFields(); i++ {
				h, _ := v.fieldHeap(et, i)
				hs = append(hs, h)
			}
			v.notePreserved(st, in, hs, ref)
			return
		}
	case *types.Array:
		ref := v.alloc(st, in.Name())
		if isStruct(u.Elem()) {
			// array of structs: elements are objects elem(ref,i); zero them pointwise when small
			if u.Len() <= 8 {
				for i := int64(0); i < u.Len(); i++ {
					v.storeStruct(st, v.elemRef(st, ref, fmt.Sprint(i)), u.Elem(), v.sc.zero(u.Elem()))
				}
			} else {
				v.note("large array of structs zero-init not modelled")
			}
		} else {
			h, sort := v.elemHeap(u.Elem())
			v.setHeap(st, h, sort, sto(v.getHeap(st, h), ref, v.sc.zero(et)))
		}
		fr.vals[in] = ref
		fr.arrRefs()[in] = u
		return
	}
	if in.Heap {
		ref := v.alloc(st, in.Name())
		a := &addr{kind: aCell, base: ref, typ: et}
		v.store(st, a, v.sc.zero(et))
		fr.vals[in] = ref
		h, _ := v.cellHeap(et)
		v.notePreserved(st, in, []string{h}, ref)
		return
	}
	k := v.localKey(fr, in)
	v.localSorts[k] = v.sc.sortOf(et)
	a := &addr{kind: aLocal, key: k, typ: et}
	fr.addrs[in] = a
	st.locals[k] = v.sc.zero(et)
}

// addrOf resolves a pointer-typed SSA value to an address for load/store.
func (v *vc) addrOf(fr *frame, st *state, p ssa.Value) *addr {
	if a, ok := fr.addrs[p]; ok {
		return a
	}
	if g, ok := p.(*ssa.Global); ok {
		et := g.Type().Underlying().(*types.Pointer).Elem()
		return &addr{kind: aGlobal, key: g.String(), typ: et}
	}
	pt, ok := p.Type().Underlying().(*types.Pointer)
	if !ok {
		return nil
	}
	ref := v.val(fr, st, p)
	et := pt.Elem()
	if arr, ok := et.Underlying().(*types.Array); ok {
		// pointer to a heap array object: its contents live in the element heap row
		_ = arr
		h, _ := v.elemHeap(arr.Elem())
		_ = h
		return &addr{kind: aCell, base: ref, typ: et, key: "array"}
	}
	return &addr{kind: aCell, base: ref, typ: et}
}

func (v *vc) nilCheck(fr *frame, st *state, ref string, in ssa.Instruction) {
	if v.noSafety(fr) {
		v.fact(st, fmt.Sprintf("(not (= %s 0))", ref))
		return
	}
	if strings.HasPrefix(ref, "|") && v.nonNil[ref] {
		return
	}
	v.oblige(st, "safety", "nil", v.site(in), fmt.Sprintf("(not (= %s 0))", ref), nil)
	v.nonNil[ref] = true
}

func (v *vc) loadAddr(fr *frame, st *state, a *addr, in ssa.Instruction) string {
	if a.kind == aCell && a.key == "array" {
		arr := a.typ.Underlying().(*types.Array)
		if isStruct(arr.Elem()) {
			v.note("load of whole array of structs")
			return v.havoc("arr", a.typ, st)
		}
		h, _ := v.elemHeap(arr.Elem())
		return sel(v.getHeap(st, h), a.base)
	}
	return v.load(st, a)
}

func (v *vc) unop(fr *frame, st *state, in *ssa.UnOp) {
	switch in.Op {
	case token.MUL: // load
		a := v.addrOf(fr, st, in.X)
		if a == nil {
			v.note("load through unsupported pointer in %s", fr.fn.Name())
			fr.vals[in] = v.havoc("load", in.Type(), st)
			return
		}
		if a.kind == aCell || a.kind == aField {
			v.nilCheck(fr, st, a.base, in)
		}
		t := v.loadAddr(fr, st, a, in)
		name := v.define(in.Name(), v.sc.sortOf(in.Type()), t)
		fr.vals[in] = name
		if a.kind != aLocal && a.kind != aPath {
			if inv := v.sc.typeInv(name, in.Type()); inv != "" {
				v.fact(st, inv)
			}
			v.refFacts(st, name, in.Type())
		}
		if a.kind == aGlobal {
			v.globalFacts(st, a, name)
		}
	case token.NOT:
		fr.vals[in] = not(v.val(fr, st, in.X))
	case token.SUB:
		x := v.val(fr, st, in.X)
		t := in.Type()
		if isFloat(t) {
			fr.vals[in] = fmt.Sprintf("(uf_fneg %s)", x)
			return
		}
		if v.sc.isBVType(t) {
			fr.vals[in] = v.define(in.Name(), v.sc.sortOf(t), fmt.Sprintf("(bvneg %s)", x))
			return
		}
		r := fmt.Sprintf("(- %s)", x)
		fr.vals[in] = v.define(in.Name(), "Int", v.wrapOrCheck(fr, st, in, r, t))
	case token.XOR:
		x := v.val(fr, st, in.X)
		t := in.Type()
		if v.sc.isBVType(t) {
			fr.vals[in] = v.define(in.Name(), v.sc.sortOf(t), fmt.Sprintf("(bvnot %s)", x))
			return
		}
		_, signed, _ := intInfo(t)
		if signed {
			fr.vals[in] = v.define(in.Name(), "Int", fmt.Sprintf("(- (- %s) 1)", x))
		} else {
			_, hi, _ := rangeOf(t)
			fr.vals[in] = v.define(in.Name(), "Int", fmt.Sprintf("(- %s %s)", hi, x))
		}
	case token.ARROW:
		v.recv(fr, st, in)
	default:
		v.note("unsupported unop %s", in.Op)
		fr.vals[in] = v.havoc("unop", in.Type(), st)
	}
}

func (v *vc) globalFacts(st *state, a *addr, name string) {
	if !isIface(a.typ) {
		return
	}
	// package-level error sentinels: non-nil, pairwise distinct, never reassigned (assumption)
	if !v.sentinels[a.key] {
		v.sentinels[a.key] = true
	}
}

func (v *vc) execStore(fr *frame, st *state, in *ssa.Store) {
	a := v.addrOf(fr, st, in.Addr)
	val := v.val(fr, st, in.Val)
	if a == nil {
		v.note("store through unsupported pointer in %s", fr.fn.Name())
		v.havocAll(st)
		return
	}
	if a.kind == aCell || a.kind == aField {
		v.nilCheck(fr, st, a.base, in)
	}
	if a.kind == aCell && a.key == "array" {
		arr := a.typ.Underlying().(*types.Array)
		if isStruct(arr.Elem()) {
			v.note("store of whole array of structs")
			v.havocAll(st)
			return
		}
		h, sort := v.elemHeap(arr.Elem())
		v.setHeap(st, h, sort, sto(v.getHeap(st, h), a.base, val))
		return
	}
	v.store(st, a, val)
}

func (v *vc) fieldAddr(fr *frame, st *state, in *ssa.FieldAddr) {
	stt := in.X.Type().Underlying().(*types.Pointer).Elem()
	ft := stt.Underlying().(*types.Struct).Field(in.Field).Type()
	var a *addr
	if ra, ok := fr.addrs[in.X]; ok {
		// X is the address of a struct-valued slot
		a = &addr{kind: aPath, root: ra, steps: []step{{field: in.Field, typ: stt}}, typ: ft}
		if ra.kind == aPath {
			a = &addr{kind: aPath, root: ra.root, steps: append(append([]step{}, ra.steps...), step{field: in.Field, typ: stt}), typ: ft}
		}
	} else {
		ref := v.val(fr, st, in.X)
		v.nilCheck(fr, st, ref, in)
		a = &addr{kind: aField, base: ref, st: stt, fi: in.Field, typ: ft}
		v.guardAccess(fr, st, in, ref, stt)
	}
	fr.addrs[in] = a
}

func (v *vc) boundsCheck(fr *frame, st *state, in ssa.Instruction, idx, n string) {
	if v.noSafety(fr) {
		v.fact(st, fmt.Sprintf("(and (<= 0 %s) (< %s %s))", idx, idx, n))
		return
	}
	v.oblige(st, "safety", "index", v.site(in), fmt.Sprintf("(and (<= 0 %s) (< %s %s))", idx, idx, n), nil)
}

func (v *vc) intIdx(fr *frame, st *state, x ssa.Value) string {
	t := v.val(fr, st, x)
	if v.sc.isBVType(x.Type()) {
		_, signed, _ := intInfo(x.Type())
		if signed {
			bits, _, _ := intInfo(x.Type())
			return fmt.Sprintf("(let ((n (bv2nat %s))) (ite (>= n %s) (- n %s) n))", t, pow2(bits-1), pow2(bits))
		}
		return fmt.Sprintf("(bv2nat %s)", t)
	}
	return t
}

func (v *vc) indexAddr(fr *frame, st *state, in *ssa.IndexAddr) {
	idx := v.intIdx(fr, st, in.Index)
	switch xt := in.X.Type().Underlying().(type) {
	case *types.Slice:
		s := v.val(fr, st, in.X)
		v.boundsCheck(fr, st, in, idx, fmt.Sprintf("(s_len %s)", s))
		abs := v.define("idx", "Int", fmt.Sprintf("(+ (s_off %s) %s)", s, idx))
		if isStruct(xt.Elem()) {
			fr.vals[in] = v.elemRef(st, fmt.Sprintf("(s_arr %s)", s), abs)
			return
		}
		fr.addrs[in] = &addr{kind: aElem, base: fmt.Sprintf("(s_arr %s)", s), idx: abs, typ: xt.Elem()}
	case *types.Pointer:
		arr := xt.Elem().Underlying().(*types.Array)
		v.boundsCheck(fr, st, in, idx, fmt.Sprint(arr.Len()))
		if ra, ok := fr.addrs[in.X]; ok {
			if ra.kind == aPath {
				fr.addrs[in] = &addr{kind: aPath, root: ra.root, steps: append(append([]step{}, ra.steps...), step{field: -1, idx: idx, typ: xt.Elem()}), typ: arr.Elem()}
			} else {
				fr.addrs[in] = &addr{kind: aPath, root: ra, steps: []step{{field: -1, idx: idx, typ: xt.Elem()}}, typ: arr.Elem()}
			}
			return
		}
		ref := v.val(fr, st, in.X)
		if isStruct(arr.Elem()) {
			fr.vals[in] = v.elemRef(st, ref, idx)
			return
		}
		fr.addrs[in] = &addr{kind: aElem, base: ref, idx: idx, typ: arr.Elem()}
	default:
		v.note("indexaddr on %T", xt)
		fr.vals[in] = v.havoc("ia", in.Type(), st)
	}
}

func (v *vc) index(fr *frame, st *state, in *ssa.Index) {
	x := v.val(fr, st, in.X)
	idx := v.intIdx(fr, st, in.Index)
	switch xt := in.X.Type().Underlying().(type) {
	case *types.Array:
		v.boundsCheck(fr, st, in, idx, fmt.Sprint(xt.Len()))
		fr.vals[in] = v.define(in.Name(), v.sc.sortOf(in.Type()), sel(x, idx))
	case *types.Basic: // string
		v.boundsCheck(fr, st, in, idx, fmt.Sprintf("(str_len %s)", x))
		n := v.define(in.Name(), "Int", fmt.Sprintf("(str_at %s %s)", x, idx))
		v.fact(st, fmt.Sprintf("(and (<= 0 %s) (<= %s 255))", n, n))
		fr.vals[in] = n
	default:
		v.note("index on %T", xt)
		fr.vals[in] = v.havoc("idx", in.Type(), st)
	}
}

func (v *vc) sliceOp(fr *frame, st *state, in *ssa.Slice) {
	var lo, hi, max string
	if in.Low != nil {
		lo = v.intIdx(fr, st, in.Low)
	} else {
		lo = "0"
	}
	safety := !(v.noSafety(fr))
	switch xt := in.X.Type().Underlying().(type) {
	case *types.Slice:
		s := v.val(fr, st, in.X)
		if in.High != nil {
			hi = v.intIdx(fr, st, in.High)
		} else {
			hi = fmt.Sprintf("(s_len %s)", s)
		}
		capx := fmt.Sprintf("(s_cap %s)", s)
		if in.Max != nil {
			max = v.intIdx(fr, st, in.Max)
		} else {
			max = capx
		}
		cond := fmt.Sprintf("(and (<= 0 %s) (<= %s %s) (<= %s %s) (<= %s %s))", lo, lo, hi, hi, max, max, capx)
		if safety {
			v.oblige(st, "safety", "slice", v.site(in), cond, nil)
		} else {
			v.fact(st, cond)
		}
		r := fmt.Sprintf("(mk-slice (s_arr %s) (+ (s_off %s) %s) (- %s %s) (- %s %s))", s, s, lo, hi, lo, max, lo)
		fr.vals[in] = v.define(in.Name(), "Slice", r)
	case *types.Basic: // string
		s := v.val(fr, st, in.X)
		if in.High != nil {
			hi = v.intIdx(fr, st, in.High)
		} else {
			hi = fmt.Sprintf("(str_len %s)", s)
		}
		cond := fmt.Sprintf("(and (<= 0 %s) (<= %s %s) (<= %s (str_len %s)))", lo, lo, hi, hi, s)
		if safety {
			v.oblige(st, "safety", "slice", v.site(in), cond, nil)
		} else {
			v.fact(st, cond)
		}
		n := v.define(in.Name(), "Str", fmt.Sprintf("(str_sub %s %s %s)", s, lo, hi))
		v.fact(st, fmt.Sprintf("(= (str_len %s) (- %s %s))", n, hi, lo))
		fr.vals[in] = n
	case *types.Pointer: // *[N]T
		arr := xt.Elem().Underlying().(*types.Array)
		n := fmt.Sprint(arr.Len())
		if in.High != nil {
			hi = v.intIdx(fr, st, in.High)
		} else {
			hi = n
		}
		if in.Max != nil {
			max = v.intIdx(fr, st, in.Max)
		} else {
			max = n
		}
		cond := fmt.Sprintf("(and (<= 0 %s) (<= %s %s) (<= %s %s) (<= %s %s))", lo, lo, hi, hi, max, max, n)
		if safety {
			v.oblige(st, "safety", "slice", v.site(in), cond, nil)
		} else {
			v.fact(st, cond)
		}
		if _, isAddr := fr.addrs[in.X]; isAddr {
			v.note("slicing an array embedded in a struct/local value in %s", fr.fn.Name())
			fr.vals[in] = v.havoc("slice", in.Type(), st)
			return
		}
		ref := v.val(fr, st, in.X)
		r := fmt.Sprintf("(mk-slice %s %s (- %s %s) (- %s %s))", ref, lo, hi, lo, max, lo)
		name := v.define(in.Name(), "Slice", r)
		fr.vals[in] = name
		if in.Low == nil && in.High == nil {
			v.knownLen[name] = int(arr.Len())
		}
	}
}

func (v *vc) makeSlice(fr *frame, st *state, in *ssa.MakeSlice) {
	ln := v.intIdx(fr, st, in.Len)
	cp := v.intIdx(fr, st, in.Cap)
	cond := fmt.Sprintf("(and (<= 0 %s) (<= %s %s))", ln, ln, cp)
	if v.noSafety(fr) {
		v.fact(st, cond)
	} else {
		v.oblige(st, "safety", "make", v.site(in), cond, nil)
	}
	if b := v.eng.allocBound(fr); b != "" && fr.top {
		et := in.Type().Underlying().(*types.Slice).Elem()
		if bt, ok := et.Underlying().(*types.Basic); ok && bt.Kind() == types.Uint8 {
			v.oblige(st, "alloc-bound", "make", v.site(in), fmt.Sprintf("(<= %s %s)", cp, b), nil)
		}
	}
	v.fact(st, fmt.Sprintf("(<= %s 72057594037927936)", cp))
	ref := v.alloc(st, in.Name())
	et := in.Type().Underlying().(*types.Slice).Elem()
	if !isStruct(et) {
		h, sort := v.elemHeap(et)
		v.setHeap(st, h, sort, sto(v.getHeap(st, h), ref, v.sc.zero(types.NewArray(et, 0))))
	} else {
		v.zeroStructElems(st, ref, et)
	}
	fr.vals[in] = v.define(in.Name(), "Slice", fmt.Sprintf("(mk-slice %s 0 %s %s)", ref, ln, cp))
}

// zeroStructElems: every element object of the fresh array ref holds the zero value.
func (v *vc) zeroStructElems(st *state, ref string, et types.Type) {
	s := et.Underlying().(*types.Struct)
	for i := 0; i < s.NumFields(); i++ {
		h, sort := v.fieldHeap(et, i)
		old := v.getHeap(st, h)
		nh := v.fresh(h)
		v.decl(nh, sort)
		z := v.sc.zero(s.Field(i).Type())
		v.rawFact(fmt.Sprintf("(forall ((r Int)) (! (= (select %s r) (ite (= (elem_arr r) %s) %s (select %s r))) :pattern ((select %s r))))", nh, ref, z, old, nh))
		st.heaps[h] = nh
	}
}

func (v *vc) makeIface(fr *frame, st *state, in *ssa.MakeInterface) string {
	xt := in.X.Type()
	x := v.val(fr, st, in.X)
	tid := v.sc.typeID(xt)
	switch xt.Underlying().(type) {
	case *types.Pointer, *types.Map, *types.Chan, *types.Signature:
		return v.define(in.Name(), "Iface", fmt.Sprintf("(mk-iface %d %s)", tid, x))
	}
	// boxed value
	ref := v.alloc(st, "box")
	a := &addr{kind: aCell, base: ref, typ: xt}
	if _, isArr := xt.Underlying().(*types.Array); !isArr {
		v.store(st, a, x)
	}
	return v.define(in.Name(), "Iface", fmt.Sprintf("(mk-iface %d %s)", tid, ref))
}

func (v *vc) typeAssert(fr *frame, st *state, in *ssa.TypeAssert) {
	x := v.val(fr, st, in.X)
	at := in.AssertedType
	var ok, val string
	if isIface(at) {
		okc := v.fresh("taok")
		v.decl(okc, "Bool")
		v.fact(st, imp(okc, fmt.Sprintf("(not (= (i_type %s) 0))", x)))
		ok = okc
		val = x
	} else {
		tid := v.sc.typeID(at)
		ok = fmt.Sprintf("(= (i_type %s) %d)", x, tid)
		switch at.Underlying().(type) {
		case *types.Pointer, *types.Map, *types.Chan, *types.Signature:
			val = fmt.Sprintf("(i_val %s)", x)
		default:
			a := &addr{kind: aCell, base: fmt.Sprintf("(i_val %s)", x), typ: at}
			if _, isArr := at.Underlying().(*types.Array); isArr {
				val = v.havoc("unbox", at, st)
			} else {
				val = v.load(st, a)
			}
		}
	}
	if in.CommaOk {
		okn := v.define("ok", "Bool", ok)
		valn := v.define(in.Name(), v.sc.sortOf(at), ite(okn, val, v.sc.zero(at)))
		fr.setTuple(in, []string{valn, okn})
		return
	}
	if !(v.noSafety(fr)) {
		v.oblige(st, "safety", "assert", v.site(in), ok, nil)
	} else {
		v.fact(st, ok)
	}
	n := v.define(in.Name(), v.sc.sortOf(at), val)
	fr.vals[in] = n
	if inv := v.sc.typeInv(n, at); inv != "" {
		v.fact(st, inv)
	}
}

func (fr *frame) setTuple(x ssa.Value, t []string) {
	if fr.tuples == nil {
		fr.tuples = map[ssa.Value][]string{}
	}
	fr.tuples[x] = t
}
func (fr *frame) closures() map[ssa.Value]*ssa.MakeClosure {
	if fr.clos == nil {
		fr.clos = map[ssa.Value]*ssa.MakeClosure{}
	}
	return fr.clos
}
func (fr *frame) ranges() map[ssa.Value]ssa.Value {
	if fr.rng == nil {
		fr.rng = map[ssa.Value]ssa.Value{}
	}
	return fr.rng
}
func (fr *frame) arrRefs() map[ssa.Value]*types.Array {
	if fr.arrs == nil {
		fr.arrs = map[ssa.Value]*types.Array{}
	}
	return fr.arrs
}

func (v *vc) lookup(fr *frame, st *state, in *ssa.Lookup) {
	x := v.val(fr, st, in.X)
	if mt, ok := in.X.Type().Underlying().(*types.Map); ok {
		k := v.val(fr, st, in.Index)
		val, dom, _ := v.mapHeaps(mt)
		has := v.define("has", "Bool", and(fmt.Sprintf("(not (= %s 0))", x), sel(sel(v.getHeap(st, dom), x), k)))
		r := v.define(in.Name(), v.sc.sortOf(mt.Elem()), ite(has, sel(sel(v.getHeap(st, val), x), k), v.sc.zero(mt.Elem())))
		if inv := v.sc.typeInv(r, mt.Elem()); inv != "" {
			v.fact(st, inv)
		}
		v.refFacts(st, r, mt.Elem())
		if in.CommaOk {
			fr.setTuple(in, []string{r, has})
		} else {
			fr.vals[in] = r
		}
		return
	}
	// string index
	idx := v.intIdx(fr, st, in.Index)
	v.boundsCheck(fr, st, in, idx, fmt.Sprintf("(str_len %s)", x))
	n := v.define(in.Name(), "Int", fmt.Sprintf("(str_at %s %s)", x, idx))
	v.fact(st, fmt.Sprintf("(and (<= 0 %s) (<= %s 255))", n, n))
	if v.sc.isBVType(in.Type()) {
		fr.vals[in] = fmt.Sprintf("((_ int2bv 8) %s)", n)
		return
	}
	fr.vals[in] = n
}

func (v *vc) mapUpdate(fr *frame, st *state, in *ssa.MapUpdate) {
	m := v.val(fr, st, in.Map)
	mt := in.Map.Type().Underlying().(*types.Map)
	k := v.val(fr, st, in.Key)
	val := v.val(fr, st, in.Value)
	if !(v.noSafety(fr)) {
		v.oblige(st, "safety", "mapnil", v.site(in), fmt.Sprintf("(not (= %s 0))", m), nil)
	}
	hv, hd, hl := v.mapHeaps(mt)
	curD := v.getHeap(st, hd)
	had := v.define("had", "Bool", sel(sel(curD, m), k))
	curV := v.getHeap(st, hv)
	v.setHeap(st, hv, v.heapSort[hv], sto(curV, m, sto(sel(curV, m), k, val)))
	v.setHeap(st, hd, v.heapSort[hd], sto(curD, m, sto(sel(curD, m), k, "true")))
	curL := v.getHeap(st, hl)
	v.setHeap(st, hl, v.heapSort[hl], sto(curL, m, fmt.Sprintf("(+ %s (ite %s 0 1))", sel(curL, m), had)))
}

func (v *vc) next(fr *frame, st *state, in *ssa.Next) {
	rng, _ := in.Iter.(*ssa.Range)
	okc := v.fresh("next.ok")
	v.decl(okc, "Bool")
	tup := in.Type().(*types.Tuple)
	if in.IsString || rng == nil {
		k := v.havoc("next.k", tup.At(1).Type(), st)
		val := v.havoc("next.v", tup.At(2).Type(), st)
		fr.setTuple(in, []string{okc, k, val})
		return
	}
	mt := rng.X.Type().Underlying().(*types.Map)
	m := v.val(fr, st, rng.X)
	hv, hd, _ := v.mapHeaps(mt)
	k := v.havoc("next.k", mt.Key(), st)
	v.fact(st, imp(okc, and(fmt.Sprintf("(not (= %s 0))", m), sel(sel(v.getHeap(st, hd), m), k))))
	// every key is produced at most once; when the iteration ends every key present has been produced
	// (the latter only if the loop does not add keys to maps of this type)
	sk := v.rangeSeenKey(fr, rng)
	if seen, ok := st.locals[sk]; ok {
		v.fact(st, imp(okc, not(sel(seen, k))))
		if !v.loopWritesHeap(fr, in, hd) {
			ks := v.sc.sortOf(mt.Key())
			v.fact(st, imp(not(okc), fmt.Sprintf("(forall ((kk %s)) (! (=> %s (select %s kk)) :pattern ((select %s kk))))", ks,
				and(fmt.Sprintf("(not (= %s 0))", m), fmt.Sprintf("(select (select %s %s) kk)", v.getHeap(st, hd), m)), seen, seen)))
		}
		st.locals[sk] = v.define("seen", v.localSorts[sk], ite(okc, sto(seen, k, "true"), seen))
	}
	val := v.define("next.v", v.sc.sortOf(mt.Elem()), sel(sel(v.getHeap(st, hv), m), k))
	if inv := v.sc.typeInv(val, mt.Elem()); inv != "" {
		v.fact(st, inv)
	}
	v.refFacts(st, val, mt.Elem())
	fr.setTuple(in, []string{okc, k, val})
}

func (v *vc) recv(fr *frame, st *state, in *ssa.UnOp) {
	ct := in.X.Type().Underlying().(*types.Chan)
	val := v.havoc("recv", ct.Elem(), st)
	v.eng.onRecv(v, fr, st, in.X, val)
	if in.CommaOk {
		okc := v.fresh("recv.ok")
		v.decl(okc, "Bool")
		fr.setTuple(in, []string{val, okc})
		v.instrHook(fr, st, in, []string{val}, []types.Type{ct.Elem()}, "recvval")
		return
	}
	fr.vals[in] = val
	// "at after recv#k" ghost updates may refer to the received value as recvval
	v.instrHook(fr, st, in, []string{val}, []types.Type{ct.Elem()}, "recvval")
}

func (v *vc) execSelect(fr *frame, st *state, in *ssa.Select) {
	idx := v.fresh("select.idx")
	v.decl(idx, "Int")
	lo := "0"
	if !in.Blocking {
		lo = "(- 1)"
	}
	v.fact(st, fmt.Sprintf("(and (<= %s %s) (< %s %d))", lo, idx, idx, len(in.States)))
	okc := v.fresh("select.ok")
	v.decl(okc, "Bool")
	tup := []string{idx, okc}
	for _, s := range in.States {
		if s.Dir == types.RecvOnly {
			ct := s.Chan.Type().Underlying().(*types.Chan)
			val := v.havoc("select.recv", ct.Elem(), st)
			tup = append(tup, val)
		}
	}
	fr.setTuple(in, tup)
	fr.selects()[in] = tup
}

func (fr *frame) selects() map[*ssa.Select][]string {
	if fr.sels == nil {
		fr.sels = map[*ssa.Select][]string{}
	}
	return fr.sels
}

func (v *vc) runDefers(fr *frame, st *state) {
	ds := st.defers
	st.defers = nil
	for i := len(ds) - 1; i >= 0; i-- {
		d := ds[i]
		if d.fr != fr {
			// belongs to an outer frame (should not happen: defers are per function)
			st.defers = append([]deferEntry{d}, st.defers...)
			continue
		}
		if d.guard == "true" {
			v.execCall(d.fr, st, d.instr, d.instr.Common(), nil)
			continue
		}
		// conditional defer: run on a branch and merge
		yes := st.clone()
		yes.reach = v.define("defer", "Bool", and(st.reach, d.guard))
		v.execCall(d.fr, yes, d.instr, d.instr.Common(), nil)
		no := st.clone()
		no.reach = v.define("nodefer", "Bool", and(st.reach, not(d.guard)))
		m := v.merge([]edge{{cond: yes.reach, st: yes}, {cond: no.reach, st: no}})
		*st = *m
	}
}
