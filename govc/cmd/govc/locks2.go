package main

import "golang.org/x/tools/go/ssa"

// loadedIsMutated: the map or slice value loaded from a guarded field is updated in place
// (m[k] = v, delete(m, k), s[i] = v).
func loadedIsMutated(ld *ssa.UnOp) bool {
	refs := ld.Referrers()
	if refs == nil {
		return false
	}
	for _, r := range *refs {
		switch x := r.(type) {
		case *ssa.MapUpdate:
			if x.Map == ssa.Value(ld) {
				return true
			}
		case *ssa.Call:
			if b, ok := x.Call.Value.(*ssa.Builtin); ok && b.Name() == "delete" && len(x.Call.Args) > 0 && x.Call.Args[0] == ssa.Value(ld) {
				return true
			}
		case *ssa.IndexAddr:
			if x.X == ssa.Value(ld) {
				if er := x.Referrers(); er != nil {
					for _, s := range *er {
						if st, ok := s.(*ssa.Store); ok && st.Addr == ssa.Value(x) {
							return true
						}
					}
				}
			}
		}
	}
	return false
}
