package main

import "golang.org/x/tools/go/ssa"

// loadedIsMutated: the map or slice value loaded from a guarded field is updated in place
// (m[k] = v, delete(m, k), s[i] = v).
func loadedIsMutated(ld *ssa.UnOp) bool {
	refs := ld.Referrers()
	if refs == nil {
		return false
	}
	for _, r := range *refs {
		switch x := r.(type) {
		case *ssa.MapUpdate:
			if x.Map == ssa.Value(ld) {
				return true
			}
		case *ssa.Call:
			if b, ok := x.Call.Value.(*ssa.Builtin); ok && b.Name() == "delete" && len(x.Call.Args) > 0 && x.Call.Args[0] == ssa.Value(ld) {
				return true
			}
		case *ssa.Lookup:
			// an element of a guarded map that is itself a slice: reordering or overwriting its elements in place
			// (sort.Slice on it or on what append made of it, a store through an index) changes what readers of
			// the map see, although the map itself is only read
			if x.X == ssa.Value(ld) && sliceMutatedInPlace(x, map[ssa.Value]bool{}) {
				return true
			}
		case *ssa.IndexAddr:
			if x.X == ssa.Value(ld) {
				if er := x.Referrers(); er != nil {
					for _, s := range *er {
						if st, ok := s.(*ssa.Store); ok && st.Addr == ssa.Value(x) {
							return true
						}
					}
				}
			}
		}
	}
	return false
}

// sliceMutatedInPlace: the slice value v (or a slice sharing its backing array: a re-slice, the result of
// append(v, ...), a phi of those) has elements stored into or is handed to an in-place sorter / copy target.
func sliceMutatedInPlace(v ssa.Value, seen map[ssa.Value]bool) bool {
	if seen[v] {
		return false
	}
	seen[v] = true
	refs := v.Referrers()
	if refs == nil {
		return false
	}
	for _, r := range *refs {
		switch x := r.(type) {
		case *ssa.Extract:
			if sliceMutatedInPlace(x, seen) {
				return true
			}
		case *ssa.IndexAddr:
			if x.X == v {
				if er := x.Referrers(); er != nil {
					for _, s := range *er {
						if st, ok := s.(*ssa.Store); ok && st.Addr == ssa.Value(x) {
							return true
						}
					}
				}
			}
		case *ssa.Slice:
			if x.X == v && sliceMutatedInPlace(x, seen) {
				return true
			}
		case *ssa.Store:
			// kept in a local variable (one that a closure captures lives in a cell): follow its loads
			if a, ok := x.Addr.(*ssa.Alloc); ok && x.Val == v {
				if ar := a.Referrers(); ar != nil {
					for _, u := range *ar {
						if ld, ok := u.(*ssa.UnOp); ok && sliceMutatedInPlace(ld, seen) {
							return true
						}
					}
				}
			}
		case *ssa.Phi:
			if sliceMutatedInPlace(x, seen) {
				return true
			}
		case *ssa.MakeInterface:
			if er := x.Referrers(); er != nil {
				for _, u := range *er {
					if c, ok := u.(ssa.CallInstruction); ok {
						if f, ok := c.Common().Value.(*ssa.Function); ok {
							switch f.String() {
							case "sort.Slice", "sort.SliceStable", "sort.Sort", "sort.Stable":
								return true
							}
						}
					}
				}
			}
		case *ssa.Call:
			if b, ok := x.Call.Value.(*ssa.Builtin); ok && len(x.Call.Args) > 0 && x.Call.Args[0] == v {
				switch b.Name() {
				case "append":
					// appending writes beyond len only; what matters is what is done with the result
					if sliceMutatedInPlace(x, seen) {
						return true
					}
				case "copy":
					return true
				}
			}
		}
	}
	return false
}
