package main

import (
	"fmt"
	"go/token"
	"go/types"

	"golang.org/x/tools/go/ssa"
)

// loadedIsMutated: the map or slice value loaded from a guarded field is updated in place
// (m[k] = v, delete(m, k), s[i] = v).
func loadedIsMutated(ld *ssa.UnOp) bool {
	refs := ld.Referrers()
	if refs == nil {
		return false
	}
	for _, r := range *refs {
		switch x := r.(type) {
		case *ssa.MapUpdate:
			if x.Map == ssa.Value(ld) {
				return true
			}
		case *ssa.Call:
			if b, ok := x.Call.Value.(*ssa.Builtin); ok && b.Name() == "delete" && len(x.Call.Args) > 0 && x.Call.Args[0] == ssa.Value(ld) {
				return true
			}
		case *ssa.Lookup:
			// an element of a guarded map that is itself a slice: reordering or overwriting its elements in place
			// (sort.Slice on it or on what append made of it, a store through an index) changes what readers of
			// the map see, although the map itself is only read
			if x.X == ssa.Value(ld) && sliceMutatedInPlace(x, map[ssa.Value]bool{}) {
				return true
			}
		case *ssa.IndexAddr:
			if x.X == ssa.Value(ld) {
				if er := x.Referrers(); er != nil {
					for _, s := range *er {
						if st, ok := s.(*ssa.Store); ok && st.Addr == ssa.Value(x) {
							return true
						}
					}
				}
			}
		}
	}
	return false
}

// sliceMutatedInPlace: the slice value v (or a slice sharing its backing array: a re-slice, the result of
// append(v, ...), a phi of those) has elements stored into or is handed to an in-place sorter / copy target.
func sliceMutatedInPlace(v ssa.Value, seen map[ssa.Value]bool) bool {
	if seen[v] {
		return false
	}
	seen[v] = true
	refs := v.Referrers()
	if refs == nil {
		return false
	}
	for _, r := range *refs {
		switch x := r.(type) {
		case *ssa.Extract:
			if sliceMutatedInPlace(x, seen) {
				return true
			}
		case *ssa.IndexAddr:
			if x.X == v {
				if er := x.Referrers(); er != nil {
					for _, s := range *er {
						if st, ok := s.(*ssa.Store); ok && st.Addr == ssa.Value(x) {
							return true
						}
					}
				}
			}
		case *ssa.Slice:
			if x.X == v && sliceMutatedInPlace(x, seen) {
				return true
			}
		case *ssa.Store:
			// kept in a local variable (one that a closure captures lives in a cell): follow its loads
			if a, ok := x.Addr.(*ssa.Alloc); ok && x.Val == v {
				if ar := a.Referrers(); ar != nil {
					for _, u := range *ar {
						if ld, ok := u.(*ssa.UnOp); ok && sliceMutatedInPlace(ld, seen) {
							return true
						}
					}
				}
			}
		case *ssa.Phi:
			if sliceMutatedInPlace(x, seen) {
				return true
			}
		case *ssa.MakeInterface:
			if er := x.Referrers(); er != nil {
				for _, u := range *er {
					if c, ok := u.(ssa.CallInstruction); ok {
						if f, ok := c.Common().Value.(*ssa.Function); ok {
							switch f.String() {
							case "sort.Slice", "sort.SliceStable", "sort.Sort", "sort.Stable":
								return true
							}
						}
					}
				}
			}
		case *ssa.Call:
			if b, ok := x.Call.Value.(*ssa.Builtin); ok && len(x.Call.Args) > 0 && x.Call.Args[0] == v {
				switch b.Name() {
				case "append":
					// appending writes beyond len only; what matters is what is done with the result
					if sliceMutatedInPlace(x, seen) {
						return true
					}
				case "copy":
					return true
				}
			}
		}
	}
	return false
}

// guardedLookup: v is the element a map lookup took out of a guarded map field (x.databases[k]); returns the
// guard of that field.
func (e *engine) guardedLookup(v ssa.Value) (*guardSpec, *ssa.FieldAddr) {
	if ex, ok := v.(*ssa.Extract); ok && ex.Index == 0 {
		v = ex.Tuple
	}
	lk, ok := v.(*ssa.Lookup)
	if !ok {
		return nil, nil
	}
	ld, ok := lk.X.(*ssa.UnOp)
	if !ok {
		return nil, nil
	}
	fa, ok := ld.X.(*ssa.FieldAddr)
	if !ok {
		return nil, nil
	}
	stt := fa.X.Type().Underlying().(*types.Pointer).Elem()
	s, ok := stt.Underlying().(*types.Struct)
	if !ok {
		return nil, nil
	}
	return e.guardFor(stt, s.Field(fa.Field).Name()), fa
}

// nilTolerant: the method compares its receiver with nil somewhere (func (d *T) f() bool { return d != nil && ... }).
func nilTolerant(fn *ssa.Function) bool {
	if len(fn.Params) == 0 {
		return false
	}
	recv := fn.Params[0]
	for _, b := range fn.Blocks {
		for _, in := range b.Instrs {
			if bo, ok := in.(*ssa.BinOp); ok && (bo.Op == token.EQL || bo.Op == token.NEQ) {
				if c, ok := bo.Y.(*ssa.Const); ok && c.IsNil() && bo.X == ssa.Value(recv) {
					return true
				}
				if c, ok := bo.X.(*ssa.Const); ok && c.IsNil() && bo.Y == ssa.Value(recv) {
					return true
				}
			}
		}
	}
	return false
}

// checkLookedUpReceiver: a method is called on what a lookup in a guarded map returned (s.databases[db].f()).
// Between the moment the key was known to be present and this lookup the lock may have been dropped and the
// entry deleted by another goroutine: a nil receiver panics inside the method - with the store's lock held.
// The obligation is that the entry is known to be present at the call (a comma-ok test, a nil test, or a
// presence fact established since the lock was last taken).
func (v *vc) checkLookedUpReceiver(fr *frame, st *state, callee *ssa.Function, c *ssa.CallCommon, args []string, site string) {
	if v.fc == nil || !v.fc.sweep || callee == nil || callee.Signature.Recv() == nil || len(c.Args) == 0 || len(args) == 0 || v.fc.setupOnly != "" {
		return
	}
	if _, isPtr := c.Args[0].Type().Underlying().(*types.Pointer); !isPtr {
		return
	}
	g, fa := v.eng.guardedLookup(c.Args[0])
	if g == nil || nilTolerant(callee) {
		return
	}
	// only for a lookup made in a critical section that is not the function's first one for this mutex: what an
	// earlier section established about the map need not hold any more
	_ = fa
	var lk ssa.Value = c.Args[0]
	if ex, ok := lk.(*ssa.Extract); ok {
		lk = ex.Tuple
	}
	dropped, ok := v.lookupAfterDrop[lk]
	if !ok {
		return
	}
	if why, ok := v.fc.absentUnused[g.typ+"."+g.field]; ok {
		v.trusted[fmt.Sprintf("assumed in contract of %s: an entry of %s.%s that is missing after the lock was dropped is not used (%s)", v.fnName, g.typ, g.field, why)] = true
		return
	}
	v.oblige(st, "guard", fmt.Sprintf("entry_of_%s.%s_is_present_after_the_lock_was_dropped", g.typ, g.field), site,
		fmt.Sprintf("(=> %s (not (= %s 0)))", dropped, args[0]), []string{"C19"})
}

// noteGuardedLookup: remembers, for a lookup in a guarded map, whether this function had already released the
// guarding mutex once when the lookup was made.
func (v *vc) noteGuardedLookup(fr *frame, st *state, lk *ssa.Lookup) {
	if v.fc == nil || !v.fc.sweep || !fr.top {
		return
	}
	g, fa := v.eng.guardedLookup(lk)
	if g == nil {
		return
	}
	rel, ok := st.ghost[relPrefix+balPrefix+sanitizeGhost(g.typ+"_"+g.mu)]
	if !ok {
		return
	}
	if v.lookupAfterDrop == nil {
		v.lookupAfterDrop = map[ssa.Value]string{}
	}
	v.lookupAfterDrop[lk] = v.define("dropped", "Bool", fmt.Sprintf("(= (select %s %s) 1)", rel, v.balRef(fr, st, fa.X)))
}
