package main

import "os"

func osWriteFile(path string, data []byte) error { return os.WriteFile(path, data, 0o644) }

// smtSubset is the VC with only the quantifier-free hypotheses (the goal is unchanged).
func (v *vc) smtSubset(ob *obligation) string {
	saved := ob.goal
	relaxed := v.smtRelaxed(&obligation{pos: ob.pos, goal: "true", cover: true})
	// smtRelaxed ends with (assert <goal>)(check-sat); rebuild the tail for a validity query
	cut := len(relaxed) - len("(assert true)\n(check-sat)\n")
	return relaxed[:cut] + "(assert (not " + saved + "))\n(check-sat)\n"
}

// failedBefore: some proof obligation generated before ob in the same function did not discharge.
func failedBefore(v *vc, ob *obligation) bool {
	for _, o := range v.obls {
		if o.pos >= ob.pos {
			break
		}
		if !o.cover && o.status != "" && o.status != "unsat" {
			return true
		}
	}
	return false
}
