package main

import "os"

func osWriteFile(path string, data []byte) error { return os.WriteFile(path, data, 0o644) }
