package main

import (
	"encoding/json"
	"flag"
	"fmt"
	"os"
	"path/filepath"
	"sort"
	"strconv"
	"strings"
	"time"
)

type knownFinding struct {
	Property   string `json:"property"`
	Obligation string `json:"obligation"`
	Status     string `json:"status"` // known | fixed
	What       string `json:"what"`
	Commit     string `json:"commit,omitempty"`
	Witness    string `json:"witness,omitempty"`
}

func loadKnown() []knownFinding {
	var ks []knownFinding
	data, err := os.ReadFile("/verif/known_findings.json")
	if err != nil {
		return nil
	}
	if err := json.Unmarshal(data, &ks); err != nil {
		fmt.Fprintln(os.Stderr, "known_findings.json:", err)
	}
	return ks
}

func hasProp(ps []string, p string) bool {
	for _, x := range ps {
		if x == p {
			return true
		}
	}
	return false
}

func main() {
	if len(os.Args) < 2 {
		fmt.Println("usage: govc check <PROP> [quick|thorough] | govc func <name-substring> [-dump dir]")
		os.Exit(2)
	}
	switch os.Args[1] {
	case "check":
		os.Exit(cmdCheck(os.Args[2:]))
	case "func":
		os.Exit(cmdFunc(os.Args[2:]))
	case "list":
		os.Exit(cmdList())
	case "replay":
		os.Exit(cmdReplay(os.Args[2:]))
	case "hints":
		os.Exit(cmdHints())
	default:
		fmt.Println("unknown command")
		os.Exit(2)
	}
}

func cmdList() int {
	e, err := loadEngine(targetDirs)
	if err != nil {
		fmt.Println("load:", err)
		return 2
	}
	for _, k := range sortedKeys(e.contracts.funcs) {
		fc := e.contracts.funcs[k]
		_, ok := e.funcs[k]
		fmt.Printf("%-90s props=%v assumed=%v resolved=%v\n", k, fc.props, fc.assumed, ok)
	}
	return 0
}

func cmdFunc(args []string) int {
	fs := flag.NewFlagSet("func", flag.ExitOnError)
	dump := fs.String("dump", "", "directory to keep SMT files")
	timeout := fs.Int("t", 10, "solver timeout (s)")
	verbose := fs.Bool("v", false, "print notes")
	sweep := fs.Bool("sweep", false, "verify the matching functions under the lock-discipline sweep contract instead")
	fs.Parse(args)
	pat := fs.Arg(0)
	e, err := loadEngine(targetDirs)
	if err != nil {
		fmt.Println("load:", err)
		return 2
	}
	work := *dump
	if work == "" {
		work, _ = os.MkdirTemp("", "govc")
		defer os.RemoveAll(work)
	} else {
		os.MkdirAll(work, 0o755)
	}
	rc := 0
	type job struct {
		k string
		v func() *vc
	}
	var jobs []job
	for _, k := range sortedKeys(e.contracts.funcs) {
		fc := e.contracts.funcs[k]
		if *sweep || !strings.Contains(k, pat) || fc.assumed {
			continue
		}
		jobs = append(jobs, job{k, func() *vc { return e.verify(fc, nil) }})
	}
	if *sweep {
		for _, fn := range e.sweepTargets() {
			sfc := e.sweepContract(fn)
			if sfc == nil || !strings.Contains(sfc.pkgPath+"."+sfc.name, pat) {
				continue
			}
			jobs = append(jobs, job{"sweep " + sfc.pkgPath + "." + sfc.name, func() *vc { return e.verify(sfc, nil) }})
		}
	}
	for _, l := range e.contracts.lemmas {
		l := l
		if *sweep {
			break
		}
		if strings.Contains("lemma."+l.name, pat) {
			jobs = append(jobs, job{"lemma." + l.name, func() *vc { return e.verifyLemma(l) }})
		}
	}
	for _, j := range jobs {
		k := j.k
		t0 := time.Now()
		v := j.v()
		fmt.Printf("== %s  (%d obligations, gen %.2fs)\n", k, len(v.obls), time.Since(t0).Seconds())
		if v.unresolved {
			fmt.Println("   UNRESOLVED (function not found)")
			continue
		}
		owner := map[*obligation]*vc{}
		for _, ob := range v.obls {
			owner[ob] = v
		}
		dischargeAll([]*vc{v}, v.obls, owner, solveOpts{timeoutS: *timeout}, work)
		for _, ob := range v.obls {
			ok := ob.status == "unsat" && !ob.cover || ob.status == "sat" && ob.cover
			if ob.cover && ob.status == "unsat" && v.fc != nil && v.fc.expectFail["cover:"+ob.label] {
				ok = true
			}
			mark := "ok  "
			if !ok {
				mark = "FAIL"
				rc = 1
			}
			fmt.Printf("   %s %-70s %-8s %-14s %5dms %dB %s\n", mark, ob.name, ob.status, ob.backend, ob.ms, ob.smtSize, strings.TrimSpace(firstLines(ob.output, 1)))
		}
		for _, er := range v.errs {
			fmt.Println("   ERROR:", er)
			rc = 1
		}
		if *verbose {
			for _, n := range v.imprecise {
				fmt.Println("   note:", n)
			}
			for _, t := range sortedKeys(v.trusted) {
				fmt.Println("   trusted:", t)
			}
		}
	}
	return rc
}

type evObligation struct {
	Name    string `json:"name"`
	Kind    string `json:"kind"`
	Status  string `json:"status"`
	Backend string `json:"backend"`
	Ms      int64  `json:"ms"`
	SmtSize int    `json:"smt_bytes"`
}

type evFunc struct {
	Name        string   `json:"name"`
	Verified    bool     `json:"verified"`
	Assumed     bool     `json:"assumed,omitempty"`
	Arith       string   `json:"arith"`
	SSAInstrs   int      `json:"ssa_instructions"`
	Obligations int      `json:"obligations"`
	Notes       []string `json:"abstractions,omitempty"`
	Inlined     []string `json:"inlined_callees,omitempty"`
	Unresolved  bool     `json:"unresolved,omitempty"`
}

func cmdCheck(args []string) int {
	if len(args) < 1 {
		fmt.Println("usage: govc check <PROP> [quick|thorough]")
		return 2
	}
	prop := args[0]
	tier := "quick"
	if len(args) > 1 {
		tier = args[1]
	}
	if t := os.Getenv("VERIF_TIER"); t != "" && len(args) < 2 {
		tier = t
	}
	seed := 0
	if s := os.Getenv("VERIF_SEED"); s != "" {
		seed, _ = strconv.Atoi(s)
	}
	t0 := time.Now()
	e, err := loadEngine(targetDirs)
	if err != nil {
		fmt.Println("govc: cannot load /repo:", err)
		return 2
	}
	loadS := time.Since(t0).Seconds()
	known := loadKnown()
	work, _ := os.MkdirTemp("", "govc-"+prop)
	defer os.RemoveAll(work)
	loadHints()
	opts := solveOpts{timeoutS: 20, seed: seed}
	if tier == "thorough" {
		opts.timeoutS = 60
		opts.twoSolvers = true
	}
	var vcs []*vc
	var obs []*obligation
	owner := map[*obligation]*vc{}
	var evFuncs []evFunc
	var genErrs []string
	unresolved := 0
	targets := 0
	for _, k := range sortedKeys(e.contracts.funcs) {
		fc := e.contracts.funcs[k]
		if fc.assumed {
			continue
		}
		relevant := hasProp(fc.props, prop)
		if !relevant {
			continue
		}
		if fc.tier == "ext" && tier != "thorough" {
			continue
		}
		targets++
		v := e.verify(fc, nil)
		vcs = append(vcs, v)
		ef := evFunc{Name: shortPkg(k), Verified: true, Arith: "int"}
		if fc.bv {
			ef.Arith = "bv"
		}
		if v.unresolved {
			unresolved++
			ef.Unresolved = true
			ef.Verified = false
			evFuncs = append(evFuncs, ef)
			continue
		}
		for _, b := range v.fn.Blocks {
			ef.SSAInstrs += len(b.Instrs)
		}
		for _, er := range v.errs {
			genErrs = append(genErrs, v.fnName+": "+er)
		}
		n := 0
		for _, ob := range v.obls {
			if !hasProp(ob.props, prop) {
				continue
			}
			obs = append(obs, ob)
			owner[ob] = v
			n++
		}
		ef.Obligations = n
		ef.Notes = v.imprecise
		ef.Inlined = sortedKeys(v.inlined)
		evFuncs = append(evFuncs, ef)
	}
	for _, l := range e.contracts.lemmas {
		if !hasProp(l.props, prop) {
			continue
		}
		targets++
		v := e.verifyLemma(l)
		vcs = append(vcs, v)
		for _, er := range v.errs {
			genErrs = append(genErrs, v.fnName+": "+er)
		}
		for _, ob := range v.obls {
			obs = append(obs, ob)
			owner[ob] = v
		}
		evFuncs = append(evFuncs, evFunc{Name: "lemma " + l.name, Verified: true, Arith: map[bool]string{true: "bv", false: "int"}[l.bv], Obligations: len(v.obls)})
	}
	if prop == "C19" || prop == "C05" {
		// lock-discipline sweep: every function of the packages with `guarded` declarations that touches one.
		// For C05 only the goroutine-capture obligations of the coordinator's fan-out loops are taken (a loop
		// variable shared between the fan-out goroutines asks one owner twice and another one never).
		for _, fn := range e.sweepTargets() {
			if prop == "C05" && !(spawnsGoroutineClosure(fn) && strings.Contains(fn.String(), "/coordinator.")) {
				continue
			}
			sfc := e.sweepContract(fn)
			if sfc == nil {
				continue
			}
			targets++
			v := e.verify(sfc, nil)
			vcs = append(vcs, v)
			ef := evFunc{Name: "sweep " + shortPkg(sfc.pkgPath+"."+sfc.name), Verified: true, Arith: "int"}
			if v.unresolved {
				unresolved++
				ef.Unresolved, ef.Verified = true, false
				evFuncs = append(evFuncs, ef)
				continue
			}
			for _, b := range v.fn.Blocks {
				ef.SSAInstrs += len(b.Instrs)
			}
			for _, er := range v.errs {
				genErrs = append(genErrs, v.fnName+": "+er)
			}
			n := 0
			for _, ob := range v.obls {
				if ob.kind != "guard" {
					continue // the sweep contract claims nothing else (covers of its paths are not vacuity guards of a claim)
				}
				if prop == "C05" && !strings.HasPrefix(ob.label, "goroutine_") {
					continue
				}
				obs = append(obs, ob)
				owner[ob] = v
				n++
			}
			ef.Obligations = n
			ef.Notes = v.imprecise
			evFuncs = append(evFuncs, ef)
		}
	}
	genS := time.Since(t0).Seconds() - loadS
	ts := time.Now()
	dischargeAll(vcs, obs, owner, opts, work)
	solveS := time.Since(ts).Seconds()

	// verdicts
	var evObs []evObligation
	violations := 0
	discharged, counted := 0, 0
	covers, coversOK := 0, 0
	coversUndecided := 0
	var knownHit []string
	samples := []interface{}{}
	backends := map[string]int{}
	var solverMs int64
	outDir := "/verif/replay/out"
	os.MkdirAll(outDir, 0o755)
	rc := 0
	for _, ob := range obs {
		evObs = append(evObs, evObligation{Name: ob.name, Kind: ob.kind, Status: ob.status, Backend: ob.backend, Ms: ob.ms, SmtSize: ob.smtSize})
		solverMs += ob.ms
		if ob.backend != "" {
			backends[ob.backend]++
		}
		if ob.cover {
			covers++
			if ob.status == "sat" {
				coversOK++
			} else if owner[ob].fc != nil && owner[ob].fc.expectFail["cover:"+ob.label] && ob.status == "unsat" {
				coversOK++ // declared dead code
			} else if failedBefore(owner[ob], ob) {
				// an earlier obligation of this function failed; its condition is assumed downstream, so the
				// cover says nothing here (the failure itself is reported as the violation)
				coversOK++
			} else if ob.status != "unsat" {
				// the solvers did not decide the guard within its (short) budget: neither evidence of vacuity
				// nor of reachability; reported, not counted as sat, and no verdict is drawn from it
				fmt.Printf("NOTE: vacuity guard %s undecided (%s)\n", ob.name, ob.status)
				coversUndecided++
			} else {
				fmt.Printf("BROKEN-CHECK: vacuity guard %s is not satisfiable (%s): contradictory contract or model\n", ob.name, ob.status)
				rc = 2
			}
			continue
		}
		// known finding?
		var kf *knownFinding
		for i := range known {
			if known[i].Property == prop && known[i].Obligation == ob.name && known[i].Status == "known" {
				kf = &known[i]
			}
		}
		if ob.status == "unsat" {
			if kf != nil {
				// a known finding that no longer fails: report, do not count as discharged twice
				fmt.Printf("NOTE: known finding %s now discharges (fixed?)\n", ob.name)
			}
			counted++
			discharged++
			if len(samples) < 4 {
				samples = append(samples, map[string]interface{}{"obligation": ob.name, "kind": ob.kind, "smt_bytes": ob.smtSize, "backend": ob.backend, "ms": ob.ms})
			}
			continue
		}
		if kf != nil {
			fmt.Printf("KNOWN-FINDING: property=%s %s: %s\n", prop, ob.name, kf.What)
			knownHit = append(knownHit, ob.name)
			continue
		}
		counted++
		violations++
		owner[ob].reportViolation(prop, ob, outDir, opts, work)
		rc = 1
	}
	for _, er := range genErrs {
		fmt.Println("BROKEN-CHECK: contract error:", er)
		if rc == 0 {
			rc = 2
		}
	}
	if targets == 0 || (targets > 0 && unresolved == targets) {
		fmt.Printf("BROKEN-CHECK: no contract target of %s resolves to a function in /repo\n", prop)
		if rc == 0 {
			rc = 2
		}
	}
	if counted == 0 && rc == 0 {
		fmt.Printf("BROKEN-CHECK: zero obligations generated for %s\n", prop)
		rc = 2
	}
	bounded, bviol := runBounded(prop, tier, work)
	for _, b := range bounded {
		knownHit = append(knownHit, b.Known...)
	}
	if bviol > 0 {
		violations += bviol
		rc = 1
	}
	for _, b := range bounded {
		if b.Status != "ok" && b.Status != "fail" && rc == 0 {
			rc = 2
		}
	}
	// evidence
	trusted := map[string]bool{}
	var assumptions []string
	for _, v := range vcs {
		for t := range v.trusted {
			trusted[t] = true
		}
	}
	assumptions = append(assumptions,
		"go/ssa (x/tools v0.29.0) is the semantics of the verified text; the SSA-to-SMT translation of govc is trusted",
		"arith int: Go integers are mathematical integers constrained to their type's range; signed +,-,* carry a no-overflow obligation; slice/string lengths <= 2^56",
		"goroutine interleavings, crash points between system calls and liveness are not modelled",
		"floats are uninterpreted; strings are an abstract sort with length and byte-at functions",
		"package-level error sentinels are never reassigned",
	)
	level := "proof"
	cov := map[string]interface{}{
		"obligations":              counted,
		"discharged":               discharged,
		"checker_cmd":              fmt.Sprintf("/verif/bin/govc check %s %s", prop, tier),
		"trusted_base":             sortedKeys(trusted),
		"functions_under_contract": evFuncs,
		"obligation_results":       evObs,
		"vacuity_covers":           covers,
		"vacuity_covers_sat":       coversOK,
		"vacuity_covers_undecided": coversUndecided,
		"known_findings":           knownHit,
		"unresolved_targets":       unresolved,
		"backends":                 backends,
		"solver_seconds":           float64(solverMs) / 1000,
		"load_seconds":             loadS,
		"vcgen_seconds":            genS,
		"solve_wall_seconds":       solveS,
		"samples":                  samples,
		"solver_timeout_s":         opts.timeoutS,
		"two_solver_agreement":     opts.twoSolvers,
	}
	if len(bounded) > 0 {
		cov["bounded_standins_not_counted_as_proved"] = bounded
	}
	ev := map[string]interface{}{
		"property_id": prop,
		"tier":        tier,
		"seed":        seed,
		"level":       level,
		"coverage":    cov,
		"assumptions": assumptions,
		"wall_s":      time.Since(t0).Seconds(),
		"violations":  violations,
	}
	os.MkdirAll("/verif/evidence", 0o755)
	data, _ := json.MarshalIndent(ev, "", " ")
	os.WriteFile(filepath.Join("/verif/evidence", prop+".json"), data, 0o644)
	fmt.Printf("govc: property %s tier %s: %d functions, %d obligations, %d discharged, %d known findings, %d violations, %d/%d covers sat, %.1fs\n",
		prop, tier, targets, counted, discharged, len(knownHit), violations, coversOK, covers, time.Since(t0).Seconds())
	return rc
}

func (v *vc) reportViolation(prop string, ob *obligation, outDir string, opts solveOpts, work string) {
	path := filepath.Join(outDir, sanitize(prop+"-"+ob.name)+".json")
	rep := map[string]interface{}{
		"property":   prop,
		"obligation": ob.name,
		"kind":       ob.kind,
		"status":     ob.status,
		"backend":    ob.backend,
		"solver_output": ob.output,
		"function":   v.fnName,
	}
	suffix := " no-failing-input-found"
	if ob.status == "sat" {
		if ok, info := v.replay(ob, work, rep); ok {
			suffix = ""
			rep["replay"] = info
		} else if info != "" {
			rep["replay"] = info
		}
	}
	if suffix != "" && ob.kind != "safety" && ob.status == "sat" {
		// does the failed condition let the real code panic further on?
		if ds := v.downstreamPanic(ob, work); ds != nil {
			sub := map[string]interface{}{}
			if ok, info := v.replay(ds, work, sub); ok {
				suffix = ""
				rep["replay"] = "the failed condition admits a run-time panic at " + ds.name + ": " + info
				for k, val := range sub {
					rep[k] = val
				}
			} else {
				rep["downstream_panic_candidate"] = ds.name
				rep["downstream_replay"] = info
			}
		}
	}
	if suffix != "" {
		// a hand-written witness template realising the counterexample class of this obligation
		if ok, info := v.replayTemplate(ob, work, rep); ok {
			suffix = ""
			rep["replay"] = info
		} else if info != "" {
			rep["template_replay"] = info
		}
	}
	data, _ := json.MarshalIndent(rep, "", " ")
	os.WriteFile(path, data, 0o644)
	fmt.Printf("VIOLATION property=%s replay=%s%s\n", prop, path, suffix)
	fmt.Printf("  failed obligation: %s (%s, %s)\n", ob.name, ob.status, ob.backend)
}

func init() {
	sort.Strings(targetDirs)
}
