package main

// Ghost-update hooks on non-call instructions (channel send, select, map update): the contract may say
// "at after send#k: ghost ..." and refer to the instruction's values by the given names.

import (
	"go/types"

	"golang.org/x/tools/go/ssa"
)

func (v *vc) instrHook(fr *frame, st *state, in ssa.Instruction, vals []string, ts []types.Type, name string) {
	v.instrHookNamed(fr, st, in, vals, ts, []string{name})
}

func (v *vc) instrHookNamed(fr *frame, st *state, in ssa.Instruction, vals []string, ts []types.Type, names []string) {
	if v.fc == nil || len(v.fc.ghostAt) == 0 {
		return
	}
	site := v.callSite(in)
	if site == "" {
		return
	}
	v.curBlock = in.Block()
	v.hookNames = map[string]tv{}
	for i, n := range names {
		if i < len(vals) {
			v.hookNames[n] = tv{term: vals[i], typ: ts[i]}
		}
	}
	v.ghostUpdates(fr, st, "after "+site)
	v.hookNames = nil
}
