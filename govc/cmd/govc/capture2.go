package main

import "golang.org/x/tools/go/ssa"

// receiverName: the name of the receiver of the method a closure is (transitively) nested in ("" if none).
func receiverName(fn *ssa.Function) string {
	p := fn
	for p.Parent() != nil {
		p = p.Parent()
	}
	if r := p.Signature.Recv(); r != nil {
		return r.Name()
	}
	return ""
}

// runsInlineInParent: the closure is only ever called or deferred directly where it is created, and it is small
// and loop-free, so the generator executes its body inside the parent (at the call, or at the parent's returns).
func runsInlineInParent(e *engine, fn *ssa.Function) bool {
	parent := fn.Parent()
	if parent == nil {
		return false
	}
	found := false
	for _, b := range parent.Blocks {
		for _, in := range b.Instrs {
			if mc, ok := in.(*ssa.MakeClosure); ok && mc.Fn == ssa.Value(fn) {
				found = true
				if closureValueEscapes(mc) {
					return false
				}
			}
		}
	}
	if !found {
		return false
	}
	if len(e.fnInfo(fn).loops) > 0 {
		return false
	}
	n := 0
	for _, b := range fn.Blocks {
		n += len(b.Instrs)
	}
	return n <= 80
}
