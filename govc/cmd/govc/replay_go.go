package main

import (
	"fmt"
	"go/ast"
	"go/types"
	"strings"
)

// Contract expressions as Go, for the replay harness: the concretised input must satisfy the preconditions,
// and a failed postcondition is re-evaluated on what the real code returned. Supported: arithmetic and
// comparisons, len/cap, field and index expressions, all/ex over integer ranges, imp/iff/ite, user `pure`
// functions (expanded), old(e) and old_elem(s, i[, f]) (snapshots taken before the call). Anything else makes
// the conversion fail, and the replay then only checks for run-time panics.

type substEnv struct {
	m      map[string]ast.Expr
	parent *substEnv
}

type goConv struct {
	v       *vc
	params  map[string]string // parameter name -> Go variable in the harness
	results []string
	pre     []string // statements to run before the call (snapshots)
	snaps   map[string]string
	ok      bool
	bound   map[string]bool
}

func (v *vc) newGoConv(params map[string]string, results []string) *goConv {
	return &goConv{v: v, params: params, results: results, snaps: map[string]string{}, ok: true, bound: map[string]bool{}}
}

func (g *goConv) fail() string {
	g.ok = false
	return "false"
}

func (g *goConv) paramType(name string) types.Type {
	for _, p := range g.v.fn.Params {
		if p.Name() == name {
			return p.Type()
		}
	}
	return nil
}

// typeOf: static type of a spec expression built from parameters, fields, indexing and len (nil if unknown).
func (g *goConv) typeOf(e ast.Expr, env *substEnv) types.Type {
	switch x := e.(type) {
	case *ast.ParenExpr:
		return g.typeOf(x.X, env)
	case *ast.Ident:
		for cur := env; cur != nil; cur = cur.parent {
			if a, ok := cur.m[x.Name]; ok {
				return g.typeOf(a, cur.parent)
			}
		}
		if g.bound[x.Name] {
			return types.Typ[types.Int]
		}
		return g.paramType(x.Name)
	case *ast.SelectorExpr:
		bt := g.typeOf(x.X, env)
		if bt == nil {
			return nil
		}
		if p, ok := bt.Underlying().(*types.Pointer); ok {
			bt = p.Elem()
		}
		if s, ok := bt.Underlying().(*types.Struct); ok {
			for i := 0; i < s.NumFields(); i++ {
				if s.Field(i).Name() == x.Sel.Name {
					return s.Field(i).Type()
				}
			}
		}
		return nil
	case *ast.IndexExpr:
		bt := g.typeOf(x.X, env)
		if bt == nil {
			return nil
		}
		switch u := bt.Underlying().(type) {
		case *types.Slice:
			return u.Elem()
		case *types.Array:
			return u.Elem()
		}
		return nil
	case *ast.CallExpr:
		if id, ok := x.Fun.(*ast.Ident); ok {
			switch id.Name {
			case "len", "cap":
				return types.Typ[types.Int]
			case "old":
				if len(x.Args) == 1 {
					return g.typeOf(x.Args[0], env)
				}
			}
		}
	case *ast.BasicLit:
		return types.Typ[types.Int]
	}
	return nil
}

// snapshot evaluates e before the call and returns the name of the variable holding the (copied) value.
func (g *goConv) snapshot(e ast.Expr, env *substEnv) string {
	code := g.conv(e, env)
	if !g.ok {
		return "false"
	}
	if n, ok := g.snaps[code]; ok {
		return n
	}
	t := g.typeOf(e, env)
	if t == nil {
		return g.fail()
	}
	name := fmt.Sprintf("old%d", len(g.snaps))
	switch t.Underlying().(type) {
	case *types.Slice:
		g.pre = append(g.pre, fmt.Sprintf("%s := append(%s(nil), %s...)", name, g.v.goType(t), code))
	case *types.Basic:
		g.pre = append(g.pre, fmt.Sprintf("%s := %s", name, code))
	default:
		return g.fail()
	}
	g.pre = append(g.pre, "_ = "+name)
	g.snaps[code] = name
	return name
}

func (g *goConv) conv(e ast.Expr, env *substEnv) string {
	switch x := e.(type) {
	case *ast.BasicLit:
		return x.Value
	case *ast.Ident:
		for cur := env; cur != nil; cur = cur.parent {
			if a, ok := cur.m[x.Name]; ok {
				return "(" + g.conv(a, cur.parent) + ")"
			}
		}
		if g.bound[x.Name] {
			return x.Name
		}
		if p, is := g.params[x.Name]; is {
			return p
		}
		switch x.Name {
		case "true", "false", "nil":
			return x.Name
		}
		results := g.results
		if x.Name == "result" && len(results) == 1 {
			return results[0]
		}
		if strings.HasPrefix(x.Name, "result") {
			var k int
			if _, err := fmt.Sscanf(x.Name, "result%d", &k); err == nil && k < len(results) {
				return results[k]
			}
		}
		sig := g.v.fn.Signature
		for i := 0; i < sig.Results().Len() && i < len(results); i++ {
			if sig.Results().At(i).Name() == x.Name {
				return results[i]
			}
		}
		if x.Name == "err" && len(results) > 0 {
			return results[len(results)-1]
		}
		return g.fail()
	case *ast.ParenExpr:
		return "(" + g.conv(x.X, env) + ")"
	case *ast.UnaryExpr:
		return x.Op.String() + g.conv(x.X, env)
	case *ast.BinaryExpr:
		return "(" + g.conv(x.X, env) + " " + x.Op.String() + " " + g.conv(x.Y, env) + ")"
	case *ast.SelectorExpr:
		return g.conv(x.X, env) + "." + x.Sel.Name
	case *ast.IndexExpr:
		return g.conv(x.X, env) + "[" + g.conv(x.Index, env) + "]"
	case *ast.CallExpr:
		id, isId := x.Fun.(*ast.Ident)
		if !isId {
			return g.fail()
		}
		switch id.Name {
		case "imp":
			if len(x.Args) != 2 {
				return g.fail()
			}
			return "(!(" + g.conv(x.Args[0], env) + ") || (" + g.conv(x.Args[1], env) + "))"
		case "iff":
			if len(x.Args) != 2 {
				return g.fail()
			}
			return "((" + g.conv(x.Args[0], env) + ") == (" + g.conv(x.Args[1], env) + "))"
		case "len", "cap", "int", "int64", "uint64", "uint32", "byte":
			if len(x.Args) != 1 {
				return g.fail()
			}
			return id.Name + "(" + g.conv(x.Args[0], env) + ")"
		case "all", "ex":
			if len(x.Args) != 4 {
				return g.fail()
			}
			vn := x.Args[0].(*ast.Ident).Name
			lo, hi := g.conv(x.Args[1], env), g.conv(x.Args[2], env)
			was := g.bound[vn]
			g.bound[vn] = true
			body := g.conv(x.Args[3], env)
			g.bound[vn] = was
			if id.Name == "all" {
				return fmt.Sprintf("func() bool { for %s := int(%s); %s < int(%s); %s++ { if !(%s) { return false } }; return true }()", vn, lo, vn, hi, vn, body)
			}
			return fmt.Sprintf("func() bool { for %s := int(%s); %s < int(%s); %s++ { if %s { return true } }; return false }()", vn, lo, vn, hi, vn, body)
		case "old":
			if len(x.Args) != 1 {
				return g.fail()
			}
			return g.snapshot(x.Args[0], env)
		case "old_elem":
			if len(x.Args) != 2 && len(x.Args) != 3 {
				return g.fail()
			}
			s := g.snapshot(x.Args[0], env)
			r := s + "[" + g.conv(x.Args[1], env) + "]"
			if len(x.Args) == 3 {
				f, ok := x.Args[2].(*ast.Ident)
				if !ok {
					return g.fail()
				}
				r += "." + f.Name
			}
			return r
		}
		if pf, ok := g.v.eng.contracts.pures[id.Name]; ok && len(pf.params) == len(x.Args) {
			m := map[string]ast.Expr{}
			for i, p := range pf.params {
				m[p] = x.Args[i]
			}
			return "(" + g.conv(pf.body, &substEnv{m: m, parent: env}) + ")"
		}
		return g.fail()
	}
	return g.fail()
}
