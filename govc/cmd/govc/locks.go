package main

// Lock discipline (C19): `guarded T.f by mu` in a package's contract file says that field f of a T may be read
// only while the T's mutex field mu is held (read or write mode) and written only while it is write-held.
// The sweep verifies EVERY function of the package that touches such a field (no per-function annotation),
// under a synthetic contract: a ghost map per mutex, object ref -> 0 unlocked / 1 read-held / 2 write-held,
// unknown at function entry, updated by the sync.(RW)Mutex calls of the body; each access yields an obligation
// "held in the needed mode, or the object was allocated by this very function" (constructors). Functions that
// are only ever called with the lock held say so (`holds x.mu` / `holds_r x.mu`): assumed at their entry,
// proved at every static call site. This is the sequential core of race freedom (which mutex guards which
// field); it is not a schedule exploration and says nothing about atomics, channels or lock ordering.

import (
	"fmt"
	"go/ast"
	"go/types"
	"sort"
	"strings"

	"golang.org/x/tools/go/ssa"
)

func namedStruct(t types.Type) (*types.Named, bool) {
	if p, ok := t.Underlying().(*types.Pointer); ok {
		t = p.Elem()
	}
	if p, ok := t.(*types.Pointer); ok {
		t = p.Elem()
	}
	nt, ok := t.(*types.Named)
	if !ok || nt.Obj().Pkg() == nil {
		return nil, false
	}
	if _, ok := nt.Underlying().(*types.Struct); !ok {
		return nil, false
	}
	return nt, true
}

// guardsOf returns the guards declared for package path p.
func (e *engine) guardsOf(p string) []*guardSpec {
	var out []*guardSpec
	for _, g := range e.contracts.guards {
		if g.pkgPath == p {
			out = append(out, g)
		}
	}
	return out
}

// guardFor: the guard covering field `field` of struct type st (nil if none). Types that are the same memory
// (type storeFSM store) share their guards.
func (e *engine) guardFor(st types.Type, field string) *guardSpec {
	nt, ok := namedStruct(st)
	if !ok {
		return nil
	}
	names := map[string]bool{nt.Obj().Name(): true}
	if c, ok := canonStruct(nt).(*types.Named); ok {
		names[c.Obj().Name()] = true
	}
	for _, g := range e.contracts.guards {
		if g.pkgPath == nt.Obj().Pkg().Path() && g.field == field && (names[g.typ] || sameStructAs(nt, g.typ)) {
			return g
		}
	}
	return nil
}

func sameStructAs(nt *types.Named, name string) bool {
	o, ok := nt.Obj().Pkg().Scope().Lookup(name).(*types.TypeName)
	if !ok {
		return false
	}
	return types.Identical(o.Type().Underlying(), nt.Underlying())
}

// isMutexOf: (struct type, field) is the mutex of some guard of that type.
func (e *engine) lockGhostName(st types.Type, field string) string {
	nt, ok := namedStruct(st)
	if !ok {
		return ""
	}
	for _, g := range e.contracts.guards {
		if g.pkgPath == nt.Obj().Pkg().Path() && g.mu == field && (g.typ == nt.Obj().Name() || sameStructAs(nt, g.typ)) {
			return "lock_" + g.typ + "_" + g.mu
		}
	}
	return ""
}

// lockGhostOfArg: the ghost map of the mutex whose address is the receiver argument of a sync call.
func (e *engine) lockGhostOfArg(arg ssa.Value) (ghost string, fa *ssa.FieldAddr) {
	f, ok := arg.(*ssa.FieldAddr)
	if !ok {
		return "", nil
	}
	stt := f.X.Type().Underlying().(*types.Pointer).Elem()
	s, ok := stt.Underlying().(*types.Struct)
	if !ok {
		return "", nil
	}
	return e.lockGhostName(stt, s.Field(f.Field).Name()), f
}

// sweepContract builds the synthetic contract the sweep verifies fn under.
func (e *engine) sweepContract(fn *ssa.Function) *funcContract {
	pkg := fn.Pkg
	for p := fn; pkg == nil && p != nil; p = p.Parent() {
		pkg = p.Pkg
	}
	if pkg == nil {
		return nil
	}
	path := pkg.Pkg.Path()
	gs := e.guardsOf(path)
	if len(gs) == 0 && !hasSyncLockCall(fn) {
		return nil
	}
	name := fn.RelString(pkg.Pkg)
	fc := &funcContract{pkgPath: path, name: name, loops: map[int]*loopSpec{}, callRequires: map[string][]*clause{}, expectFail: map[string]bool{},
		nosafety: true, sweep: true, props: []string{"C19"}, dynPure: true}
	seen := map[string]bool{}
	for _, g := range gs {
		n := "lock_" + g.typ + "_" + g.mu
		if !seen[n] {
			seen[n] = true
			fc.ghosts = append(fc.ghosts, ghostDecl{name: n, typ: "map", init: "?"})
		}
	}
	bal := map[string]bool{}
	balGhostsOf(fn, bal)
	for _, n := range sortedKeys(bal) {
		fc.ghosts = append(fc.ghosts, ghostDecl{name: n, typ: "map", init: "?"})
		fc.ghosts = append(fc.ghosts, ghostDecl{name: relPrefix + n, typ: "map"})
	}
	if real := e.contractFor(fn); real != nil {
		fc.lockHandoff = real.lockHandoff
		fc.waitsHolding = real.waitsHolding
		fc.absentUnused = real.absentUnused
		fc.holds = real.holds
		fc.readsUnlocked = real.readsUnlocked
		fc.setupOnly = real.setupOnly
		fc.file, fc.line = real.file, real.line
	}
	return fc
}

// touchesGuarded: fn's body accesses a guarded field, takes one of the tracked mutexes, or statically calls a
// function that must be called with a lock held.
func (e *engine) touchesGuarded(fn *ssa.Function) bool {
	for _, b := range fn.Blocks {
		for _, in := range b.Instrs {
			switch x := in.(type) {
			case *ssa.FieldAddr:
				stt := x.X.Type().Underlying().(*types.Pointer).Elem()
				if s, ok := stt.Underlying().(*types.Struct); ok {
					if e.guardFor(stt, s.Field(x.Field).Name()) != nil {
						return true
					}
				}
			case ssa.CallInstruction:
				if callee, ok := x.Common().Value.(*ssa.Function); ok {
					if fc := e.contractFor(callee); fc != nil && len(fc.holds) > 0 {
						return true
					}
				}
			}
		}
	}
	return false
}

// sweepTargets: every function (closures included) of the packages that declare guards and touch them.
func (e *engine) sweepTargets() []*ssa.Function {
	pk := map[string]bool{}
	for _, g := range e.contracts.guards {
		pk[g.pkgPath] = true
	}
	var keys []string
	for k, f := range e.funcs {
		pkg := f.Pkg
		for p := f; pkg == nil && p != nil; p = p.Parent() {
			pkg = p.Pkg
		}
		if pkg == nil || f.Blocks == nil || f.Synthetic != "" {
			continue
		}
		if !pk[pkg.Pkg.Path()] && !(e.isTargetPkg(pkg.Pkg.Path()) && hasSyncLockCall(f)) {
			continue
		}
		if strings.HasSuffix(e.prog.Fset.Position(f.Pos()).Filename, "_test.go") {
			continue
		}
		if f.Parent() != nil && runsInlineInParent(e, f) {
			continue // checked where it runs: inside its parent, with the parent's lock state
		}
		if e.touchesGuarded(f) || spawnsGoroutineClosure(f) || hasSyncLockCall(f) {
			keys = append(keys, k)
		}
	}
	sort.Strings(keys)
	var out []*ssa.Function
	for _, k := range keys {
		out = append(out, e.funcs[k])
	}
	return out
}

// holdTarget resolves `x.mu` in a holds clause to (object ref term, ghost name).
func (v *vc) holdTarget(se *specEnv, e ast.Expr) (ref, ghost string, ok bool) {
	sel, isSel := e.(*ast.SelectorExpr)
	if !isSel {
		return "", "", false
	}
	base := se.eval(sel.X)
	if base.typ == nil {
		return "", "", false
	}
	g := v.eng.lockGhostName(base.typ, sel.Sel.Name)
	if g == "" {
		return "", "", false
	}
	return base.term, g, true
}

func needLevel(write bool) string {
	if write {
		return "2"
	}
	return "1"
}

// assumeHolds: at the entry of a function under sweep, its `holds` clauses are facts.
func (v *vc) assumeHolds(fr *frame, st *state) {
	if v.fc == nil || !v.fc.sweep {
		return
	}
	for _, h := range v.fc.holds {
		se := v.newSpecEnvEntry(fr, st)
		ref, g, ok := v.holdTarget(se, h.expr)
		if !ok {
			v.errs = append(v.errs, fmt.Sprintf("holds %s: not a tracked mutex of a parameter", h.text))
			continue
		}
		if cur, has := st.ghost[g]; has {
			v.rawFact(fmt.Sprintf("(>= (select %s %s) %s)", cur, ref, needLevel(h.write)))
			v.trusted[fmt.Sprintf("precondition of %s: the caller holds %s (proved at every static call site swept)", v.fnName, h.text)] = true
		}
	}
}

// checkCalleeHolds: a static call of a function that must be entered with a lock held.
func (v *vc) checkCalleeHolds(fr *frame, st *state, instr ssa.Instruction, callee *ssa.Function, c *ssa.CallCommon, args []string, site string) {
	if v.fc == nil || !v.fc.sweep || callee == nil || v.fc.setupOnly != "" {
		return
	}
	fc := v.eng.contractFor(callee)
	if fc == nil || len(fc.holds) == 0 {
		return
	}
	se := v.calleeEnv(fr, st, fc, callee, c, args)
	for _, h := range fc.holds {
		ref, g, ok := v.holdTarget(se, h.expr)
		if !ok {
			continue
		}
		cur, has := st.ghost[g]
		if !has {
			continue
		}
		v.oblige(st, "guard", "callee_needs_"+strings.ReplaceAll(h.text, " ", ""), site,
			fmt.Sprintf("(or (>= %s %s) (>= (select %s %s) %s))", ref, v.entry.top, cur, ref, needLevel(h.write)), []string{"C19"})
	}
}

// onLockCall updates the ghost map for a sync.(RW)Mutex call whose receiver is a tracked mutex field.
func (v *vc) onLockCall(fr *frame, st *state, name string, c *ssa.CallCommon) {
	if v.fc == nil || !v.fc.sweep || len(c.Args) == 0 {
		return
	}
	v.onBalanceCall(fr, st, name, c)
	g, fa := v.eng.lockGhostOfArg(c.Args[0])
	if g == "" {
		return
	}
	cur, has := st.ghost[g]
	if !has {
		return
	}
	a := fr.addrs[fa]
	if a == nil || a.kind != aField {
		return
	}
	level := "0"
	switch {
	case strings.HasSuffix(name, ".RLock"):
		level = "1"
	case strings.HasSuffix(name, ".Lock"):
		level = "2"
	}
	st.ghost[g] = v.define("ghost "+g, "(Array Int Int)", sto(cur, a.base, level))
}

// guardAccess emits the obligation for an access to a guarded field.
func (v *vc) guardAccess(fr *frame, st *state, in *ssa.FieldAddr, ref string, stt types.Type) {
	if v.fc == nil || !v.fc.sweep {
		return
	}
	s := stt.Underlying().(*types.Struct)
	fname := s.Field(in.Field).Name()
	gs := v.eng.guardFor(stt, fname)
	if gs == nil {
		return
	}
	g := "lock_" + gs.typ + "_" + gs.mu
	cur, has := st.ghost[g]
	if !has {
		return
	}
	if owner := ownerOf(in.X); owner != nil {
		// the object is stored in an `owned` field: it is protected by its owner's mutex
		ref = v.val(fr, st, owner)
		v.trusted["assumed: an object stored in an `owned` field is protected by the owner's mutex and reached only through the owner"] = true
	}
	write := addrIsWritten(in, map[ssa.Value]bool{})
	kind := "read"
	if write {
		kind = "write"
	}
	if v.fc.setupOnly != "" {
		v.trusted[fmt.Sprintf("assumed in contract of %s: setup only, called before the object is shared (%s)", v.fnName, v.fc.setupOnly)] = true
		return
	}
	if why, ok := v.fc.readsUnlocked[gs.typ+"."+fname]; ok && !write {
		v.trusted[fmt.Sprintf("assumed in contract of %s: unlocked reads of %s.%s are by the goroutine that owns its writes (%s)", v.fnName, gs.typ, fname, why)] = true
		return
	}
	v.oblige(st, "guard", fmt.Sprintf("%s_of_%s.%s_holds_%s", kind, gs.typ, fname, gs.mu), v.site(in),
		fmt.Sprintf("(or (>= %s %s) (>= (select %s %s) %s))", ref, v.entry.top, cur, ref, needLevel(write)), []string{"C19"})
}

// addrIsWritten: the address (or one derived from it) is stored through, or escapes into a call.
func addrIsWritten(p ssa.Value, seen map[ssa.Value]bool) bool {
	if seen[p] {
		return false
	}
	seen[p] = true
	refs := p.Referrers()
	if refs == nil {
		return false
	}
	for _, r := range *refs {
		switch x := r.(type) {
		case *ssa.Store:
			if x.Addr == p {
				return true
			}
		case *ssa.FieldAddr:
			if addrIsWritten(x, seen) {
				return true
			}
		case *ssa.IndexAddr:
			if addrIsWritten(x, seen) {
				return true
			}
		case *ssa.UnOp:
			// the loaded map / slice header: updating the map or storing into the slice's elements changes
			// what the field guards
			if loadedIsMutated(x) {
				return true
			}
		case ssa.CallInstruction:
			// &x.f handed to a callee (atomic.AddInt64(&s.n, 1), json.Unmarshal(&x.f)): may be written
			for _, a := range x.Common().Args {
				if a == p {
					return true
				}
			}
		}
	}
	return false
}
