package main

import (
	"encoding/json"
	"fmt"
	"os"
	"os/exec"
	"path/filepath"
	"regexp"
	"strings"
	"time"
)

// Bounded stand-ins: where a contract carries an `assume` the generator cannot discharge (listed in the
// evidence as an assumption), a test under /verif/bounded/<PROP>_<name>.go exercises the REAL function
// exhaustively up to a stated bound. It is injected into the package with go test -overlay (nothing is written
// to /repo), is labelled bounded in the evidence and is never counted among the discharged obligations.
//
// File header (comment lines):   // govc-bounded: dir=models
//                                // govc-bounded: stands-in-for=<function>/<assume label>
//                                // govc-bounded: bound=<what is enumerated>
// The test is TestGovcBounded; it prints "GOVC-BOUNDED-OK cases=<n>" or "GOVC-BOUNDED-FAIL <description>".

type boundedResult struct {
	File       string  `json:"file"`
	Dir        string  `json:"package_dir"`
	StandsIn   string  `json:"stands_in_for"`
	Bound      string  `json:"bound"`
	Status     string  `json:"status"`
	Cases      string  `json:"cases,omitempty"`
	Seconds    float64 `json:"seconds"`
	Output     string  `json:"output,omitempty"`
	Level      string  `json:"level"`
	Known      []string `json:"known_findings,omitempty"`
	ReplayPath string  `json:"replay,omitempty"`
}

var boundedHdr = regexp.MustCompile(`(?m)^// govc-bounded: (\w[\w-]*)=(.*)$`)

// Known findings of a bounded stand-in: an entry of known_findings.json with obligation
// "bounded:<file>#<case id>" and status "known". The ids listed for a file are handed to the test in
// GOVC_KNOWN_CASES (separated by ';'); a test that meets a failing case with such an id prints
// "GOVC-BOUNDED-KNOWN <id> <what it saw>" and goes on, any other failing case is a GOVC-BOUNDED-FAIL.
func knownBoundedCases(prop, file string) map[string]knownFinding {
	out := map[string]knownFinding{}
	pre := "bounded:" + filepath.Base(file) + "#"
	for _, k := range loadKnown() {
		if k.Property == prop && k.Status == "known" && strings.HasPrefix(k.Obligation, pre) {
			out[strings.TrimPrefix(k.Obligation, pre)] = k
		}
	}
	return out
}

var boundedKnownLine = regexp.MustCompile(`(?m)^\s*GOVC-BOUNDED-KNOWN (\S+)(.*)$`)

func runBounded(prop, tier, work string) (res []boundedResult, violations int) {
	files, _ := filepath.Glob("/verif/bounded/" + prop + "_*.go")
	for _, f := range files {
		src, err := os.ReadFile(f)
		if err != nil {
			continue
		}
		h := map[string]string{}
		for _, m := range boundedHdr.FindAllStringSubmatch(string(src), -1) {
			h[m[1]] = strings.TrimSpace(m[2])
		}
		r := boundedResult{File: f, Dir: h["dir"], StandsIn: h["stands-in-for"], Bound: h["bound"], Level: "bounded"}
		if r.Dir == "" {
			r.Status = "broken: no dir header"
			res = append(res, r)
			continue
		}
		ov := filepath.Join(work, "bounded_ov.json")
		target := filepath.Join(repoRoot, r.Dir, "govc_bounded_test.go")
		data, _ := json.Marshal(map[string]interface{}{"Replace": map[string]string{target: f}})
		os.WriteFile(ov, data, 0o644)
		cmd := exec.Command("go", "test", "-overlay", ov, "-vet=off", "-count=1", "-timeout", "900s", "-run", "^TestGovcBounded$", "-v", "./"+r.Dir+"/")
		cmd.Dir = repoRoot
		knownCases := knownBoundedCases(prop, f)
		cmd.Env = append(os.Environ(), "GOFLAGS=-mod=mod", "GOPROXY=off", "GOSUMDB=off", "GOTOOLCHAIN=local", "GOVC_BOUND_TIER="+tier,
			"GOVC_KNOWN_CASES="+strings.Join(sortedKeys(knownCases), ";"))
		t0 := time.Now()
		out, _ := cmd.CombinedOutput()
		r.Seconds = time.Since(t0).Seconds()
		text := string(out)
		seenKnown := map[string]bool{}
		for _, m := range boundedKnownLine.FindAllStringSubmatch(text, -1) {
			k, listed := knownCases[m[1]]
			if !listed {
				// the test may only waive what it was handed: treat as a failure
				text = "GOVC-BOUNDED-FAIL case " + m[1] + " reported as known but not listed in known_findings.json:" + m[2] + "\n" + text
				continue
			}
			if !seenKnown[m[1]] {
				seenKnown[m[1]] = true
				fmt.Printf("KNOWN-FINDING: property=%s %s: %s\n", prop, k.Obligation, k.What)
				r.Known = append(r.Known, k.Obligation)
			}
		}
		switch {
		case strings.Contains(text, "GOVC-BOUNDED-FAIL"):
			r.Status = "fail"
			i := strings.Index(text, "GOVC-BOUNDED-FAIL")
			r.Output = firstLine(text[i:])
		case strings.Contains(text, "GOVC-BOUNDED-OK"):
			r.Status = "ok"
			i := strings.Index(text, "GOVC-BOUNDED-OK")
			r.Cases = strings.TrimSpace(strings.TrimPrefix(firstLine(text[i:]), "GOVC-BOUNDED-OK"))
		default:
			r.Status = "broken"
			if len(text) > 1500 {
				text = text[len(text)-1500:]
			}
			r.Output = text
		}
		if r.Status == "fail" {
			violations++
			outDir := "/verif/replay/out"
			os.MkdirAll(outDir, 0o755)
			p := filepath.Join(outDir, sanitize(prop+"-bounded-"+filepath.Base(f))+".json")
			rep := map[string]interface{}{"property": prop, "obligation": r.StandsIn + " (bounded stand-in)", "kind": "bounded", "bound": r.Bound,
				"replay": "real code fails on the enumerated input: " + r.Output, "replay_test_file": f,
				"replay_cmd": fmt.Sprintf("cd /repo && go test -overlay <overlay mapping %s to %s> -vet=off -count=1 -run '^TestGovcBounded$' -v ./%s/", target, f, r.Dir)}
			d, _ := json.MarshalIndent(rep, "", " ")
			os.WriteFile(p, d, 0o644)
			r.ReplayPath = p
			fmt.Printf("VIOLATION property=%s replay=%s\n", prop, p)
			fmt.Printf("  bounded stand-in for %s failed: %s\n", r.StandsIn, r.Output)
		} else if r.Status != "ok" {
			fmt.Printf("BROKEN-CHECK: bounded stand-in %s did not run: %s\n", f, r.Status)
		} else {
			fmt.Printf("   bounded  %s: %s (%s) %.1fs -- not counted as proved\n", r.StandsIn, r.Cases, r.Bound, r.Seconds)
		}
		res = append(res, r)
	}
	return
}

func firstLine(s string) string {
	if i := strings.IndexByte(s, '\n'); i >= 0 {
		return s[:i]
	}
	return s
}
