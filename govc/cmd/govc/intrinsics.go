package main

// Built-in functions and trusted models of standard-library / third-party functions.
// Every model used in a run is recorded in vc.trusted and reported in the evidence file.

import (
	"fmt"
	"go/types"
	"strings"

	"golang.org/x/tools/go/ssa"
)

const unixOffset = "62135596800000000000" // nanoseconds between year 1 and 1970

func (v *vc) sliceRow(st *state, s string, et types.Type) (heap, row string) {
	h, _ := v.elemHeap(et)
	return h, sel(v.getHeap(st, h), fmt.Sprintf("(s_arr %s)", s))
}

func (v *vc) builtin(fr *frame, st *state, instr ssa.Instruction, b *ssa.Builtin, c *ssa.CallCommon, res *ssa.Call) {
	args := make([]string, len(c.Args))
	for i, a := range c.Args {
		args[i] = v.val(fr, st, a)
	}
	set := func(t string) {
		if res != nil {
			fr.vals[res] = v.define(res.Name(), v.sc.sortOf(res.Type()), t)
		}
	}
	switch b.Name() {
	case "len":
		switch xt := c.Args[0].Type().Underlying().(type) {
		case *types.Slice:
			set(fmt.Sprintf("(s_len %s)", args[0]))
		case *types.Basic:
			set(fmt.Sprintf("(str_len %s)", args[0]))
		case *types.Map:
			_, _, hl := v.mapHeaps(xt)
			n := v.define("maplen", "Int", ite(fmt.Sprintf("(= %s 0)", args[0]), "0", sel(v.getHeap(st, hl), args[0])))
			v.fact(st, fmt.Sprintf("(and (>= %s 0) (<= %s 72057594037927936))", n, n))
			set(n)
		case *types.Pointer:
			set(fmt.Sprint(xt.Elem().Underlying().(*types.Array).Len()))
		case *types.Array:
			set(fmt.Sprint(xt.Len()))
		default:
			n := v.havoc("len", types.Typ[types.Int], st)
			v.fact(st, fmt.Sprintf("(>= %s 0)", n))
			set(n)
		}
	case "cap":
		switch xt := c.Args[0].Type().Underlying().(type) {
		case *types.Slice:
			set(fmt.Sprintf("(s_cap %s)", args[0]))
		case *types.Pointer:
			set(fmt.Sprint(xt.Elem().Underlying().(*types.Array).Len()))
		default:
			n := v.havoc("cap", types.Typ[types.Int], st)
			v.fact(st, fmt.Sprintf("(>= %s 0)", n))
			set(n)
		}
	case "append":
		r := v.appendOp(fr, st, c, args)
		set(r)
	case "copy":
		set(v.copyOp(fr, st, c, args))
	case "delete":
		mt := c.Args[0].Type().Underlying().(*types.Map)
		_, hd, hl := v.mapHeaps(mt)
		m, k := args[0], args[1]
		curD := v.getHeap(st, hd)
		had := v.define("had", "Bool", and(fmt.Sprintf("(not (= %s 0))", m), sel(sel(curD, m), k)))
		v.setHeap(st, hd, v.heapSort[hd], ite(fmt.Sprintf("(= %s 0)", m), curD, sto(curD, m, sto(sel(curD, m), k, "false"))))
		curL := v.getHeap(st, hl)
		v.setHeap(st, hl, v.heapSort[hl], ite(fmt.Sprintf("(= %s 0)", m), curL, sto(curL, m, fmt.Sprintf("(- %s (ite %s 1 0))", sel(curL, m), had))))
	case "min", "max":
		op := "<="
		if b.Name() == "max" {
			op = ">="
		}
		cur := args[0]
		for _, a := range args[1:] {
			cur = fmt.Sprintf("(ite (%s %s %s) %s %s)", op, cur, a, cur, a)
		}
		set(cur)
	case "close", "print", "println":
	case "recover":
		if res != nil {
			fr.vals[res] = v.havoc("recover", res.Type(), st)
		}
	case "ssa:wrapnilchk":
		set(args[0])
	default:
		v.note("builtin %s not modelled", b.Name())
		if res != nil {
			fr.vals[res] = v.havoc("builtin", res.Type(), st)
		}
	}
}

func (v *vc) appendOp(fr *frame, st *state, c *ssa.CallCommon, args []string) string {
	s, t := args[0], args[1]
	et := c.Args[0].Type().Underlying().(*types.Slice).Elem()
	tIsStr := isString(c.Args[1].Type())
	var n string
	known := -1
	if tIsStr {
		n = fmt.Sprintf("(str_len %s)", t)
	} else {
		n = fmt.Sprintf("(s_len %s)", t)
		if k, ok := v.knownLen[t]; ok {
			known = k
			n = fmt.Sprint(k)
		}
	}
	newlen := v.define("newlen", "Int", fmt.Sprintf("(+ (s_len %s) %s)", s, n))
	fits := v.define("fits", "Bool", fmt.Sprintf("(<= %s (s_cap %s))", newlen, s))
	v.fact(st, fmt.Sprintf("(<= %s 72057594037927936)", newlen))
	ref := v.alloc(st, "appnew")
	capNew := v.fresh("capnew")
	v.decl(capNew, "Int")
	v.fact(st, fmt.Sprintf("(and (>= %s %s) (<= %s 72057594037927936))", capNew, newlen, capNew))
	arrS, offS, lenS := fmt.Sprintf("(s_arr %s)", s), fmt.Sprintf("(s_off %s)", s), fmt.Sprintf("(s_len %s)", s)
	tElem := func(j string) string { // j-th appended element value (non-struct)
		if tIsStr {
			return fmt.Sprintf("(str_at %s %s)", t, j)
		}
		h, _ := v.elemHeap(et)
		return sel(sel(v.getHeap(st, h), fmt.Sprintf("(s_arr %s)", t)), fmt.Sprintf("(+ (s_off %s) %s)", t, j))
	}
	if !isStruct(et) {
		h, sort := v.elemHeap(et)
		A := v.getHeap(st, h)
		rowS := sel(A, arrS)
		esort := v.sc.sortOf(et)
		var rowIn, rowNew string
		rowNewBase := v.fresh("rownew")
		v.decl(rowNewBase, fmt.Sprintf("(Array Int %s)", esort))
		v.rawFact(fmt.Sprintf("(forall ((i Int)) (! (=> (and (<= 0 i) (< i %s)) (= (select %s i) (select %s (+ %s i)))) :pattern ((select %s i))))", lenS, rowNewBase, rowS, offS, rowNewBase))
		if known >= 0 && known <= 8 {
			rowIn = rowS
			rowNew = rowNewBase
			for j := 0; j < known; j++ {
				e := v.define("appelem", esort, tElem(fmt.Sprint(j)))
				rowIn = sto(rowIn, fmt.Sprintf("(+ %s %s %d)", offS, lenS, j), e)
				rowNew = sto(rowNew, fmt.Sprintf("(+ %s %d)", lenS, j), e)
			}
		} else {
			rowIn = v.fresh("rowin")
			v.decl(rowIn, fmt.Sprintf("(Array Int %s)", esort))
			base := v.define("appbase", "Int", fmt.Sprintf("(+ %s %s)", offS, lenS))
			v.rawFact(fmt.Sprintf("(forall ((i Int)) (! (= (select %s i) (ite (and (<= %s i) (< i (+ %s %s))) %s (select %s i))) :pattern ((select %s i))))", rowIn, base, base, n, tElem(fmt.Sprintf("(- i %s)", base)), rowS, rowIn))
			rowNew = v.fresh("rownew2")
			v.decl(rowNew, fmt.Sprintf("(Array Int %s)", esort))
			v.rawFact(fmt.Sprintf("(forall ((i Int)) (! (= (select %s i) (ite (and (<= %s i) (< i %s)) %s (select %s i))) :pattern ((select %s i))))", rowNew, lenS, newlen, tElem(fmt.Sprintf("(- i %s)", lenS)), rowNewBase, rowNew))
		}
		v.setHeap(st, h, sort, ite(fits, sto(A, arrS, rowIn), sto(A, ref, rowNew)))
	} else {
		stt := et.Underlying().(*types.Struct)
		for f := 0; f < stt.NumFields(); f++ {
			h, sort := v.fieldHeap(et, f)
			H := v.getHeap(st, h)
			// realloc base: elements of ref copy those of s
			hq := v.fresh(h)
			v.decl(hq, sort)
			v.rawFact(fmt.Sprintf("(forall ((r Int)) (! (= (select %s r) (ite (and (= (elem_arr r) %s) (<= 0 (elem_idx r)) (< (elem_idx r) %s)) (select %s (elem %s (+ %s (elem_idx r)))) (select %s r))) :pattern ((select %s r))))", hq, ref, lenS, H, arrS, offS, H, hq))
			hin, hre := H, hq
			if known >= 0 && known <= 8 {
				for j := 0; j < known; j++ {
					src := v.elemRef(st, fmt.Sprintf("(s_arr %s)", t), fmt.Sprintf("(+ (s_off %s) %d)", t, j))
					val := sel(H, src)
					hin = sto(hin, v.elemRef(st, arrS, fmt.Sprintf("(+ %s %s %d)", offS, lenS, j)), val)
					hre = sto(hre, v.elemRef(st, ref, fmt.Sprintf("(+ %s %d)", lenS, j)), val)
				}
			} else {
				hin2 := v.fresh(h)
				v.decl(hin2, sort)
				base := v.define("appbase", "Int", fmt.Sprintf("(+ %s %s)", offS, lenS))
				v.rawFact(fmt.Sprintf("(forall ((r Int)) (! (= (select %s r) (ite (and (= (elem_arr r) %s) (<= %s (elem_idx r)) (< (elem_idx r) (+ %s %s))) (select %s (elem (s_arr %s) (+ (s_off %s) (- (elem_idx r) %s)))) (select %s r))) :pattern ((select %s r))))", hin2, arrS, base, base, n, H, t, t, base, H, hin2))
				hin = hin2
				hre2 := v.fresh(h)
				v.decl(hre2, sort)
				v.rawFact(fmt.Sprintf("(forall ((r Int)) (! (= (select %s r) (ite (and (= (elem_arr r) %s) (<= %s (elem_idx r)) (< (elem_idx r) %s)) (select %s (elem (s_arr %s) (+ (s_off %s) (- (elem_idx r) %s)))) (select %s r))) :pattern ((select %s r))))", hre2, ref, lenS, newlen, H, t, t, lenS, hq, hre2))
				hre = hre2
			}
			v.setHeap(st, h, sort, ite(fits, hin, hre))
		}
	}
	return ite(fits, fmt.Sprintf("(mk-slice %s %s %s (s_cap %s))", arrS, offS, newlen, s), fmt.Sprintf("(mk-slice %s 0 %s %s)", ref, newlen, capNew))
}

func (v *vc) copyOp(fr *frame, st *state, c *ssa.CallCommon, args []string) string {
	d, s := args[0], args[1]
	et := c.Args[0].Type().Underlying().(*types.Slice).Elem()
	sIsStr := isString(c.Args[1].Type())
	slen := fmt.Sprintf("(s_len %s)", s)
	if sIsStr {
		slen = fmt.Sprintf("(str_len %s)", s)
	}
	n := v.define("copyn", "Int", fmt.Sprintf("(ite (<= (s_len %s) %s) (s_len %s) %s)", d, slen, d, slen))
	arrD, offD := fmt.Sprintf("(s_arr %s)", d), fmt.Sprintf("(s_off %s)", d)
	if !isStruct(et) {
		h, sort := v.elemHeap(et)
		A := v.getHeap(st, h)
		row := v.fresh("copyrow")
		v.decl(row, fmt.Sprintf("(Array Int %s)", v.sc.sortOf(et)))
		var src string
		if sIsStr {
			src = fmt.Sprintf("(str_at %s (- i %s))", s, offD)
		} else {
			src = fmt.Sprintf("(select (select %s (s_arr %s)) (+ (s_off %s) (- i %s)))", A, s, s, offD)
		}
		v.rawFact(fmt.Sprintf("(forall ((i Int)) (! (= (select %s i) (ite (and (<= %s i) (< i (+ %s %s))) %s (select (select %s %s) i))) :pattern ((select %s i))))", row, offD, offD, n, src, A, arrD, row))
		v.setHeap(st, h, sort, ite(fmt.Sprintf("(= %s 0)", n), A, sto(A, arrD, row)))
		return n
	}
	stt := et.Underlying().(*types.Struct)
	for f := 0; f < stt.NumFields(); f++ {
		h, sort := v.fieldHeap(et, f)
		H := v.getHeap(st, h)
		hn := v.fresh(h)
		v.decl(hn, sort)
		v.rawFact(fmt.Sprintf("(forall ((r Int)) (! (= (select %s r) (ite (and (= (elem_arr r) %s) (<= %s (elem_idx r)) (< (elem_idx r) (+ %s %s))) (select %s (elem (s_arr %s) (+ (s_off %s) (- (elem_idx r) %s)))) (select %s r))) :pattern ((select %s r))))", hn, arrD, offD, offD, n, H, s, s, offD, H, hn))
		st.heaps[h] = hn
	}
	return n
}

func be(st *state, row, off string, width int) string {
	parts := make([]string, width)
	for i := 0; i < width; i++ {
		sh := pow2(8 * (width - 1 - i))
		parts[i] = fmt.Sprintf("(* %s (select %s (+ %s %d)))", sh, row, off, i)
	}
	return "(+ " + strings.Join(parts, " ") + ")"
}

func (v *vc) byteFacts(st *state, row, off string, width int) {
	for i := 0; i < width; i++ {
		v.fact(st, fmt.Sprintf("(and (<= 0 (select %s (+ %s %d))) (<= (select %s (+ %s %d)) 255))", row, off, i, row, off, i))
	}
}

var u8 = types.Typ[types.Uint8]

// intrinsic models a known external function; returns false if name is not modelled.
func (v *vc) intrinsic(fr *frame, st *state, instr ssa.Instruction, name string, c *ssa.CallCommon, args []string, res *ssa.Call) bool {
	sig := c.Signature()
	trust := func() { v.trusted["model: "+name] = true }
	set := func(vals ...string) { v.setResult(fr, st, res, vals) }
	freshErr := func() string {
		ref := v.alloc(st, "err")
		return fmt.Sprintf("(mk-iface %d %s)", v.sc.typeID(types.NewPointer(types.Typ[types.String])), ref)
	}
	site := v.callSite(instr)
	safety := !(v.noSafety(fr))
	switch name {
	case "fmt.Errorf", "errors.New", "github.com/pkg/errors.New", "github.com/pkg/errors.Errorf", "github.com/pkg/errors.Wrap", "github.com/pkg/errors.Wrapf":
		trust()
		set(freshErr())
		return true
	case "fmt.Sprintf", "fmt.Sprint", "fmt.Sprintln", "strconv.Itoa", "strconv.FormatInt", "strconv.FormatUint", "strconv.Quote", "(*errors.errorString).Error", "(error).Error", "path/filepath.Join", "strings.Join", "strings.ToLower", "strings.ToUpper", "strings.TrimSpace":
		trust()
		set(v.havocResults(st, sig, "str")...)
		return true
	case "github.com/gogo/protobuf/proto.Int32", "github.com/gogo/protobuf/proto.Int64", "github.com/gogo/protobuf/proto.Uint32", "github.com/gogo/protobuf/proto.Uint64",
		"github.com/gogo/protobuf/proto.Bool", "github.com/gogo/protobuf/proto.String", "github.com/gogo/protobuf/proto.Float64":
		// proto.T(v) returns a pointer to a fresh copy of v
		trust()
		et := sig.Params().At(0).Type()
		ref := v.alloc(st, "protoval")
		v.store(st, &addr{kind: aCell, base: ref, typ: et}, args[0])
		set(ref)
		return true
	case "(*time.Time).UnmarshalBinary":
		// decodes 15 or 16 bytes into the receiver; on error the receiver is unspecified
		trust()
		if a := v.addrOf(fr, st, c.Args[0]); a != nil {
			v.store(st, a, v.havoc("timedec", a.typ, st))
		} else {
			v.havocAll(st)
		}
		rs := v.havocResults(st, sig, "timedec")
		v.fact(st, fmt.Sprintf("(=> (= %s nil_iface) (>= (s_len %s) 15))", rs[0], args[1]))
		set(rs...)
		return true
	case "encoding/binary.Read":
		trust()
		var readVal string
		var readTyp types.Type
		if mi, ok := c.Args[2].(*ssa.MakeInterface); ok {
			if a := v.addrOf(fr, st, mi.X); a != nil {
				nv := v.havoc("binread", a.typ, st)
				// on error the contents are unspecified: havoc either way
				v.store(st, a, nv)
				readVal, readTyp = nv, a.typ
			} else {
				v.havocAll(st)
			}
		} else {
			v.havocAll(st)
		}
		rs := v.havocResults(st, sig, "binread")
		if p, ok := c.Args[0].(*ssa.Parameter); ok && readVal != "" && fr.top {
			if bits, signed, ok := intInfo(readTyp); ok {
				v.readOps = append(v.readOps, readOp{param: p.Name(), reach: st.reach, kind: "binread", term: readVal, bits: bits, signed: signed, errT: rs[0], pos: len(v.items)})
			}
		}
		set(rs...)
		return true
	case "encoding/binary.Write":
		trust()
		set(v.havocResults(st, sig, "binwrite")...)
		return true
	case "io.ReadFull", "io.ReadAtLeast":
		trust()
		buf := args[1]
		h, sort := v.elemHeap(u8)
		A := v.getHeap(st, h)
		row := v.fresh("readrow")
		v.decl(row, "(Array Int Int)")
		v.rawFact(fmt.Sprintf("(forall ((i Int)) (! (and (<= 0 (select %s i)) (<= (select %s i) 255)) :pattern ((select %s i))))", row, row, row))
		v.rawFact(fmt.Sprintf("(forall ((i Int)) (! (=> (or (< i (s_off %s)) (>= i (+ (s_off %s) (s_len %s)))) (= (select %s i) (select (select %s (s_arr %s)) i))) :pattern ((select %s i))))", buf, buf, buf, row, A, buf, row))
		v.setHeap(st, h, sort, sto(A, fmt.Sprintf("(s_arr %s)", buf), row))
		rs := v.havocResults(st, sig, "readfull")
		v.fact(st, fmt.Sprintf("(and (<= 0 %s) (<= %s (s_len %s)) (=> (= %s nil_iface) (= %s (s_len %s))))", rs[0], rs[0], buf, rs[1], rs[0], buf))
		if p, ok := c.Args[0].(*ssa.Parameter); ok && fr.top {
			v.readOps = append(v.readOps, readOp{param: p.Name(), reach: st.reach, kind: "readfull", term: rs[0], errT: "", pos: len(v.items)})
		}
		set(rs...)
		return true
	case "(encoding/binary.bigEndian).Uint64", "(encoding/binary.bigEndian).Uint32", "(encoding/binary.bigEndian).Uint16",
		"(encoding/binary.littleEndian).Uint64", "(encoding/binary.littleEndian).Uint32", "(encoding/binary.littleEndian).Uint16":
		trust()
		w := 8
		if strings.HasSuffix(name, "32") {
			w = 4
		} else if strings.HasSuffix(name, "16") {
			w = 2
		}
		b := args[1]
		if safety {
			v.oblige(st, "safety", "index", site, fmt.Sprintf("(>= (s_len %s) %d)", b, w), nil)
		}
		if v.sc.bv {
			set(v.havocResults(st, sig, "be")...)
			return true
		}
		_, row := v.sliceRow(st, b, u8)
		rown := v.define("row", "(Array Int Int)", row)
		off := fmt.Sprintf("(s_off %s)", b)
		v.byteFacts(st, rown, off, w)
		if strings.Contains(name, "littleEndian") {
			r := v.havoc("le", sig.Results().At(0).Type(), st)
			set(r)
			return true
		}
		set(v.define("be", "Int", be(st, rown, off, w)))
		return true
	case "(encoding/binary.bigEndian).PutUint64", "(encoding/binary.bigEndian).PutUint32", "(encoding/binary.bigEndian).PutUint16":
		trust()
		w := 8
		if strings.HasSuffix(name, "32") {
			w = 4
		} else if strings.HasSuffix(name, "16") {
			w = 2
		}
		b, x := args[1], args[2]
		if safety {
			v.oblige(st, "safety", "index", site, fmt.Sprintf("(>= (s_len %s) %d)", b, w), nil)
		}
		h, sort := v.elemHeap(u8)
		A := v.getHeap(st, h)
		row := sel(A, fmt.Sprintf("(s_arr %s)", b))
		if v.sc.bv {
			nr := v.fresh("putrow")
			v.decl(nr, "(Array Int (_ BitVec 8))")
			v.setHeap(st, h, sort, sto(A, fmt.Sprintf("(s_arr %s)", b), nr))
			return true
		}
		for i := 0; i < w; i++ {
			row = sto(row, fmt.Sprintf("(+ (s_off %s) %d)", b, i), fmt.Sprintf("(mod (div %s %s) 256)", x, pow2(8*(w-1-i))))
		}
		v.setHeap(st, h, sort, sto(A, fmt.Sprintf("(s_arr %s)", b), row))
		return true
	case "(*sync.Mutex).Lock", "(*sync.Mutex).Unlock", "(*sync.RWMutex).Lock", "(*sync.RWMutex).Unlock", "(*sync.RWMutex).RLock", "(*sync.RWMutex).RUnlock":
		trust()
		v.onLockCall(fr, st, name, c)
		return true
	case "(*sync.WaitGroup).Add", "(*sync.WaitGroup).Done", "(*sync.WaitGroup).Wait":
		trust()
		if strings.HasSuffix(name, ".Wait") && instr != nil {
			v.waitWithoutLocks(fr, st, v.site(instr))
		}
		return true
	case "sync/atomic.AddInt64", "sync/atomic.AddUint64", "sync/atomic.AddInt32", "sync/atomic.AddUint32":
		trust()
		a := v.addrOf(fr, st, c.Args[0])
		if a == nil {
			v.havocAll(st)
			set(v.havocResults(st, sig, "atomic")...)
			return true
		}
		cur := v.load(st, a)
		nv := v.define("atomic", v.sc.sortOf(a.typ), wrapTerm(fmt.Sprintf("(+ %s %s)", cur, args[1]), a.typ))
		v.store(st, a, nv)
		set(nv)
		return true
	case "sync/atomic.LoadInt64", "sync/atomic.LoadUint64", "sync/atomic.LoadInt32", "sync/atomic.LoadUint32":
		trust()
		a := v.addrOf(fr, st, c.Args[0])
		if a == nil {
			set(v.havocResults(st, sig, "atomic")...)
			return true
		}
		r := v.define("atomic", v.sc.sortOf(a.typ), v.load(st, a))
		if inv := v.sc.typeInv(r, a.typ); inv != "" {
			v.fact(st, inv)
		}
		set(r)
		return true
	case "sync/atomic.StoreInt64", "sync/atomic.StoreUint64", "sync/atomic.StoreInt32", "sync/atomic.StoreUint32":
		trust()
		a := v.addrOf(fr, st, c.Args[0])
		if a == nil {
			v.havocAll(st)
			return true
		}
		v.store(st, a, args[1])
		return true
	case "time.Now":
		trust()
		t := v.havoc("now", sig.Results().At(0).Type(), st)
		v.fact(st, fmt.Sprintf("(and (>= (nanos %s) 0))", t))
		set(t)
		return true
	case "(time.Time).Before":
		trust()
		set(fmt.Sprintf("(< (nanos %s) (nanos %s))", args[0], args[1]))
		return true
	case "(time.Time).After":
		trust()
		set(fmt.Sprintf("(> (nanos %s) (nanos %s))", args[0], args[1]))
		return true
	case "(time.Time).Equal":
		trust()
		set(fmt.Sprintf("(= (nanos %s) (nanos %s))", args[0], args[1]))
		return true
	case "(time.Time).IsZero":
		trust()
		set(fmt.Sprintf("(= (nanos %s) 0)", args[0]))
		return true
	case "(time.Time).UTC", "(time.Time).Local", "(time.Time).In", "(time.Time).Round0":
		trust()
		set(args[0])
		return true
	case "(time.Time).Add":
		trust()
		set(v.define("tadd", "Time", fmt.Sprintf("(mk_time (+ (nanos %s) %s))", args[0], args[1])))
		return true
	case "(time.Time).Sub":
		trust()
		d := fmt.Sprintf("(- (nanos %s) (nanos %s))", args[0], args[1])
		set(v.define("tsub", "Int", fmt.Sprintf("(ite (> %s 9223372036854775807) 9223372036854775807 (ite (< %s (- 9223372036854775808)) (- 9223372036854775808) %s))", d, d, d)))
		return true
	case "(time.Time).UnixNano":
		trust()
		exact := fmt.Sprintf("(- (nanos %s) %s)", args[0], unixOffset)
		set(v.define("unixnano", "Int", wrapTerm(exact, types.Typ[types.Int64])))
		return true
	case "(time.Time).Unix":
		trust()
		set(v.define("unix", "Int", fmt.Sprintf("(div (- (nanos %s) %s) 1000000000)", args[0], unixOffset)))
		return true
	case "time.Unix":
		trust()
		set(v.define("tunix", "Time", fmt.Sprintf("(mk_time (+ (* %s 1000000000) %s %s))", args[0], args[1], unixOffset)))
		return true
	case "(time.Time).Truncate":
		trust()
		if _, isConst := c.Args[1].(*ssa.Const); isConst {
			set(v.define("ttrunc", "Time", fmt.Sprintf("(ite (<= %s 0) %s (mk_time (- (nanos %s) (mod (nanos %s) %s))))", args[1], args[0], args[0], args[0], args[1])))
			return true
		}
		// variable duration: keep the remainder abstract (0 <= rem < d) so the solvers stay linear
		rem := v.fresh("trunc.rem")
		v.decl(rem, "Int")
		v.fact(st, fmt.Sprintf("(=> (> %s 0) (and (<= 0 %s) (< %s %s)))", args[1], rem, rem, args[1]))
		set(v.define("ttrunc", "Time", fmt.Sprintf("(ite (<= %s 0) %s (mk_time (- (nanos %s) %s)))", args[1], args[0], args[0], rem)))
		return true
	case "time.Since":
		trust()
		set(v.havocResults(st, sig, "since")...)
		return true
	case "bytes.Equal":
		trust()
		r := v.fresh("byteseq")
		v.decl(r, "Bool")
		a, b := args[0], args[1]
		v.fact(st, imp(r, fmt.Sprintf("(= (s_len %s) (s_len %s))", a, b)))
		set(r)
		return true
	}
	if v.protoGetter(fr, st, name, c, args, res) {
		return true
	}
	if name == "sort.Search" && v.sortSearch(fr, st, instr, c, args, res) {
		return true
	}
	if (name == "sort.Sort" || name == "sort.Stable") && v.sortSort(fr, st, instr, c, res, name == "sort.Stable") {
		return true
	}
	if strings.HasPrefix(name, "(*go.uber.org/zap.Logger).") || strings.HasPrefix(name, "go.uber.org/zap.") || strings.HasPrefix(name, "(*log.Logger).") || strings.HasPrefix(name, "log.Print") || strings.HasPrefix(name, "(*go.uber.org/zap.SugaredLogger).") || strings.HasPrefix(name, "go.uber.org/zap/zapcore.") {
		v.trusted["model: logging (zap/log) has no effect on modelled state"] = true
		set(v.havocResults(st, sig, "log")...)
		return true
	}
	return false
}

// intrinsicMods reports the heaps an intrinsic may write (for loop havoc).
func (v *vc) intrinsicMods(fr *frame, name string, c *ssa.CallCommon) (bool, []string) {
	switch name {
	case "fmt.Errorf", "errors.New", "github.com/pkg/errors.New", "github.com/pkg/errors.Errorf", "github.com/pkg/errors.Wrap", "github.com/pkg/errors.Wrapf":
		return true, []string{"alloc"}
	case "github.com/gogo/protobuf/proto.Int32", "github.com/gogo/protobuf/proto.Int64", "github.com/gogo/protobuf/proto.Uint32", "github.com/gogo/protobuf/proto.Uint64",
		"github.com/gogo/protobuf/proto.Bool", "github.com/gogo/protobuf/proto.String", "github.com/gogo/protobuf/proto.Float64":
		h, _ := v.cellHeap(c.Signature().Params().At(0).Type())
		return true, []string{"alloc", h}
	case "encoding/binary.Read":
		if mi, ok := c.Args[2].(*ssa.MakeInterface); ok {
			m := newModSet()
			v.ptrMods(fr, mi.X, m)
			if m.all {
				return true, []string{"*"}
			}
			var hs []string
			for h := range m.heaps {
				hs = append(hs, h)
			}
			return true, hs
		}
		return true, []string{"*"}
	case "io.ReadFull", "io.ReadAtLeast":
		h, _ := v.elemHeap(u8)
		return true, []string{h}
	case "(encoding/binary.bigEndian).PutUint64", "(encoding/binary.bigEndian).PutUint32", "(encoding/binary.bigEndian).PutUint16":
		h, _ := v.elemHeap(u8)
		return true, []string{h}
	case "(*time.Time).UnmarshalBinary", "sync/atomic.AddInt64", "sync/atomic.AddUint64", "sync/atomic.AddInt32", "sync/atomic.AddUint32", "sync/atomic.StoreInt64", "sync/atomic.StoreUint64", "sync/atomic.StoreInt32", "sync/atomic.StoreUint32":
		m := newModSet()
		v.ptrMods(fr, c.Args[0], m)
		if m.all {
			return true, []string{"*"}
		}
		var hs []string
		for h := range m.heaps {
			hs = append(hs, h)
		}
		return true, hs
	}
	if strings.HasPrefix(name, "(time.Time).") || strings.HasPrefix(name, "time.") || strings.HasPrefix(name, "(*sync.") || strings.HasPrefix(name, "sync/atomic.Load") || strings.HasPrefix(name, "(encoding/binary.") || name == "encoding/binary.Write" || name == "bytes.Equal" {
		return true, nil
	}
	if name == "sort.Sort" || name == "sort.Stable" {
		if mi, ok := c.Args[0].(*ssa.MakeInterface); ok {
			if sl, ok := mi.X.Type().Underlying().(*types.Slice); ok && !isStruct(sl.Elem()) {
				h, _ := v.elemHeap(sl.Elem())
				return true, []string{h, "alloc"}
			}
		}
		return true, []string{"*"}
	}
	if strings.HasPrefix(name, "fmt.Sprint") || strings.HasPrefix(name, "strconv.") || name == "sort.Search" {
		return true, nil
	}
	if strings.HasPrefix(name, "(*go.uber.org/zap.") || strings.HasPrefix(name, "go.uber.org/zap") || strings.HasPrefix(name, "(*log.Logger).") || strings.HasPrefix(name, "log.Print") {
		return true, []string{"alloc"}
	}
	return false, nil
}

// protoGetter models generated protobuf getters "(*internal.T).GetF" as a field read:
// nil receiver or unset optional field gives the zero value.
func (v *vc) protoGetter(fr *frame, st *state, name string, c *ssa.CallCommon, args []string, res *ssa.Call) bool {
	callee, ok := c.Value.(*ssa.Function)
	if !ok || callee.Signature.Recv() == nil || !strings.HasPrefix(callee.Name(), "Get") {
		return false
	}
	if !strings.Contains(name, "/internal.") {
		return false
	}
	pt, ok := callee.Signature.Recv().Type().Underlying().(*types.Pointer)
	if !ok || !isStruct(pt.Elem()) || callee.Signature.Results().Len() != 1 {
		return false
	}
	stt := pt.Elem()
	s := stt.Underlying().(*types.Struct)
	fname := strings.TrimPrefix(callee.Name(), "Get")
	rt := callee.Signature.Results().At(0).Type()
	for i := 0; i < s.NumFields(); i++ {
		f := s.Field(i)
		if f.Name() != fname {
			continue
		}
		recv := args[0]
		h, _ := v.fieldHeap(stt, i)
		fv := sel(v.getHeap(st, h), recv)
		if a, isAddr := fr.addrs[c.Args[0]]; isAddr && recv == "interior_ptr" {
			// receiver is the address of a struct-valued slot (e.g. &w.pb)
			fv = fmt.Sprintf("(%s %s)", v.sc.structSel(stt, i), v.load(st, a))
		}
		var val string
		if types.Identical(f.Type(), rt) {
			val = ite(fmt.Sprintf("(= %s 0)", recv), v.sc.zero(rt), fv)
		} else if fp, ok := f.Type().Underlying().(*types.Pointer); ok && types.Identical(fp.Elem(), rt) && !isStruct(rt) {
			ch, _ := v.cellHeap(rt)
			val = ite(fmt.Sprintf("(or (= %s 0) (= %s 0))", recv, fv), v.sc.zero(rt), sel(v.getHeap(st, ch), fv))
		} else {
			return false
		}
		v.trusted["model: protobuf getters (*internal.T).GetF read field F (zero value when unset)"] = true
		n := v.define("get"+fname, v.sc.sortOf(rt), val)
		if inv := v.sc.typeInv(n, rt); inv != "" {
			v.fact(st, inv)
		}
		v.refFacts(st, n, rt)
		v.setResult(fr, st, res, []string{n})
		return true
	}
	return false
}
