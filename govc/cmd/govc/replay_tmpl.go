package main

// Witness templates: for obligations whose counterexample cannot be concretised generically
// (interfaces, protobuf messages, files, sockets) a hand-written in-package test under
// /verif/replay/templates/<obligation>.go realises the counterexample class on the REAL code.
// The template must print GOVC-REPLAY-ENSURES-FALSE or GOVC-REPLAY-PANIC when the real code
// exhibits the failure and GOVC-REPLAY-RETURNED otherwise.

import (
	"context"
	"encoding/json"
	"fmt"
	"os"
	"os/exec"
	"path/filepath"
	"regexp"
	"strings"
	"time"
)

func templateFor(ob *obligation) string {
	base := ob.name
	if i := strings.Index(base, "~"); i >= 0 {
		base = base[:i]
	}
	// ignore the return-point suffix so that a template serves every return of the function
	cands := []string{base}
	if i := strings.LastIndex(base, "@"); i >= 0 {
		cands = append(cands, base[:i])
	}
	for _, c := range cands {
		p := filepath.Join("/verif/replay/templates", sanitize(c)+".go")
		if _, err := os.Stat(p); err == nil {
			return p
		}
	}
	return ""
}

func (v *vc) replayTemplate(ob *obligation, work string, rep map[string]interface{}) (bool, string) {
	if v.fn == nil {
		return false, ""
	}
	tmpl := templateFor(ob)
	if tmpl == "" {
		return false, ""
	}
	fn := v.fn
	for fn.Parent() != nil {
		fn = fn.Parent()
	}
	if fn.Pkg == nil {
		return false, ""
	}
	dir := strings.TrimPrefix(fn.Pkg.Pkg.Path(), modPath+"/")
	testPath := filepath.Join(repoRoot, dir, "govc_replay_test.go")
	replace := map[string]string{testPath: tmpl}
	schedNote, schedErr := addSchedulePoints(tmpl, work, sanitize(ob.name), replace)
	if schedErr != "" {
		return false, "witness template could not place its schedule point: " + schedErr
	}
	ov, _ := json.Marshal(map[string]interface{}{"Replace": replace})
	ovFile := filepath.Join(work, sanitize(ob.name)+".tmpl.overlay.json")
	os.WriteFile(ovFile, ov, 0o644)
	ctx, cancel := context.WithTimeout(context.Background(), 400*time.Second)
	defer cancel()
	argv := []string{"test", "-overlay", ovFile, "-vet=off", "-timeout", "120s", "-count=1", "-v", "-run", "^TestGovcReplay$", "./" + dir + "/"}
	raceNote := ""
	if src, err := os.ReadFile(tmpl); err == nil && strings.Contains(string(src), "// govc-replay: race") {
		// a witness for an unsynchronised access: run under the Go race detector, whose report is the failure
		argv = append([]string{"test", "-race"}, argv[1:]...)
		raceNote = " -race"
	}
	cmd := exec.CommandContext(ctx, "go", argv...)
	cmd.Dir = repoRoot
	cmd.Env = append(os.Environ(), "GOFLAGS=-mod=mod", "GOPROXY=off", "GOSUMDB=off", "GOTOOLCHAIN=local")
	outb, _ := cmd.CombinedOutput()
	outs := string(outb)
	rep["template"] = tmpl
	rep["template_output"] = firstLines(outs, 14)
	if schedNote != "" {
		rep["schedule_points"] = schedNote
	}
	rep["replay_cmd"] = "cd /repo && go test" + raceNote + " -overlay <overlay mapping " + testPath + " to " + tmpl + "> -vet=off -timeout 120s -count=1 -v -run '^TestGovcReplay$' ./" + dir + "/"
	if raceNote != "" && strings.Contains(outs, "WARNING: DATA RACE") {
		return true, "witness template under the race detector: real code has a data race: " + strings.TrimSpace(firstLines(outs[strings.Index(outs, "WARNING: DATA RACE"):], 12))
	}
	switch {
	case strings.Contains(outs, "GOVC-REPLAY-ENSURES-FALSE"):
		return true, "witness template: real code violates the contract clause: " + lineWith(outs, "GOVC-REPLAY-ENSURES-FALSE")
	case strings.Contains(outs, "GOVC-REPLAY-PANIC"):
		return true, "witness template: real code panics: " + lineWith(outs, "GOVC-REPLAY-PANIC")
	case strings.Contains(outs, "GOVC-REPLAY-RETURNED"):
		return false, "witness template ran: the real code does not exhibit the failure on the template's input"
	}
	return false, "witness template did not run to completion"
}

// Schedule points. A witness for an interleaving that no test can hit by chance (a goroutine has to be held
// between two statements for the whole duration of another operation) names the point in its header:
//
//	// govc-replay: schedule-point <file relative to /repo> <FuncName> <<source line, trimmed>>
//
// The runner copies the REAL file, inserts the one statement `GovcSchedulePoint("<FuncName>")` after the first
// occurrence of that line inside the named function, and adds the copy plus a one-line hook file (a package
// variable `GovcSchedulePoint func(string)`, a no-op unless the witness sets it) to the test overlay. Nothing is
// written to /repo and no other byte of the file changes: the witness only decides WHEN a goroutine proceeds,
// which is what a scheduler may do anyway.
var schedHdr = regexp.MustCompile(`(?m)^// govc-replay: schedule-point (\S+) (\S+) <<(.*)>>\s*$`)

func addSchedulePoints(tmpl, work, tag string, replace map[string]string) (note, errs string) {
	src, err := os.ReadFile(tmpl)
	if err != nil {
		return "", ""
	}
	ms := schedHdr.FindAllStringSubmatch(string(src), -1)
	if len(ms) == 0 {
		return "", ""
	}
	files := map[string][]string{}
	for _, m := range ms {
		rel, fn, line := m[1], m[2], strings.TrimSpace(m[3])
		real := filepath.Join(repoRoot, rel)
		lines, ok := files[real]
		if !ok {
			data, err := os.ReadFile(real)
			if err != nil {
				return "", err.Error()
			}
			lines = strings.Split(string(data), "\n")
		}
		start := -1
		for i, l := range lines {
			if strings.HasPrefix(l, "func ") && strings.Contains(l, " "+fn+"(") || strings.HasPrefix(l, "func "+fn+"(") {
				start = i
				break
			}
		}
		if start < 0 {
			return "", "function " + fn + " not found in " + rel
		}
		at := -1
		for i := start + 1; i < len(lines) && !strings.HasPrefix(lines[i], "}"); i++ {
			if strings.TrimSpace(lines[i]) == line {
				at = i
				break
			}
		}
		if at < 0 {
			return "", "line <<" + line + ">> not found in " + fn + " of " + rel
		}
		indent := lines[at][:len(lines[at])-len(strings.TrimLeft(lines[at], "\t "))]
		lines = append(lines[:at+1], append([]string{indent + "GovcSchedulePoint(\"" + fn + "\")"}, lines[at+1:]...)...)
		files[real] = lines
		note += rel + ": GovcSchedulePoint(\"" + fn + "\") inserted after <<" + line + ">>; "
	}
	n := 0
	for real, lines := range files {
		n++
		cp := filepath.Join(work, fmt.Sprintf("%s.sched%d.go", tag, n))
		os.WriteFile(cp, []byte(strings.Join(lines, "\n")), 0o644)
		replace[real] = cp
		pkg := "main"
		for _, l := range lines {
			if strings.HasPrefix(l, "package ") {
				pkg = strings.Fields(l)[1]
				break
			}
		}
		hook := filepath.Join(work, fmt.Sprintf("%s.schedhook%d.go", tag, n))
		os.WriteFile(hook, []byte("package "+pkg+"\n\n// GovcSchedulePoint is called at the schedule points a witness placed (no-op unless the witness sets it).\nvar GovcSchedulePoint = func(string) {}\n"), 0o644)
		replace[filepath.Join(filepath.Dir(real), "govc_schedule_point.go")] = hook
	}
	return note, ""
}
