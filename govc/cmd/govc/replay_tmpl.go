package main

// Witness templates: for obligations whose counterexample cannot be concretised generically
// (interfaces, protobuf messages, files, sockets) a hand-written in-package test under
// /verif/replay/templates/<obligation>.go realises the counterexample class on the REAL code.
// The template must print GOVC-REPLAY-ENSURES-FALSE or GOVC-REPLAY-PANIC when the real code
// exhibits the failure and GOVC-REPLAY-RETURNED otherwise.

import (
	"context"
	"encoding/json"
	"os"
	"os/exec"
	"path/filepath"
	"strings"
	"time"
)

func templateFor(ob *obligation) string {
	base := ob.name
	if i := strings.Index(base, "~"); i >= 0 {
		base = base[:i]
	}
	// ignore the return-point suffix so that a template serves every return of the function
	cands := []string{base}
	if i := strings.LastIndex(base, "@"); i >= 0 {
		cands = append(cands, base[:i])
	}
	for _, c := range cands {
		p := filepath.Join("/verif/replay/templates", sanitize(c)+".go")
		if _, err := os.Stat(p); err == nil {
			return p
		}
	}
	return ""
}

func (v *vc) replayTemplate(ob *obligation, work string, rep map[string]interface{}) (bool, string) {
	if v.fn == nil {
		return false, ""
	}
	tmpl := templateFor(ob)
	if tmpl == "" {
		return false, ""
	}
	fn := v.fn
	for fn.Parent() != nil {
		fn = fn.Parent()
	}
	if fn.Pkg == nil {
		return false, ""
	}
	dir := strings.TrimPrefix(fn.Pkg.Pkg.Path(), modPath+"/")
	testPath := filepath.Join(repoRoot, dir, "govc_replay_test.go")
	ov, _ := json.Marshal(map[string]interface{}{"Replace": map[string]string{testPath: tmpl}})
	ovFile := filepath.Join(work, sanitize(ob.name)+".tmpl.overlay.json")
	os.WriteFile(ovFile, ov, 0o644)
	ctx, cancel := context.WithTimeout(context.Background(), 400*time.Second)
	defer cancel()
	argv := []string{"test", "-overlay", ovFile, "-vet=off", "-timeout", "120s", "-count=1", "-v", "-run", "^TestGovcReplay$", "./" + dir + "/"}
	raceNote := ""
	if src, err := os.ReadFile(tmpl); err == nil && strings.Contains(string(src), "// govc-replay: race") {
		// a witness for an unsynchronised access: run under the Go race detector, whose report is the failure
		argv = append([]string{"test", "-race"}, argv[1:]...)
		raceNote = " -race"
	}
	cmd := exec.CommandContext(ctx, "go", argv...)
	cmd.Dir = repoRoot
	cmd.Env = append(os.Environ(), "GOFLAGS=-mod=mod", "GOPROXY=off", "GOSUMDB=off", "GOTOOLCHAIN=local")
	outb, _ := cmd.CombinedOutput()
	outs := string(outb)
	rep["template"] = tmpl
	rep["template_output"] = firstLines(outs, 14)
	rep["replay_cmd"] = "cd /repo && go test" + raceNote + " -overlay <overlay mapping " + testPath + " to " + tmpl + "> -vet=off -timeout 120s -count=1 -v -run '^TestGovcReplay$' ./" + dir + "/"
	if raceNote != "" && strings.Contains(outs, "WARNING: DATA RACE") {
		return true, "witness template under the race detector: real code has a data race: " + strings.TrimSpace(firstLines(outs[strings.Index(outs, "WARNING: DATA RACE"):], 12))
	}
	switch {
	case strings.Contains(outs, "GOVC-REPLAY-ENSURES-FALSE"):
		return true, "witness template: real code violates the contract clause: " + lineWith(outs, "GOVC-REPLAY-ENSURES-FALSE")
	case strings.Contains(outs, "GOVC-REPLAY-PANIC"):
		return true, "witness template: real code panics: " + lineWith(outs, "GOVC-REPLAY-PANIC")
	case strings.Contains(outs, "GOVC-REPLAY-RETURNED"):
		return false, "witness template ran: the real code does not exhibit the failure on the template's input"
	}
	return false, "witness template did not run to completion"
}
