package main

// Iteration over a map: the generator keeps, per `range m` statement, the set of keys already produced
// (a local of sort (Array K Bool), empty at the range statement, havocked at the loop head like any loop
// variable). Next() yields a key of the map not yet in the set; when it reports the end, every key of the map
// is in the set - unless the loop itself inserts into maps of that type, in which case Go leaves it open whether
// the new entries are visited and nothing is assumed. Contracts name the set visited(k) (or visited(k, n) for
// the n-th map range of the function in source order).

import (
	"fmt"
	"go/types"
	"sort"

	"golang.org/x/tools/go/ssa"
)

func (v *vc) rangeSeenKey(fr *frame, rng *ssa.Range) string {
	return fmt.Sprintf("%srangeseen.%s", fr.prefix, rng.Name())
}

// loopWritesHeap: the innermost loop around instruction in may write heap h.
func (v *vc) loopWritesHeap(fr *frame, in ssa.Instruction, h string) bool {
	fi := v.eng.fnInfo(fr.fn)
	var best *loopInfo
	for _, li := range fi.loops {
		if li.body[in.Block()] || li.header == in.Block() {
			if best == nil || len(li.body) < len(best.body) {
				best = li
			}
		}
	}
	if best == nil {
		return true
	}
	mod := v.loopModSet(fr, best)
	return mod.all || mod.heaps[h]
}

// mapRanges: the map-range statements of fn in source order.
func mapRanges(fn *ssa.Function) []*ssa.Range {
	var out []*ssa.Range
	for _, b := range fn.Blocks {
		for _, in := range b.Instrs {
			if r, ok := in.(*ssa.Range); ok {
				if _, isMap := r.X.Type().Underlying().(*types.Map); isMap {
					out = append(out, r)
				}
			}
		}
	}
	sort.SliceStable(out, func(i, j int) bool { return out[i].Pos() < out[j].Pos() })
	return out
}

// visitedTerm: the set of the n-th (1-based) map range of the frame's function, as an SMT term, and its key type.
func (se *specEnv) visitedTerm(n int) (string, types.Type, bool) {
	if se.fr == nil {
		return "", nil, false
	}
	rs := mapRanges(se.fr.fn)
	if n < 1 || n > len(rs) {
		return "", nil, false
	}
	r := rs[n-1]
	t, ok := se.cur.locals[se.v.rangeSeenKey(se.fr, r)]
	if !ok {
		// before the range statement has run: nothing visited
		mt := r.X.Type().Underlying().(*types.Map)
		return fmt.Sprintf("((as const (Array %s Bool)) false)", se.v.sc.sortOf(mt.Key())), mt.Key(), true
	}
	return t, r.X.Type().Underlying().(*types.Map).Key(), true
}
