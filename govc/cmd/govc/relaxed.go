package main

import (
	"fmt"
	"strings"
)

// smtRelaxed is the cover query without quantified facts.
func (v *vc) smtRelaxed(ob *obligation) string {
	var b strings.Builder
	b.WriteString(preludeFixed)
	b.WriteString(preludeExtra)
	for _, d := range v.sc.decls {
		b.WriteString(d)
		b.WriteByte('\n')
	}
	head := b.String()
	b.Reset()
	for _, it := range v.items[:ob.pos] {
		switch it.kind {
		case itDecl:
			b.WriteString(it.text)
			b.WriteByte('\n')
		case itFact:
			if strings.Contains(it.text, "(forall") || strings.Contains(it.text, "(exists") {
				continue
			}
			b.WriteString("(assert ")
			b.WriteString(it.text)
			b.WriteString(")\n")
		}
	}
	fmt.Fprintf(&b, "(assert %s)\n(check-sat)\n", ob.goal)
	body := b.String()
	var lines strings.Builder
	for _, l := range v.smtLinesFor(body, true) {
		lines.WriteString(l)
		lines.WriteByte('\n')
	}
	return head + lines.String() + body
}

// downstreamPanic: after a non-safety obligation (invariant, callee precondition, ...) failed, look for a
// run-time panic that the failure makes possible: later safety obligations of the same function are
// re-checked WITHOUT assuming the failed condition. Returns the first one with a counterexample.
func (v *vc) downstreamPanic(failed *obligation, workDir string) *obligation {
	tried := 0
	for _, ob := range v.obls {
		if ob.pos <= failed.pos || ob.kind != "safety" || ob.cover {
			continue
		}
		if tried >= 40 {
			break
		}
		tried++
		clone := *ob
		clone.name = ob.name + "~without:" + failed.label
		clone.skipItem = failed.pos + 1
		clone.skipOrigin = failed.origin
		text := v.smtFor(&clone, false, nil)
		file := workDir + "/" + sanitize(clone.name) + ".smt2"
		if err := writeFile(file, text); err != nil {
			continue
		}
		status, _, _ := runSolver(solvers[0], file, 5)
		if status == "sat" {
			clone.status = "sat"
			clone.skipItem = failed.pos + 1
			return &clone
		}
	}
	return nil
}

func (v *vc) smtSkipping(ob *obligation, skip int) string {
	saved := v.items[skip]
	if skip < len(v.items) && saved.kind == itFact {
		v.items[skip] = item{kind: itFact, text: "true"}
		defer func() { v.items[skip] = saved }()
	}
	return v.smtFor(ob, false, nil)
}
