package main

// Escape analysis for local cells: a heap cell allocated by the function under verification whose
// address never leaves the function (only loaded, stored to, or captured by closures that do the
// same) cannot be written by a callee, so "havoc everything" leaves it untouched.

import (
	"golang.org/x/tools/go/ssa"
)

func ptrEscapes(p ssa.Value, seen map[ssa.Value]bool) bool {
	if seen[p] {
		return false
	}
	seen[p] = true
	refs := p.Referrers()
	if refs == nil {
		return true
	}
	for _, r := range *refs {
		switch x := r.(type) {
		case *ssa.DebugRef:
		case *ssa.UnOp:
			// load through the pointer
		case *ssa.Store:
			if x.Val == p {
				return true
			}
		case *ssa.FieldAddr:
			if ptrEscapes(x, seen) {
				return true
			}
		case *ssa.IndexAddr:
			if ptrEscapes(x, seen) {
				return true
			}
		case *ssa.MakeClosure:
			fn, ok := x.Fn.(*ssa.Function)
			if !ok {
				return true
			}
			for i, b := range x.Bindings {
				if b == p {
					if i >= len(fn.FreeVars) || ptrEscapes(fn.FreeVars[i], seen) {
						return true
					}
				}
			}
			// the body does not leak the pointer (checked above), but it may write through it: then whoever
			// can call the closure can change the cell, so the closure value must not leave the function
			for i, b := range x.Bindings {
				if b == p && i < len(fn.FreeVars) && writesThrough(fn.FreeVars[i], map[ssa.Value]bool{}) && closureValueEscapes(x) {
					return true
				}
			}
		default:
			return true
		}
	}
	return false
}

// writesThrough: some instruction stores through pointer p (or a field/element address derived from it, or a
// nested closure capturing it does).
func writesThrough(p ssa.Value, seen map[ssa.Value]bool) bool {
	if seen[p] {
		return false
	}
	seen[p] = true
	refs := p.Referrers()
	if refs == nil {
		return true
	}
	for _, r := range *refs {
		switch x := r.(type) {
		case *ssa.Store:
			if x.Addr == p {
				return true
			}
		case *ssa.FieldAddr:
			if writesThrough(x, seen) {
				return true
			}
		case *ssa.IndexAddr:
			if writesThrough(x, seen) {
				return true
			}
		case *ssa.MakeClosure:
			fn, ok := x.Fn.(*ssa.Function)
			if !ok {
				return true
			}
			for i, b := range x.Bindings {
				if b == p && (i >= len(fn.FreeVars) || writesThrough(fn.FreeVars[i], seen)) {
					return true
				}
			}
		}
	}
	return false
}

// closureValueEscapes: the closure is used other than by being called (or deferred) directly where it is made.
func closureValueEscapes(mc *ssa.MakeClosure) bool {
	refs := mc.Referrers()
	if refs == nil {
		return true
	}
	for _, r := range *refs {
		switch x := r.(type) {
		case *ssa.DebugRef:
		case *ssa.Call:
			if x.Call.Value != ssa.Value(mc) {
				return true
			}
			for _, a := range x.Call.Args {
				if a == ssa.Value(mc) {
					return true
				}
			}
		case *ssa.Defer:
			if x.Call.Value != ssa.Value(mc) {
				return true
			}
		default:
			return true
		}
	}
	return false
}

type preserveLoc struct {
	heap string
	ref  string
}

func (v *vc) notePreserved(st *state, in *ssa.Alloc, heaps []string, ref string) {
	if ptrEscapes(in, map[ssa.Value]bool{}) {
		return
	}
	for _, h := range heaps {
		st.preserve = append(st.preserve, preserveLoc{heap: h, ref: ref})
	}
}

// restorePreserved re-establishes non-escaping local cells after everything was havocked.
func (v *vc) restorePreserved(st *state, old *state) {
	for _, p := range st.preserve {
		sort, ok := v.heapSort[p.heap]
		if !ok {
			continue
		}
		v.setHeap(st, p.heap, sort, sto(v.getHeap(st, p.heap), p.ref, sel(v.getHeap(old, p.heap), p.ref)))
	}
}
