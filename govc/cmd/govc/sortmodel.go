package main

// Trusted model of sort.Sort / sort.Stable on a slice type implementing sort.Interface:
// afterwards the slice holds a permutation of its former elements and no later element is Less than
// an earlier one. Less is the type's real method, evaluated symbolically at bound indices.

import (
	"fmt"
	"go/types"
	"regexp"
	"strings"

	"golang.org/x/tools/go/ssa"
)

var defineRe = regexp.MustCompile(`^\(define-fun (\|[^|]*\|) \(\) (.+)$`)

// expandDefs replaces names defined (as 0-ary define-fun macros) by items[from:] with their bodies.
func (v *vc) expandDefs(term string, from int) string {
	defs := map[string]string{}
	for _, it := range v.items[from:] {
		if it.kind != itDecl {
			continue
		}
		m := defineRe.FindStringSubmatch(it.text)
		if m == nil {
			continue
		}
		// m[2] = "<sort> <body>)" ; split sort from body
		rest := m[2]
		rest = rest[:len(rest)-1]
		sortEnd := 0
		if strings.HasPrefix(rest, "(") {
			d := 0
			for i, c := range rest {
				if c == '(' {
					d++
				} else if c == ')' {
					d--
					if d == 0 {
						sortEnd = i + 1
						break
					}
				}
			}
		} else {
			sortEnd = strings.Index(rest, " ")
		}
		if sortEnd <= 0 || sortEnd >= len(rest) {
			continue
		}
		defs[m[1]] = strings.TrimSpace(rest[sortEnd:])
	}
	for iter := 0; iter < 50; iter++ {
		changed := false
		for name, body := range defs {
			if strings.Contains(term, name) {
				term = strings.ReplaceAll(term, name, body)
				changed = true
			}
		}
		if !changed {
			break
		}
	}
	return term
}

func (v *vc) sortSort(fr *frame, st *state, instr ssa.Instruction, c *ssa.CallCommon, res *ssa.Call, stable bool) bool {
	mi, ok := c.Args[0].(*ssa.MakeInterface)
	if !ok {
		return false
	}
	st0 := mi.X.Type()
	sl, ok := st0.Underlying().(*types.Slice)
	if !ok || isStruct(sl.Elem()) {
		return false
	}
	ms := v.eng.prog.MethodSets.MethodSet(st0)
	var less *ssa.Function
	for i := 0; i < ms.Len(); i++ {
		if ms.At(i).Obj().Name() == "Less" {
			less = v.eng.prog.MethodValue(ms.At(i))
		}
	}
	if less == nil || less.Blocks == nil || !v.canInline(less) {
		return false
	}
	x := v.val(fr, st, mi.X)
	n := fmt.Sprintf("(s_len %s)", x)
	h, sort := v.elemHeap(sl.Elem())
	A := v.getHeap(st, h)
	esort := v.sc.sortOf(sl.Elem())
	row := v.fresh("sortedrow")
	v.decl(row, fmt.Sprintf("(Array Int %s)", esort))
	arr, off := fmt.Sprintf("(s_arr %s)", x), fmt.Sprintf("(s_off %s)", x)
	oldRow := sel(A, arr)
	// outside the slice nothing changes; inside: a permutation (every new element is an old one and vice versa)
	v.rawFact(fmt.Sprintf("(forall ((k Int)) (! (=> (or (< k %s) (>= k (+ %s %s))) (= (select %s k) (select %s k))) :pattern ((select %s k))))", off, off, n, row, oldRow, row))
	v.rawFact(fmt.Sprintf("(forall ((k Int)) (! (=> (and (<= %s k) (< k (+ %s %s))) (exists ((m Int)) (and (<= %s m) (< m (+ %s %s)) (= (select %s k) (select %s m))))) :pattern ((select %s k))))", off, off, n, off, off, n, row, oldRow, row))
	v.rawFact(fmt.Sprintf("(forall ((m Int)) (! (=> (and (<= %s m) (< m (+ %s %s))) (exists ((k Int)) (and (<= %s k) (< k (+ %s %s)) (= (select %s k) (select %s m))))) :pattern ((select %s m))))", off, off, n, off, off, n, row, oldRow, oldRow))
	v.setHeap(st, h, sort, sto(A, arr, row))
	// sortedness: evaluate Less(j, i) at symbolic positions in the new state
	ci, cj := v.fresh("sort.i"), v.fresh("sort.j")
	v.decl(ci, "Int")
	v.decl(cj, "Int")
	from := len(v.items)
	sub := st.clone()
	sub.reach = v.define("sort.reach", "Bool", and(st.reach, fmt.Sprintf("(and (<= 0 %s) (< %s %s) (<= 0 %s) (< %s %s))", ci, ci, n, cj, cj, n)))
	from = len(v.items)
	nf := &frame{fn: less, vals: map[ssa.Value]string{}, addrs: map[ssa.Value]*addr{}, prefix: fmt.Sprintf("%ssort%d.", fr.prefix, v.ctr), parent: fr}
	v.ctr++
	nf.vals[less.Params[0]] = x
	nf.vals[less.Params[1]] = cj
	nf.vals[less.Params[2]] = ci
	v.depth++
	v.inlineStack[less] = true
	rets := v.runBody(nf, sub)
	delete(v.inlineStack, less)
	v.depth--
	if len(rets) != 1 {
		v.note("sort model: Less has %d return points; sortedness not assumed", len(rets))
	} else {
		t := v.expandDefs(rets[0].vals[0], from)
		t = strings.ReplaceAll(strings.ReplaceAll(t, ci, "|SI|"), cj, "|SJ|")
		if strings.Contains(t, "sort.i#") || strings.Contains(t, "sort.j#") {
			v.note("sort model: Less could not be closed over its indices; sortedness not assumed")
		} else {
			rng := fmt.Sprintf("(and (<= 0 |SI|) (< |SI| |SJ|) (< |SJ| %s))", n)
			body := "(not " + t + ")"
			// absolute-index form (see rebase.go) so that the fact is usable at any ground index term
			nj, _, rng, body, _, _ := rebaseQuant("|SJ|", rng, body, false)
			ni, _, rng, body, _, _ := rebaseQuant("|SI|", rng, body, false)
			v.rawFact(fmt.Sprintf("(forall ((%s Int) (%s Int)) (=> %s %s))", ni, nj, rng, body))
		}
	}
	name := "sort.Sort"
	if stable {
		name = "sort.Stable"
	}
	v.trusted["model: "+name+" leaves a permutation ordered by the type's own Less (inlined)"] = true
	return true
}
