package main

// Lock balance (C19, "no deadlock"): every function and closure of the swept packages that calls
// sync.(RW)Mutex.Lock/RLock/Unlock/RUnlock - directly or deferred - returns, on EVERY path, with each mutex it
// touched in the state that mutex had when the function was entered; and every loop iteration leaves it as it
// was when the loop was entered. A return that skips an Unlock (an early `return` inside a critical section
// that is closed by hand, not by defer) leaves the mutex held for ever: the next Lock of any goroutine blocks.
//
// Ghost state: one map per mutex "place" (struct type + field path, or variable), object ref -> level, where
// 0 = not held by this goroutine, 1..99 = read-held that many times, 100 = write-held; unknown at entry. The
// sync calls assume what the Go runtime demands of them (Lock/RLock: not write-held by this goroutine, which
// would block for ever; Unlock: write-held; RUnlock: read-held) and update the level. The obligation at every
// return and every back edge is that the map equals its value at entry (of the function / of the loop).
// Callees are assumed balanced: each is checked on its own by this very sweep; a function that deliberately
// returns with a lock taken or released is declared `lock_handoff <reason>` in its contract and listed.

import (
	"fmt"
	"go/token"
	"go/types"
	"sort"
	"strings"

	"golang.org/x/tools/go/ssa"
)

const balPrefix = "bal_"

func isSyncLockName(name string) bool {
	switch name {
	case "(*sync.Mutex).Lock", "(*sync.Mutex).Unlock", "(*sync.RWMutex).Lock", "(*sync.RWMutex).Unlock", "(*sync.RWMutex).RLock", "(*sync.RWMutex).RUnlock":
		return true
	}
	return false
}

func syncLockCallOf(in ssa.Instruction) *ssa.CallCommon {
	ci, ok := in.(ssa.CallInstruction)
	if !ok {
		return nil
	}
	c := ci.Common()
	if c.IsInvoke() {
		return nil
	}
	f, ok := c.Value.(*ssa.Function)
	if !ok || !isSyncLockName(f.String()) || len(c.Args) == 0 {
		return nil
	}
	return c
}

func sanitizeGhost(s string) string {
	var b strings.Builder
	for _, r := range s {
		if r >= 'a' && r <= 'z' || r >= 'A' && r <= 'Z' || r >= '0' && r <= '9' || r == '_' {
			b.WriteRune(r)
		} else {
			b.WriteByte('_')
		}
	}
	return b.String()
}

// balGhostName: the ghost map a mutex address belongs to, from the shape of the SSA value alone.
func balGhostName(arg ssa.Value) string {
	var fields []string
	cur := arg
	for {
		fa, ok := cur.(*ssa.FieldAddr)
		if !ok {
			break
		}
		stt := fa.X.Type().Underlying().(*types.Pointer).Elem()
		s, ok := stt.Underlying().(*types.Struct)
		if !ok {
			break
		}
		fields = append([]string{s.Field(fa.Field).Name()}, fields...)
		cur = fa.X
		if _, inner := cur.(*ssa.FieldAddr); !inner {
			// root of the chain
			if nt, ok := namedStruct(stt); ok {
				return balPrefix + sanitizeGhost(nt.Obj().Name()+"_"+strings.Join(fields, "_"))
			}
			break
		}
	}
	if len(fields) > 0 {
		switch r := cur.(type) {
		case *ssa.Alloc:
			return balPrefix + "var_" + sanitizeGhost(r.Comment+"_"+strings.Join(fields, "_"))
		case *ssa.FreeVar:
			return balPrefix + "var_" + sanitizeGhost(r.Name()+"_"+strings.Join(fields, "_"))
		case *ssa.Global:
			return balPrefix + "glob_" + sanitizeGhost(r.Name()+"_"+strings.Join(fields, "_"))
		}
		return balPrefix + "anon_" + sanitizeGhost(strings.Join(fields, "_"))
	}
	switch r := arg.(type) {
	case *ssa.Alloc:
		return balPrefix + "var_" + sanitizeGhost(r.Comment)
	case *ssa.FreeVar:
		return balPrefix + "var_" + sanitizeGhost(r.Name())
	case *ssa.Global:
		return balPrefix + "glob_" + sanitizeGhost(r.Name())
	}
	return balPrefix + "ptr"
}

// balGhostsOf: the ghosts of every sync lock call in fn and in the closures it declares (they may run inline).
func balGhostsOf(fn *ssa.Function, out map[string]bool) {
	for _, b := range fn.Blocks {
		for _, in := range b.Instrs {
			if c := syncLockCallOf(in); c != nil {
				out[balGhostName(c.Args[0])] = true
			}
		}
	}
	for _, a := range fn.AnonFuncs {
		balGhostsOf(a, out)
	}
}

func hasSyncLockCall(fn *ssa.Function) bool {
	for _, b := range fn.Blocks {
		for _, in := range b.Instrs {
			if syncLockCallOf(in) != nil {
				return true
			}
		}
	}
	return false
}

// balKey: the object a mutex address belongs to (the key into its ghost map).
func (v *vc) balKey(fr *frame, st *state, arg ssa.Value) (string, bool) {
	if a := fr.addrs[arg]; a != nil {
		switch a.kind {
		case aField:
			if fa, ok := arg.(*ssa.FieldAddr); ok {
				return v.balRef(fr, st, fa.X), true
			}
			return a.base, true
		case aPath:
			r := a.root
			for r != nil && r.kind == aPath {
				r = r.root
			}
			if r != nil && (r.kind == aField || r.kind == aCell) {
				return r.base, true
			}
			return "0", true
		case aLocal, aGlobal:
			return "0", true
		case aCell:
			return a.base, true
		}
		return "", false
	}
	switch arg.(type) {
	case *ssa.Alloc, *ssa.FreeVar, *ssa.Global:
		return "0", true
	}
	t := v.balRef(fr, st, arg)
	if t == "" {
		return "", false
	}
	return t, true
}

// balRef: the object a pointer value denotes, for the purpose of telling mutexes apart. A pointer that is
// loaded again from the same place (a local variable that is assigned once, a captured variable, a pointer
// field of an object: `p.tracker.mu`) denotes the same object each time - the heap model would forget that
// across any call it cannot see into, and Lock / Unlock pairs on such a path would look like two mutexes.
// For pointer fields this is an assumption (the field is not re-pointed between Lock and Unlock), listed.
func (v *vc) balRef(fr *frame, st *state, val ssa.Value) string {
	if u, ok := val.(*ssa.UnOp); ok && u.Op == token.MUL {
		switch src := u.X.(type) {
		case *ssa.FieldAddr:
			stt := src.X.Type().Underlying().(*types.Pointer).Elem()
			if s, ok := stt.Underlying().(*types.Struct); ok {
				tn := "anon"
				if nt, ok := namedStruct(stt); ok {
					tn = nt.Obj().Name()
				}
				uf := "balvia_" + sanitizeGhost(tn+"_"+s.Field(src.Field).Name())
				if !v.balDecls[uf] {
					if v.balDecls == nil {
						v.balDecls = map[string]bool{}
					}
					v.balDecls[uf] = true
					v.items = append(v.items, item{kind: itDecl, text: fmt.Sprintf("(declare-fun %s (Int) Int)", uf)})
				}
				v.trusted["lock balance: a pointer field through which a mutex is reached (x.f.mu) is assumed not to be re-pointed between the Lock and the Unlock of one function"] = true
				return fmt.Sprintf("(%s %s)", uf, v.balRef(fr, st, src.X))
			}
		case *ssa.Alloc:
			if singleEntryStore(src, src.Parent()) {
				return v.balConst("balcell_" + sanitizeGhost(src.Parent().Name()+"_"+src.Comment))
			}
		case *ssa.FreeVar:
			for i, fv := range src.Parent().FreeVars {
				if fv == src && immutableCapture(src.Parent(), i) {
					return v.balConst("balcell_" + sanitizeGhost(src.Name()))
				}
			}
		}
	}
	return v.val(fr, st, val)
}

func (v *vc) balConst(name string) string {
	if v.balDecls == nil {
		v.balDecls = map[string]bool{}
	}
	if !v.balDecls[name] {
		v.balDecls[name] = true
		v.items = append(v.items, item{kind: itDecl, text: fmt.Sprintf("(declare-const %s Int)", name)})
	}
	return name
}

// onBalanceCall: a sync.(RW)Mutex call in a function under the sweep.
func (v *vc) onBalanceCall(fr *frame, st *state, name string, c *ssa.CallCommon) {
	if v.fc == nil || !v.fc.sweep || len(c.Args) == 0 {
		return
	}
	g := balGhostName(c.Args[0])
	cur, has := st.ghost[g]
	if !has {
		return // a callee executed inline: it is balanced on its own account
	}
	key, ok := v.balKey(fr, st, c.Args[0])
	if !ok {
		v.note("lock balance: mutex of %s in %s has no trackable identity", name, fr.fn.Name())
		return
	}
	lvl := fmt.Sprintf("(select %s %s)", cur, key)
	var next string
	switch {
	case strings.HasSuffix(name, ".RLock"):
		v.fact(st, fmt.Sprintf("(and (>= %s 0) (< %s 99))", lvl, lvl))
		next = fmt.Sprintf("(+ %s 1)", lvl)
	case strings.HasSuffix(name, ".RUnlock"):
		v.fact(st, fmt.Sprintf("(and (>= %s 1) (< %s 100))", lvl, lvl))
		next = fmt.Sprintf("(- %s 1)", lvl)
	case strings.HasSuffix(name, ".Lock"):
		v.fact(st, fmt.Sprintf("(= %s 0)", lvl))
		next = "100"
	default: // Unlock
		v.fact(st, fmt.Sprintf("(= %s 100)", lvl))
		next = "0"
	}
	v.trusted["lock balance: Lock/RLock are assumed not to be called by a goroutine that write-holds the mutex, Unlock/RUnlock only by one that holds it (anything else blocks or aborts in the Go runtime); callees are assumed balanced (each is checked by the same sweep)"] = true
	st.ghost[g] = v.define("ghost "+g, "(Array Int Int)", sto(cur, key, next))
	if strings.HasSuffix(name, "Unlock") {
		// remember that this function has let go of the mutex once (checkLookedUpReceiver)
		if rel, ok := st.ghost[relPrefix+g]; ok {
			st.ghost[relPrefix+g] = v.define("ghost "+relPrefix+g, "(Array Int Int)", sto(rel, key, "1"))
		}
	}
}

const relPrefix = "rel_"

func balGhostKeys(st *state) []string {
	var ks []string
	for g := range st.ghost {
		if strings.HasPrefix(g, balPrefix) {
			ks = append(ks, g)
		}
	}
	sort.Strings(ks)
	return ks
}

// balanceAtReturn: at a return of the function under the sweep every mutex is as it was on entry.
func (v *vc) balanceAtReturn(fr *frame, st *state, site string) {
	if v.fc == nil || !v.fc.sweep || !fr.top || v.entry == nil {
		return
	}
	if v.fc.lockHandoff != "" {
		v.trusted[fmt.Sprintf("assumed in contract of %s: returns with a lock taken or released on purpose (%s)", v.fnName, v.fc.lockHandoff)] = true
		return
	}
	for _, g := range balGhostKeys(st) {
		e0, ok := v.entry.ghost[g]
		if !ok || e0 == st.ghost[g] {
			continue
		}
		v.oblige(st, "guard", "returns_with_"+strings.TrimPrefix(g, balPrefix)+"_as_on_entry", site, fmt.Sprintf("(= %s %s)", st.ghost[g], e0), []string{"C19"})
	}
}

// balanceAtBackEdge: an iteration leaves every mutex as it was when the loop was entered (the ghosts are not
// havocked at loop heads: this obligation is what justifies that).
func (v *vc) balanceAtBackEdge(fr *frame, st *state, entry *state, site string) {
	if v.fc == nil || !v.fc.sweep || entry == nil || v.fc.lockHandoff != "" {
		return
	}
	for _, g := range balGhostKeys(st) {
		e0, ok := entry.ghost[g]
		if !ok || e0 == st.ghost[g] {
			continue
		}
		v.oblige(st, "guard", "iteration_leaves_"+strings.TrimPrefix(g, balPrefix)+"_as_at_loop_entry", site, fmt.Sprintf("(= %s %s)", st.ghost[g], e0), []string{"C19"})
	}
}

func (e *engine) isTargetPkg(path string) bool {
	for _, d := range targetDirs {
		if path == modPath+"/"+d {
			return true
		}
	}
	return false
}

// waitWithoutLocks: WaitGroup.Wait blocks until other goroutines are done; a mutex this function has taken and
// still holds at that point is held for as long as they run - if one of them needs it, neither side ever
// proceeds (Close holding the lock over wg.Wait while the worker's loop takes the read lock). The obligation is
// that every mutex is as it was on entry when the wait starts. A function that waits under a lock the waited-for
// goroutines provably never take says so: `waits_holding <reason>` (listed).
func (v *vc) waitWithoutLocks(fr *frame, st *state, site string) {
	if v.fc == nil || !v.fc.sweep || !fr.top || v.entry == nil {
		return
	}
	if v.fc.waitsHolding != "" {
		v.trusted[fmt.Sprintf("assumed in contract of %s: the goroutines it waits for never take the lock it holds meanwhile (%s)", v.fnName, v.fc.waitsHolding)] = true
		return
	}
	for _, g := range balGhostKeys(st) {
		e0, ok := v.entry.ghost[g]
		if !ok || e0 == st.ghost[g] {
			continue
		}
		v.oblige(st, "guard", "waits_for_goroutines_without_holding_"+strings.TrimPrefix(g, balPrefix), site, fmt.Sprintf("(= %s %s)", st.ghost[g], e0), []string{"C19"})
	}
}

// receiverLockSummary: the mutex places (ghost names) a method takes on its own receiver - directly or through
// methods it calls on the same receiver. Memoised on the engine.
func (e *engine) receiverLockSummary(fn *ssa.Function, busy map[*ssa.Function]bool) map[string]bool {
	e.mu.Lock()
	if e.recvLocks == nil {
		e.recvLocks = map[*ssa.Function]map[string]bool{}
	}
	if s, ok := e.recvLocks[fn]; ok {
		e.mu.Unlock()
		return s
	}
	e.mu.Unlock()
	out := map[string]bool{}
	if fn == nil || fn.Signature.Recv() == nil || len(fn.Params) == 0 || fn.Blocks == nil || busy[fn] {
		return out
	}
	busy[fn] = true
	recv := ssa.Value(fn.Params[0])
	for _, b := range fn.Blocks {
		for _, in := range b.Instrs {
			ci, ok := in.(ssa.CallInstruction)
			if !ok {
				continue
			}
			if _, isGo := in.(*ssa.Go); isGo {
				continue
			}
			c := ci.Common()
			if lc := syncLockCallOf(in); lc != nil {
				name := c.Value.(*ssa.Function).String()
				if strings.HasSuffix(name, ".Lock") || strings.HasSuffix(name, ".RLock") {
					if fa, ok := lc.Args[0].(*ssa.FieldAddr); ok && fa.X == recv {
						out[balGhostName(lc.Args[0])] = true
					}
				}
				continue
			}
			if callee, ok := c.Value.(*ssa.Function); ok && !c.IsInvoke() && len(c.Args) > 0 && c.Args[0] == recv && callee.Signature.Recv() != nil {
				for g := range e.receiverLockSummary(callee, busy) {
					out[g] = true
				}
			}
		}
	}
	delete(busy, fn)
	e.mu.Lock()
	e.recvLocks[fn] = out
	e.mu.Unlock()
	return out
}

// checkNoRelock: a function that has taken x.mu (in either mode) and still holds it calls a method on x that
// takes x.mu again. With the write lock held that blocks at once; with the read lock held it blocks as soon as
// another goroutine asks for the write lock in between (sync.RWMutex forbids recursive read locking for that
// reason) - the pool's put() / Close() pair.
func (v *vc) checkNoRelock(fr *frame, st *state, callee *ssa.Function, c *ssa.CallCommon, site string) {
	if v.fc == nil || !v.fc.sweep || !fr.top || callee == nil || callee.Signature.Recv() == nil || len(c.Args) == 0 || v.entry == nil {
		return
	}
	sum := v.eng.receiverLockSummary(callee, map[*ssa.Function]bool{})
	if len(sum) == 0 {
		return
	}
	for _, g := range sortedKeys(sum) {
		cur, ok := st.ghost[g]
		if !ok {
			continue
		}
		e0, ok := v.entry.ghost[g]
		if !ok || e0 == cur {
			continue
		}
		key := v.balRef(fr, st, c.Args[0])
		v.oblige(st, "guard", "does_not_take_"+strings.TrimPrefix(g, balPrefix)+"_again_through_"+sanitizeGhost(callee.Name()), site,
			fmt.Sprintf("(= (select %s %s) (select %s %s))", cur, key, e0, key), []string{"C19"})
	}
}
