package main

import "golang.org/x/tools/go/ssa"

// loopEntryInfo records the state and loop-variable values with which a loop was entered,
// for at_entry(e) in loop invariants.
type loopEntryInfo struct {
	env map[string]tv
	st  *state
}

func (v *vc) recordLoopEntry(h *ssa.BasicBlock, env map[string]tv, st *state) {
	if v.loopEntry == nil {
		v.loopEntry = map[*ssa.BasicBlock]loopEntryInfo{}
	}
	v.loopEntry[h] = loopEntryInfo{env: env, st: st.clone()}
}

// firstIterEq: a loop-havocked term and the value it has on the first iteration. Used only to
// prefer counterexamples that are real execution prefixes when a model is replayed.
type firstIterEq struct {
	pos  int
	a, b string
}

func ghostBase(name string) string {
	for i := 0; i < len(name); i++ {
		if name[i] == '[' {
			return name[:i]
		}
	}
	return name
}

func writeFile(path, text string) error { return osWriteFile(path, []byte(text)) }
