package main

// The modifies clause as an implicit loop invariant (as in Boogie/Dafny): at every loop head, for every
// heap the loop may write, locations that existed at function entry and are not listed in `modifies`
// still hold their entry values. Checked on entry and at every back edge like a written invariant.

import (
	"fmt"
	"strings"
)

type frameSpec struct {
	all     bool
	allowed map[string][]string // heap -> refs ("" = whole heap)
	ok      bool
}

func (v *vc) getFrameSpec(fr *frame) *frameSpec {
	if v.frameCache != nil {
		return v.frameCache
	}
	fs := &frameSpec{allowed: map[string][]string{}}
	v.frameCache = fs
	fc := v.fc
	if fc == nil || !fc.hasMod || v.entry == nil {
		return fs
	}
	fs.ok = true
	se := v.newSpecEnv(fr, v.entry, nil)
	for _, m := range fc.modifies {
		if m == "*" || strings.HasPrefix(m, "*except ") {
			fs.all = true
			continue
		}
		if strings.HasPrefix(m, "ghost ") {
			continue
		}
		ex, err := parseSpecExpr(m)
		if err != nil {
			continue
		}
		for _, l := range se.locations(ex, v.entry) {
			fs.allowed[l.heap] = append(fs.allowed[l.heap], l.ref)
		}
	}
	return fs
}

// frameFormula: heap h of state st agrees with the entry heap outside the modifies clause ("" if h is unconstrained).
func (v *vc) frameFormula(fr *frame, st *state, h string) string {
	fs := v.getFrameSpec(fr)
	if !fs.ok || fs.all {
		return ""
	}
	if _, known := v.heapSort[h]; !known {
		return ""
	}
	cur := v.getHeap(st, h)
	old := v.getHeap(v.entry, h)
	if cur == old {
		return ""
	}
	if strings.HasPrefix(h, "G ") {
		return eq(cur, old)
	}
	var excl []string
	for _, r := range fs.allowed[h] {
		if r == "" {
			return ""
		}
		excl = append(excl, fmt.Sprintf("(not (= r %s))", r))
	}
	if strings.HasPrefix(h, "A ") {
		// row 0 is the backing "array" of nil / zero-capacity slices: it has no element anyone can reach
		excl = append(excl, "(not (= r 0))")
	}
	top0 := v.entry.top
	cond := and(append([]string{fmt.Sprintf("(< r %s)", top0), fmt.Sprintf("(< (elem_arr r) %s)", top0)}, excl...)...)
	return fmt.Sprintf("(forall ((r Int)) (=> %s (= (select %s r) (select %s r))))", cond, cur, old)
}
