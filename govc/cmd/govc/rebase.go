package main

import "strings"

// rebaseQuant performs the change of variable j = OFF + k in a quantified contract formula, where OFF
// is the offset of the first slice indexed by k. Afterwards the element terms read (select row j):
// a trigger without arithmetic, which the solvers' e-matching can instantiate with any ground index
// term (re-sliced, shifted, copied). Purely a logically equivalent rewriting of the formula.
func rebaseQuant(bn, rng, body string) (string, string, string) {
	full := rng + " " + body
	needle := " " + bn + ")"
	pos := 0
	for {
		i := strings.Index(full[pos:], needle)
		if i < 0 {
			return bn, rng, body
		}
		i += pos
		// scan backwards to the opening parenthesis of this application
		depth := 0
		j := i
		for j >= 0 {
			c := full[j]
			if c == ')' {
				depth++
			} else if c == '(' {
				if depth == 0 {
					break
				}
				depth--
			}
			j--
		}
		if j >= 0 && strings.HasPrefix(full[j:], "(+ (s_off ") {
			off := full[j+3 : i]
			// off must be a single balanced term
			if balanced(off) {
				nb := strings.TrimSuffix(bn, "|") + "@abs|"
				sub := "(- " + nb + " " + off + ")"
				r2 := strings.ReplaceAll(rng, bn, sub)
				b2 := strings.ReplaceAll(body, bn, sub)
				simpl := "(+ " + off + " " + sub + ")"
				r2 = strings.ReplaceAll(r2, simpl, nb)
				b2 = strings.ReplaceAll(b2, simpl, nb)
				return nb, r2, b2
			}
		}
		pos = i + len(needle)
	}
}

func balanced(s string) bool {
	d := 0
	for _, c := range s {
		if c == '(' {
			d++
		} else if c == ')' {
			d--
			if d < 0 {
				return false
			}
		}
	}
	return d == 0
}
