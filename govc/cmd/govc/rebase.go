package main

import (
	"fmt"
	"strings"
)

// rebaseQuant performs a change of variable in a quantified contract formula so that element terms
// become triggers without arithmetic, which e-matching can instantiate with any ground index term
// (re-sliced, shifted, copied):
//
//   - scalar slices: j = OFF + k, elements read (select row j). An exact equivalence.
//   - slices of structs: r = elem(ARR, OFF + k), fields read (select H r). Equivalent when every k in
//     the range is a valid array position (0 <= OFF+k < 2^58); that side condition is returned
//     separately and must be proved when the formula is a goal (it is pure linear arithmetic).
//
// Returns the new bound variable, an extra guard, the rewritten range and body, and the side condition
// ("" if none). kind is "" (no rewriting), "abs" or "ref".
func rebaseQuant(bn, rng, body string, allowRef bool) (nb, guard, r2, b2, side, kind string) {
	full := rng + " " + body
	needle := " " + bn + ")"
	pos := 0
	for {
		i := strings.Index(full[pos:], needle)
		if i < 0 {
			return bn, "", rng, body, "", ""
		}
		i += pos
		j := enclosingOpen(full, i)
		if j >= 0 && strings.HasPrefix(full[j:], "(+ (s_off ") {
			off := full[j+3 : i]
			if balanced(off) {
				// is this index the second argument of elem(ARR, .)?
				if e := enclosingOpen(full, j-1); e >= 0 && strings.HasPrefix(full[e:], "(elem ") {
					if !allowRef {
						return bn, "", rng, body, "", ""
					}
					arr := strings.TrimSpace(full[e+6 : j])
					if balanced(arr) && arr != "" {
						nb = strings.TrimSuffix(bn, "|") + "@ref|"
						sub := "(- (elem_idx " + nb + ") " + off + ")"
						r2 = strings.ReplaceAll(rng, bn, sub)
						b2 = strings.ReplaceAll(body, bn, sub)
						whole := "(elem " + arr + " (+ " + off + " " + sub + "))"
						r2 = strings.ReplaceAll(r2, whole, nb)
						b2 = strings.ReplaceAll(b2, whole, nb)
						guard = fmt.Sprintf("(and (< %s 0) (= (elem_arr %s) %s))", nb, nb, arr)
						side = fmt.Sprintf("(forall ((%s Int)) (=> %s (and (<= 0 (+ %s %s)) (< (+ %s %s) 288230376151711744) (>= %s 0))))", bn, rng, off, bn, off, bn, arr)
						return nb, guard, r2, b2, side, "ref"
					}
				}
				nb = strings.TrimSuffix(bn, "|") + "@abs|"
				sub := "(- " + nb + " " + off + ")"
				r2 = strings.ReplaceAll(rng, bn, sub)
				b2 = strings.ReplaceAll(body, bn, sub)
				simpl := "(+ " + off + " " + sub + ")"
				r2 = strings.ReplaceAll(r2, simpl, nb)
				b2 = strings.ReplaceAll(b2, simpl, nb)
				return nb, "", r2, b2, "", "abs"
			}
		}
		pos = i + len(needle)
	}
}

// enclosingOpen returns the index of the '(' that opens the application containing position i.
func enclosingOpen(s string, i int) int {
	depth := 0
	for j := i; j >= 0; j-- {
		switch s[j] {
		case ')':
			if j != i {
				depth++
			}
		case '(':
			if depth == 0 {
				return j
			}
			depth--
		}
	}
	return -1
}

func balanced(s string) bool {
	d := 0
	for _, c := range s {
		if c == '(' {
			d++
		} else if c == ')' {
			d--
			if d < 0 {
				return false
			}
		}
	}
	return d == 0
}
