package main

// Goroutine capture discipline (part of the C19 sweep, also guards the fan-out loops of C05).
//
// A closure started as a goroutine - `go func(){...}()` or `(*errgroup.Group).Go(func() error {...})` - shares every
// variable it captures with its parent. If the parent reassigns such a variable on a path that leads back to the
// statement that starts the goroutine (the classic loop variable under pre-1.22 semantics, which /repo's go.mod
// selects), goroutines started in earlier iterations read the values of later iterations: a data race, and in a
// fan-out loop the same node is asked twice while another one is never asked.
//
// Implicit contract, checked for every spawn site of the swept functions: a captured variable is not stored to by
// the parent on a cycle through the spawn site, unless the variable itself is allocated anew on that cycle (a
// per-iteration copy `x := x`). The obligation's condition is decided on the SSA control-flow graph (reachability)
// and handed to the solver as a constant, so that it is reported, counted and replayed like every other obligation.

import (
	"fmt"
	"strings"

	"golang.org/x/tools/go/ssa"
)

// spawnedClosure returns the closure a call instruction starts as a goroutine, if any.
func spawnedClosure(in ssa.Instruction) *ssa.MakeClosure {
	switch x := in.(type) {
	case *ssa.Go:
		if mc, ok := x.Call.Value.(*ssa.MakeClosure); ok {
			return mc
		}
		// go f(args...) with a closure among the arguments is not followed
	case *ssa.Call:
		if f, ok := x.Call.Value.(*ssa.Function); ok && f.Name() == "Go" && f.Pkg != nil && f.Pkg.Pkg.Path() == "golang.org/x/sync/errgroup" && len(x.Call.Args) == 2 {
			if mc, ok := x.Call.Args[1].(*ssa.MakeClosure); ok {
				return mc
			}
		}
	}
	return nil
}

func spawnsGoroutineClosure(fn *ssa.Function) bool {
	for _, b := range fn.Blocks {
		for _, in := range b.Instrs {
			if spawnedClosure(in) != nil {
				return true
			}
		}
	}
	return false
}

// joinsGoroutines: the block waits for goroutines started earlier ((*errgroup.Group).Wait, (*sync.WaitGroup).Wait).
// A path through such a block is not a path on which earlier goroutines are still running (approximation: any
// join is taken to join the goroutines in question).
func joinsGoroutines(b *ssa.BasicBlock) bool {
	for _, in := range b.Instrs {
		if c, ok := in.(ssa.CallInstruction); ok {
			if f, ok := c.Common().Value.(*ssa.Function); ok && f.Name() == "Wait" && f.Pkg != nil {
				if p := f.Pkg.Pkg.Path(); p == "golang.org/x/sync/errgroup" || p == "sync" {
					return true
				}
			}
		}
	}
	return false
}

// reachAvoiding: is `to` reachable from a successor of `from` without entering `avoid` or a joining block?
func reachAvoiding(from, to, avoid *ssa.BasicBlock) bool {
	seen := map[*ssa.BasicBlock]bool{}
	work := append([]*ssa.BasicBlock(nil), from.Succs...)
	for len(work) > 0 {
		b := work[len(work)-1]
		work = work[:len(work)-1]
		if seen[b] || b == avoid || (b != to && joinsGoroutines(b)) {
			continue
		}
		seen[b] = true
		if b == to {
			return true
		}
		work = append(work, b.Succs...)
	}
	return false
}

// loopCarriedStore returns a description of a parent store to the captured variable that lies on a cycle through
// the spawn site which does not re-allocate the variable, or "".
func loopCarriedStore(spawn ssa.Instruction, al *ssa.Alloc) string {
	c := spawn.Block()
	a := al.Block()
	if a == c {
		return "" // allocated in the spawning block itself: a new variable whenever the site is reached again
	}
	if al.Referrers() == nil {
		return ""
	}
	for _, ref := range *al.Referrers() {
		s, ok := ref.(*ssa.Store)
		if !ok || s.Addr != al || s.Parent() != spawn.Parent() {
			continue
		}
		sb := s.Block()
		if sb == a {
			continue // initialisation next to the allocation
		}
		onCycle := false
		if sb == c {
			onCycle = reachAvoiding(c, c, a)
		} else {
			onCycle = reachAvoiding(c, sb, a) && reachAvoiding(sb, c, a)
		}
		if onCycle {
			return s.Parent().Prog.Fset.Position(s.Pos()).String()
		}
	}
	return ""
}

// goCaptureCheck emits one obligation per variable the spawned closure captures by reference.
func (v *vc) goCaptureCheck(fr *frame, st *state, in ssa.Instruction) {
	mc := spawnedClosure(in)
	if mc == nil || !fr.top || fr.fc == nil || !fr.fc.sweep {
		return // checked once per function, by the sweep
	}
	cl, _ := mc.Fn.(*ssa.Function)
	if cl == nil {
		return
	}
	for i, b := range mc.Bindings {
		al, ok := b.(*ssa.Alloc)
		if !ok || i >= len(cl.FreeVars) {
			continue
		}
		name := cl.FreeVars[i].Name()
		cond := "true"
		if where := loopCarriedStore(in, al); where != "" {
			cond = "false"
			v.note("goroutine %s captures %s, which its parent reassigns at %s on a path back to the spawn site", cl.Name(), name, shortPos(where))
		}
		v.oblige(st, "guard", fmt.Sprintf("goroutine_%s_sees_a_stable_%s", strings.ReplaceAll(cl.Name(), "$", "_"), name), v.site(in), cond, nil)
	}
}

func shortPos(p string) string {
	if i := strings.Index(p, "/repo/"); i >= 0 {
		return p[i+6:]
	}
	return p
}
