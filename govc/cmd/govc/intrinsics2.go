package main

// More trusted models: sort.Search (with the predicate closure evaluated symbolically).

import (
	"fmt"

	"golang.org/x/tools/go/ssa"
)

// sortSearch models r := sort.Search(n, f) by the facts that hold for ANY predicate f (the invariant of
// the binary search): 0 <= r <= n; r < n ==> f(r); r > 0 ==> !f(r-1). The closure body is inlined at
// the symbolic arguments r and r-1 (it must be free of side effects on modelled state).
func (v *vc) sortSearch(fr *frame, st *state, instr ssa.Instruction, c *ssa.CallCommon, args []string, res *ssa.Call) bool {
	mc := fr.closures()[c.Args[1]]
	if mc == nil {
		if m, ok := c.Args[1].(*ssa.MakeClosure); ok {
			mc = m
		}
	}
	if mc == nil {
		return false
	}
	callee, ok := mc.Fn.(*ssa.Function)
	if !ok || !v.canInline(callee) {
		return false
	}
	v.trusted["model: sort.Search returns r in [0,n] with f(r) (if r<n) and !f(r-1) (if r>0); predicate inlined"] = true
	n := args[0]
	r := v.fresh("search.r")
	v.decl(r, "Int")
	v.fact(st, fmt.Sprintf("(and (<= 0 %s) (<= %s %s))", r, r, n))
	eval := func(arg, cond string) string {
		sub := st.clone()
		sub.reach = v.define("search.reach", "Bool", and(st.reach, cond))
		nf := &frame{fn: callee, vals: map[ssa.Value]string{}, addrs: map[ssa.Value]*addr{}, prefix: fmt.Sprintf("%ssrch%d.", fr.prefix, v.ctr), parent: fr}
		v.ctr++
		nf.vals[callee.Params[0]] = arg
		cf := fr
		for cf != nil && cf.fn != mc.Parent() {
			cf = cf.parent
		}
		if cf == nil {
			cf = fr
		}
		for i, fvar := range callee.FreeVars {
			b := mc.Bindings[i]
			if a, ok := cf.addrs[b]; ok {
				nf.addrs[fvar] = a
			}
			if t, ok := cf.vals[b]; ok {
				nf.vals[fvar] = t
			} else if _, isAddr := cf.addrs[b]; !isAddr {
				nf.vals[fvar] = v.val(cf, st, b)
			}
		}
		v.depth++
		v.inlineStack[callee] = true
		rets := v.runBody(nf, sub)
		delete(v.inlineStack, callee)
		v.depth--
		if len(rets) == 0 {
			return "true"
		}
		expr := rets[len(rets)-1].vals[0]
		for k := len(rets) - 2; k >= 0; k-- {
			expr = ite(rets[k].st.reach, rets[k].vals[0], expr)
		}
		return v.define("search.f", "Bool", expr)
	}
	inRange := fmt.Sprintf("(< %s %s)", r, n)
	f1 := eval(r, inRange)
	v.fact(st, imp(inRange, f1))
	pos := fmt.Sprintf("(> %s 0)", r)
	f2 := eval(fmt.Sprintf("(- %s 1)", r), pos)
	v.fact(st, imp(pos, not(f2)))
	v.setResult(fr, st, res, []string{r})
	return true
}
