package main

// `govc replay <file.json>`: re-run the replay recorded for a violation against /repo's current tree.

import (
	"context"
	"encoding/json"
	"fmt"
	"os"
	"os/exec"
	"path/filepath"
	"strings"
	"time"
)

func cmdReplay(args []string) int {
	if len(args) < 1 {
		fmt.Println("usage: govc replay <replay.json>")
		return 2
	}
	data, err := os.ReadFile(args[0])
	if err != nil {
		fmt.Println(err)
		return 2
	}
	var rep map[string]interface{}
	if err := json.Unmarshal(data, &rep); err != nil {
		fmt.Println(err)
		return 2
	}
	fmt.Printf("obligation: %v\nstatus: %v (%v)\n", rep["obligation"], rep["status"], rep["backend"])
	fn, _ := rep["function"].(string)
	// package directory = everything before the last '.'-separated function part that contains no '/'
	dir := fn
	if i := strings.Index(fn, ".("); i >= 0 {
		dir = fn[:i]
	} else if i := strings.LastIndex(fn, "."); i >= 0 {
		dir = fn[:i]
	}
	var srcFile string
	work, _ := os.MkdirTemp("", "govc-replay")
	defer os.RemoveAll(work)
	if t, ok := rep["template"].(string); ok && t != "" {
		srcFile = t
	} else if src, ok := rep["replay_test"].(string); ok && src != "" {
		srcFile = filepath.Join(work, "replay_test.go")
		os.WriteFile(srcFile, []byte(src), 0o644)
	} else {
		fmt.Println("no executable replay recorded for this obligation (no-failing-input-found); solver output:")
		fmt.Println(rep["solver_output"])
		return 1
	}
	testPath := filepath.Join(repoRoot, dir, "govc_replay_test.go")
	ov, _ := json.Marshal(map[string]interface{}{"Replace": map[string]string{testPath: srcFile}})
	ovFile := filepath.Join(work, "overlay.json")
	os.WriteFile(ovFile, ov, 0o644)
	ctx, cancel := context.WithTimeout(context.Background(), 400*time.Second)
	defer cancel()
	cmd := exec.CommandContext(ctx, "go", "test", "-overlay", ovFile, "-vet=off", "-timeout", "120s", "-count=1", "-v", "-run", "^TestGovcReplay$", "./"+dir+"/")
	cmd.Dir = repoRoot
	cmd.Env = append(os.Environ(), "GOFLAGS=-mod=mod", "GOPROXY=off", "GOSUMDB=off", "GOTOOLCHAIN=local")
	out, _ := cmd.CombinedOutput()
	fmt.Println(string(out))
	s := string(out)
	if strings.Contains(s, "GOVC-REPLAY-PANIC") || strings.Contains(s, "GOVC-REPLAY-ENSURES-FALSE") {
		fmt.Println("replay: the real code exhibits the failure")
		return 1
	}
	fmt.Println("replay: the real code does not exhibit the failure on this input")
	return 0
}
