package main

// Solver scheduling hints: /verif/solver_hints.json maps an obligation name to the back end that
// discharged it when `govc hints` was last run. Hints only reorder the portfolio.

import (
	"encoding/json"
	"fmt"
	"os"
	"path/filepath"
)

var solverHints = map[string]string{}

func loadHints() {
	data, err := os.ReadFile("/verif/solver_hints.json")
	if err != nil {
		return
	}
	json.Unmarshal(data, &solverHints)
}

// cmdHints rebuilds the hints file from the evidence files of the last runs.
func cmdHints() int {
	files, _ := filepath.Glob("/verif/evidence/*.json")
	out := map[string]string{}
	for _, f := range files {
		data, err := os.ReadFile(f)
		if err != nil {
			continue
		}
		var ev struct {
			Coverage struct {
				Results []evObligation `json:"obligation_results"`
			} `json:"coverage"`
		}
		if json.Unmarshal(data, &ev) != nil {
			continue
		}
		for _, r := range ev.Coverage.Results {
			// only worth recording when the default first back end did not answer
			if r.Backend != "" && len(r.Backend) >= 4 && r.Backend[:4] != "z3-n" {
				out[r.Name] = r.Backend
			}
		}
	}
	data, _ := json.MarshalIndent(out, "", " ")
	os.WriteFile("/verif/solver_hints.json", data, 0o644)
	fmt.Printf("govc: %d scheduling hints written\n", len(out))
	return 0
}
