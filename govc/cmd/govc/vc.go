package main

// Verification-condition generation over go/ssa: symbolic state, heap model, obligations.

import (
	"fmt"
	"go/types"
	"strings"

	"golang.org/x/tools/go/ssa"
)

type itemKind int

const (
	itDecl itemKind = iota
	itFact
	itOblig
)

type item struct {
	kind itemKind
	text string
	origin string // contract clause a fact was assumed from (see downstreamPanic)
	ob   *obligation
}

type obligation struct {
	name    string // <func>/<kind>:<label>[@site]
	fn      string
	kind    string
	label   string
	goal    string // Bool term that must be valid given earlier facts
	pos     int
	props   []string
	cover   bool // must be SAT (vacuity guard)
	site    string
	mustFail bool // injected "ensures false" guard: must NOT be valid
	skipItem int  // replay aid: index of an assumed fact to leave out (see downstreamPanic)
	skipOrigin string
	origin string
	// results
	status  string // unsat(discharged) | sat | unknown | timeout
	backend string
	ms      int64
	model   string
	output  string
	smtSize int
}

type epochInfo struct {
	fresh bool
	parts []epochPart
	top   string // allocation counter when the epoch began: every reference stored in its heaps is below it
}
type epochPart struct {
	cond  string
	epoch int
}

type state struct {
	reach  string
	epoch  int
	heaps  map[string]string
	locals map[string]string
	ghost  map[string]string
	top    string
	defers []deferEntry
	preserve []preserveLoc // non-escaping local cells (see escape.go)
}

type deferEntry struct {
	guard string
	instr *ssa.Defer
	fr    *frame
}

func (s *state) clone() *state {
	n := &state{reach: s.reach, epoch: s.epoch, top: s.top, heaps: map[string]string{}, locals: map[string]string{}, ghost: map[string]string{}}
	for k, v := range s.heaps {
		n.heaps[k] = v
	}
	for k, v := range s.locals {
		n.locals[k] = v
	}
	for k, v := range s.ghost {
		n.ghost[k] = v
	}
	n.defers = append([]deferEntry(nil), s.defers...)
	n.preserve = append([]preserveLoc(nil), s.preserve...)
	return n
}

type addrKind int

const (
	aLocal addrKind = iota
	aField
	aCell
	aElem
	aGlobal
	aPath
)

type step struct {
	field int    // struct field index, or -1
	idx   string // array index term when field == -1
	typ   types.Type // type of the container this step applies to
}

type addr struct {
	kind  addrKind
	key   string     // aLocal: local key; aGlobal: global name
	base  string     // aField: object ref; aCell: ref; aElem: array ref
	idx   string     // aElem: absolute index
	st    types.Type // aField: struct type
	fi    int        // aField: field index
	typ   types.Type // type of the value at this address
	root  *addr      // aPath
	steps []step
}

type vc struct {
	eng       *engine
	sc        *sortCtx
	items     []item
	ctr       int
	fc        *funcContract
	fn        *ssa.Function
	fnName    string
	imprecise []string
	trusted   map[string]bool
	balDecls  map[string]bool
	ensuresEvaluated map[string]bool
	lookupAfterDrop  map[ssa.Value]string
	heapSort  map[string]string
	heapMemo  map[string]string
	epochs    []epochInfo
	entry     *state
	obls      []*obligation
	callCount map[string]int
	depth     int
	props     []string
	errs      []string
	knownLen  map[string]int // slice term -> statically known length
	paramTV   map[string]tv
	loopsSeen int
	inlined   map[string]bool
	assumedContracts map[string]bool
	localSorts map[string]string
	nonNil map[string]bool
	sentinels map[string]bool
	inlineStack map[*ssa.Function]bool
	unresolved bool
	readOps []readOp
	curOrigin string
	firstIter []firstIterEq
	curBlock    *ssa.BasicBlock
	hookNames   map[string]tv
	sentinelList []string
	retBlock    *ssa.BasicBlock
	frameCache  *frameSpec
	heapValType map[string]types.Type
	lastCall    []string
	lastCallSig *types.Signature
	loopEntry map[*ssa.BasicBlock]loopEntryInfo
	ghostSorts map[string]string
}

type frame struct {
	fn     *ssa.Function
	vals   map[ssa.Value]string
	addrs  map[ssa.Value]*addr
	prefix string
	parent *frame
	fc     *funcContract // contract of this function if top-level
	// closure bindings: free var -> value/addr from the creating frame
	entryState *state
	results    []returnPoint
	top        bool
	tuples map[ssa.Value][]string
	clos map[ssa.Value]*ssa.MakeClosure
	rng map[ssa.Value]ssa.Value
	arrs map[ssa.Value]*types.Array
	sels map[*ssa.Select][]string
}

type returnPoint struct {
	st   *state
	vals []string
}

func (v *vc) fresh(hint string) string {
	v.ctr++
	return q(fmt.Sprintf("%s#%d", hint, v.ctr))
}

func (v *vc) decl(name, sort string) {
	v.items = append(v.items, item{kind: itDecl, text: fmt.Sprintf("(declare-const %s %s)", name, sort)})
}

func (v *vc) define(hint, sort, term string) string {
	// keep short terms inline
	if len(term) < 24 && !strings.Contains(term, " ") {
		return term
	}
	n := v.fresh(hint)
	v.items = append(v.items, item{kind: itDecl, text: fmt.Sprintf("(define-fun %s () %s %s)", n, sort, term)})
	return n
}

func (v *vc) havoc(hint string, t types.Type, st *state) string {
	n := v.fresh(hint)
	v.decl(n, v.sc.sortOf(t))
	v.flushSortDecls()
	if inv := v.sc.typeInv(n, t); inv != "" {
		v.fact(st, inv)
	}
	if st != nil {
		v.refFacts(st, n, t)
	}
	return n
}

// refFacts: every reference value in existence was allocated before now.
func (v *vc) refFacts(st *state, n string, t types.Type) {
	switch u := t.Underlying().(type) {
	case *types.Pointer, *types.Map, *types.Chan:
		v.fact(st, fmt.Sprintf("(and (< %s %s) (< (elem_arr %s) %s))", n, st.top, n, st.top))
	case *types.Slice:
		v.fact(st, fmt.Sprintf("(< (s_arr %s) %s)", n, st.top))
	case *types.Interface:
		v.fact(st, fmt.Sprintf("(< (i_val %s) %s)", n, st.top))
	case *types.Struct:
		if isTime(t) {
			return
		}
		for i := 0; i < u.NumFields(); i++ {
			ft := u.Field(i).Type()
			switch ft.Underlying().(type) {
			case *types.Pointer, *types.Map, *types.Chan, *types.Slice, *types.Interface, *types.Struct:
				v.refFacts(st, fmt.Sprintf("(%s %s)", v.sc.structSel(t, i), n), ft)
			}
		}
	}
}

// flushSortDecls moves datatype declarations created by sortOf into the item stream
// (they must precede their first use).
func (v *vc) flushSortDecls() {
	if len(v.sc.decls) == 0 {
		return
	}
	// datatype declarations are emitted as an ordered prelude in front of every query (see smtFor)
}

func (v *vc) fact(st *state, f string) {
	if f == "" || f == "true" {
		return
	}
	if st != nil && st.reach != "true" {
		f = imp(st.reach, f)
	}
	v.items = append(v.items, item{kind: itFact, text: f, origin: v.curOrigin})
}

func (v *vc) rawFact(f string) {
	v.items = append(v.items, item{kind: itFact, text: f})
}

func (v *vc) oblige(st *state, kind, label, site, cond string, props []string) *obligation {
	name := v.fnName + "/" + kind
	if label != "" {
		name += ":" + label
	}
	if site != "" {
		name += "@" + site
	}
	// make names unique
	base := name
	for i := 2; ; i++ {
		dup := false
		for _, o := range v.obls {
			if o.name == name {
				dup = true
				break
			}
		}
		if !dup {
			break
		}
		name = fmt.Sprintf("%s~%d", base, i)
	}
	if props == nil {
		props = v.props
	}
	ob := &obligation{name: name, fn: v.fnName, kind: kind, label: label, site: site, goal: imp(st.reach, cond), pos: len(v.items), props: props}
	v.items = append(v.items, item{kind: itOblig, ob: ob})
	v.obls = append(v.obls, ob)
	// after checking, the condition may be assumed downstream (standard assert-then-assume)
	ob.origin = name
	if kind == "inv-init" || kind == "inv-keep" {
		ob.origin = "inv:" + label + "@" + site
	}
	if kind == "ensures" || kind == "frame" || kind == "lemma" {
		return ob // the path ends at a return: nothing downstream can use the fact
	}
	v.curOrigin = ob.origin
	v.fact(st, cond)
	v.curOrigin = ""
	return ob
}

func (v *vc) cover(st *state, label, cond string) {
	name := v.fnName + "/cover:" + label
	ob := &obligation{name: name, fn: v.fnName, kind: "cover", label: label, goal: and(st.reach, cond), pos: len(v.items), props: v.props, cover: true}
	v.items = append(v.items, item{kind: itOblig, ob: ob})
	v.obls = append(v.obls, ob)
}

// coverOnce: a reachability check that is emitted once per label (e.g. after the first symbolic visit of a call
// site): the assumed postcondition of a callee must not contradict what is already known.
func (v *vc) coverOnce(st *state, label string) {
	name := v.fnName + "/cover:" + label
	for _, o := range v.obls {
		if o.name == name {
			return
		}
	}
	v.cover(st, label, "true")
}

func (v *vc) note(format string, args ...interface{}) {
	s := fmt.Sprintf(format, args...)
	for _, x := range v.imprecise {
		if x == s {
			return
		}
	}
	v.imprecise = append(v.imprecise, s)
}

// ---------- heaps ----------

func (v *vc) heapAt(name string, epoch int) string {
	key := fmt.Sprintf("%s@e%d", name, epoch)
	if t, ok := v.heapMemo[key]; ok {
		return t
	}
	sort := v.heapSort[name]
	ei := v.epochs[epoch]
	var t string
	if ei.fresh {
		t = q(key)
		v.decl(t, sort)
		etop := ei.top
		if epoch == 0 && v.entry != nil {
			etop = v.entry.top
		}
		v.heapAxiom(t, name, etop)
	} else {
		// merge epoch: ite over parts
		terms := make([]string, len(ei.parts))
		for i, p := range ei.parts {
			terms[i] = v.heapAt(name, p.epoch)
		}
		expr := terms[len(terms)-1]
		for i := len(terms) - 2; i >= 0; i-- {
			expr = ite(ei.parts[i].cond, terms[i], expr)
		}
		if expr == terms[len(terms)-1] && len(expr) < 64 {
			t = expr
		} else {
			t = q(key)
			v.items = append(v.items, item{kind: itDecl, text: fmt.Sprintf("(define-fun %s () %s %s)", t, sort, expr)})
		}
	}
	v.heapMemo[key] = t
	return t
}

func (v *vc) newEpoch(fresh bool, parts []epochPart) int {
	v.epochs = append(v.epochs, epochInfo{fresh: fresh, parts: parts})
	return len(v.epochs) - 1
}

func (v *vc) regHeap(name, sort string) {
	if _, ok := v.heapSort[name]; !ok {
		v.heapSort[name] = sort
	}
}

func (v *vc) getHeap(st *state, name string) string {
	if t, ok := st.heaps[name]; ok {
		return t
	}
	return v.heapAt(name, st.epoch)
}

func (v *vc) setHeap(st *state, name, sort, term string) {
	st.heaps[name] = v.define(name, sort, term)
}

func (v *vc) fieldHeap(st types.Type, fi int) (name, sort string) {
	s := st.Underlying().(*types.Struct)
	name = "H " + typeKey(canonStruct(st)) + "." + s.Field(fi).Name()
	sort = fmt.Sprintf("(Array Int %s)", v.sc.sortOf(s.Field(fi).Type()))
	v.regHeapT(name, sort, s.Field(fi).Type())
	return
}

func (v *vc) elemHeap(et types.Type) (name, sort string) {
	name = "A " + typeKey(et)
	sort = fmt.Sprintf("(Array Int (Array Int %s))", v.sc.sortOf(et))
	v.regHeapT(name, sort, et)
	return
}

func (v *vc) cellHeap(et types.Type) (name, sort string) {
	name = "P " + typeKey(et)
	sort = fmt.Sprintf("(Array Int %s)", v.sc.sortOf(et))
	v.regHeapT(name, sort, et)
	return
}

func (v *vc) regHeapT(name, sort string, valType types.Type) {
	v.regHeap(name, sort)
	if v.heapValType == nil {
		v.heapValType = map[string]types.Type{}
	}
	if _, ok := v.heapValType[name]; !ok {
		v.heapValType[name] = valType
	}
}

// heapAxiom states, for a freshly introduced heap constant, that every value stored in it satisfies the
// invariant of its Go type (slices well-formed, integers in range, ...): memory is typed.
func (v *vc) heapAxiom(constName, heapName, top string) {
	t := v.heapValType[heapName]
	if t == nil {
		return
	}
	if strings.HasPrefix(heapName, "A ") {
		el := fmt.Sprintf("(select (select %s a) i)", constName)
		inv := v.sc.typeInv(el, t)
		if top != "" {
			// every reference stored, in the heap as it was then, in an array allocated by then had been
			// allocated by then (rows of arrays not yet allocated are unconstrained: a callee that
			// `modifies nothing` hands out fresh objects whose contents live in the same heap constant)
			if rb := v.refBound(el, t, top, 0); rb != "" && rb != "true" {
				inv = and(inv, fmt.Sprintf("(=> (< a %s) %s)", top, rb))
			}
		}
		if inv != "" && inv != "true" {
			v.rawFact(fmt.Sprintf("(forall ((a Int) (i Int)) (! %s :pattern ((select (select %s a) i))))", inv, constName))
		}
		return
	}
	el := fmt.Sprintf("(select %s r)", constName)
	inv := v.sc.typeInv(el, t)
	if top != "" {
		if rb := v.refBound(el, t, top, 0); rb != "" && rb != "true" {
			inv = and(inv, fmt.Sprintf("(=> (and (< r %s) (< (elem_arr r) %s)) %s)", top, top, rb))
		}
	}
	if inv != "" && inv != "true" {
		v.rawFact(fmt.Sprintf("(forall ((r Int)) (! %s :pattern ((select %s r))))", inv, constName))
	}
}

// refBound: the reference parts of a value of type t are below the allocation counter top ("" if it has none).
func (v *vc) refBound(term string, t types.Type, top string, depth int) string {
	switch u := t.Underlying().(type) {
	case *types.Pointer, *types.Map, *types.Chan:
		return fmt.Sprintf("(and (< %s %s) (< (elem_arr %s) %s))", term, top, term, top)
	case *types.Slice:
		return fmt.Sprintf("(< (s_arr %s) %s)", term, top)
	case *types.Interface:
		return fmt.Sprintf("(< (i_val %s) %s)", term, top)
	case *types.Struct:
		if isTime(t) || depth > 2 {
			return ""
		}
		var parts []string
		for i := 0; i < u.NumFields(); i++ {
			ft := u.Field(i).Type()
			switch ft.Underlying().(type) {
			case *types.Pointer, *types.Map, *types.Chan, *types.Slice, *types.Interface, *types.Struct:
				if p := v.refBound(fmt.Sprintf("(%s %s)", v.sc.structSel(t, i), term), ft, top, depth+1); p != "" {
					parts = append(parts, p)
				}
			}
		}
		return and(parts...)
	}
	return ""
}

func (v *vc) globalHeap(g string, t types.Type) (name, sort string) {
	name = "G " + g
	sort = v.sc.sortOf(t)
	v.regHeap(name, sort)
	return
}

func (v *vc) mapHeaps(mt *types.Map) (val, dom, ln string) {
	k := typeKey(mt)
	val = "M " + k
	dom = "MD " + k
	ln = "ML " + k
	ks := v.sc.sortOf(mt.Key())
	v.regHeap(val, fmt.Sprintf("(Array Int (Array %s %s))", ks, v.sc.sortOf(mt.Elem())))
	v.regHeap(dom, fmt.Sprintf("(Array Int (Array %s Bool))", ks))
	v.regHeap(ln, "(Array Int Int)")
	return
}

// ---------- load / store ----------

func (v *vc) load(st *state, a *addr) string {
	switch a.kind {
	case aLocal:
		if t, ok := st.locals[a.key]; ok {
			return t
		}
		return v.sc.zero(a.typ)
	case aField:
		h, _ := v.fieldHeap(a.st, a.fi)
		return sel(v.getHeap(st, h), a.base)
	case aCell:
		if isStruct(a.typ) {
			return v.loadStruct(st, a.base, a.typ)
		}
		h, _ := v.cellHeap(a.typ)
		return sel(v.getHeap(st, h), a.base)
	case aElem:
		h, _ := v.elemHeap(a.typ)
		return sel(sel(v.getHeap(st, h), a.base), a.idx)
	case aGlobal:
		if isIface(a.typ) {
			return v.sentinel(a.key)
		}
		h, _ := v.globalHeap(a.key, a.typ)
		return v.getHeap(st, h)
	case aPath:
		cur := v.load(st, a.root)
		for _, s := range a.steps {
			if s.field >= 0 {
				cur = fmt.Sprintf("(%s %s)", v.sc.structSel(s.typ, s.field), cur)
			} else {
				cur = sel(cur, s.idx)
			}
		}
		return cur
	}
	panic("load: bad addr")
}

func (v *vc) loadStruct(st *state, ref string, t types.Type) string {
	s := t.Underlying().(*types.Struct)
	if s.NumFields() == 0 {
		return v.sc.structCtor(t)
	}
	parts := make([]string, s.NumFields())
	for i := range parts {
		h, _ := v.fieldHeap(t, i)
		parts[i] = sel(v.getHeap(st, h), ref)
	}
	return fmt.Sprintf("(%s %s)", v.sc.structCtor(t), strings.Join(parts, " "))
}

func (v *vc) storeStruct(st *state, ref string, t types.Type, val string) {
	s := t.Underlying().(*types.Struct)
	for i := 0; i < s.NumFields(); i++ {
		h, sort := v.fieldHeap(t, i)
		v.setHeap(st, h, sort, sto(v.getHeap(st, h), ref, fmt.Sprintf("(%s %s)", v.sc.structSel(t, i), val)))
	}
}

func (v *vc) store(st *state, a *addr, val string) {
	switch a.kind {
	case aLocal:
		st.locals[a.key] = v.define("loc", v.sc.sortOf(a.typ), val)
	case aField:
		h, sort := v.fieldHeap(a.st, a.fi)
		v.setHeap(st, h, sort, sto(v.getHeap(st, h), a.base, val))
	case aCell:
		if isStruct(a.typ) {
			v.storeStruct(st, a.base, a.typ, val)
			return
		}
		h, sort := v.cellHeap(a.typ)
		v.setHeap(st, h, sort, sto(v.getHeap(st, h), a.base, val))
	case aElem:
		h, sort := v.elemHeap(a.typ)
		cur := v.getHeap(st, h)
		v.setHeap(st, h, sort, sto(cur, a.base, sto(sel(cur, a.base), a.idx, val)))
	case aGlobal:
		h, sort := v.globalHeap(a.key, a.typ)
		v.setHeap(st, h, sort, val)
	case aPath:
		v.store(st, a.root, v.updatePath(v.load(st, a.root), a.steps, val))
	}
}

func (v *vc) updatePath(cur string, steps []step, val string) string {
	if len(steps) == 0 {
		return val
	}
	s := steps[0]
	if s.field >= 0 {
		stt := s.typ.Underlying().(*types.Struct)
		parts := make([]string, stt.NumFields())
		for i := range parts {
			f := fmt.Sprintf("(%s %s)", v.sc.structSel(s.typ, i), cur)
			if i == s.field {
				parts[i] = v.updatePath(f, steps[1:], val)
			} else {
				parts[i] = f
			}
		}
		return fmt.Sprintf("(%s %s)", v.sc.structCtor(s.typ), strings.Join(parts, " "))
	}
	return sto(cur, s.idx, v.updatePath(sel(cur, s.idx), steps[1:], val))
}

// alloc returns a fresh reference.
func (v *vc) alloc(st *state, hint string) string {
	ref := v.define(hint, "Int", st.top)
	st.top = v.define("top", "Int", fmt.Sprintf("(+ %s 1)", ref))
	v.fact(st, fmt.Sprintf("(= (elem_arr %s) 0)", ref))
	return ref
}

func (v *vc) elemRef(st *state, arr, idx string) string {
	e := v.define("elem", "Int", fmt.Sprintf("(elem %s %s)", arr, idx))
	return e // elem is an interpreted injective pairing (prelude): no facts needed
}

// ---------- state merge ----------

type edge struct {
	cond string
	st   *state
}

func (v *vc) merge(edges []edge) *state {
	if len(edges) == 1 {
		n := edges[0].st.clone()
		n.reach = edges[0].cond
		return n
	}
	conds := make([]string, len(edges))
	for i, e := range edges {
		conds[i] = e.cond
	}
	n := &state{heaps: map[string]string{}, locals: map[string]string{}, ghost: map[string]string{}}
	n.reach = v.define("reach", "Bool", or(conds...))
	sameEpoch := true
	for _, e := range edges[1:] {
		if e.st.epoch != edges[0].st.epoch {
			sameEpoch = false
		}
	}
	if sameEpoch {
		n.epoch = edges[0].st.epoch
	} else {
		parts := make([]epochPart, len(edges))
		for i, e := range edges {
			parts[i] = epochPart{cond: e.cond, epoch: e.st.epoch}
		}
		n.epoch = v.newEpoch(false, parts)
	}
	mergeTerms := func(hint, sort string, get func(s *state) string) string {
		terms := make([]string, len(edges))
		same := true
		for i, e := range edges {
			terms[i] = get(e.st)
			if terms[i] != terms[0] {
				same = false
			}
		}
		if same {
			return terms[0]
		}
		expr := terms[len(terms)-1]
		for i := len(terms) - 2; i >= 0; i-- {
			expr = ite(conds[i], terms[i], expr)
		}
		return v.define(hint, sort, expr)
	}
	keys := map[string]bool{}
	for _, e := range edges {
		for k := range e.st.heaps {
			keys[k] = true
		}
	}
	for _, k := range sortedKeys(keys) {
		k := k
		n.heaps[k] = mergeTerms(k, v.heapSort[k], func(s *state) string { return v.getHeap(s, k) })
	}
	lkeys := map[string]bool{}
	for _, e := range edges {
		for k := range e.st.locals {
			lkeys[k] = true
		}
	}
	for _, k := range sortedKeys(lkeys) {
		k := k
		var sort string
		for _, e := range edges {
			if _, ok := e.st.locals[k]; ok {
				sort = v.localSorts[k]
			}
		}
		allHave := true
		for _, e := range edges {
			if _, ok := e.st.locals[k]; !ok {
				allHave = false
			}
		}
		if !allHave {
			continue // local not live on all paths
		}
		n.locals[k] = mergeTerms("loc", sort, func(s *state) string { return s.locals[k] })
	}
	gkeys := map[string]bool{}
	for _, e := range edges {
		for k := range e.st.ghost {
			gkeys[k] = true
		}
	}
	for _, k := range sortedKeys(gkeys) {
		k := k
		n.ghost[k] = mergeTerms("ghost "+k, v.ghostSorts[k], func(s *state) string { return s.ghost[k] })
	}
	n.top = mergeTerms("top", "Int", func(s *state) string { return s.top })
	seenP := map[preserveLoc]bool{}
	for _, e := range edges {
		for _, p := range e.st.preserve {
			if !seenP[p] {
				seenP[p] = true
				n.preserve = append(n.preserve, p)
			}
		}
	}
	// defers: union with guards
	seen := map[*ssa.Defer]int{}
	for i, e := range edges {
		for _, d := range e.st.defers {
			g := and(conds[i], d.guard)
			if j, ok := seen[d.instr]; ok {
				n.defers[j].guard = or(n.defers[j].guard, g)
			} else {
				seen[d.instr] = len(n.defers)
				n.defers = append(n.defers, deferEntry{guard: g, instr: d.instr, fr: d.fr})
			}
		}
	}
	for i := range n.defers {
		n.defers[i].guard = v.define("dguard", "Bool", n.defers[i].guard)
	}
	return n
}
