package main

// Evaluation of contract expressions (a Go-expression subset plus old/imp/all/ex/fresh and pure
// spec functions) into SMT terms over a symbolic state.

import (
	"fmt"
	"go/ast"
	"go/constant"
	"go/token"
	"go/types"
	"math/big"
	"strconv"
	"strings"

	"golang.org/x/tools/go/ssa"
)

type tv struct {
	term  string
	typ   types.Type // nil: untyped integer constant
	isLoc bool       // struct-typed expression denoted by the reference of its memory object
	isNil bool
	isBool bool
}

type specEnv struct {
	v         *vc
	fr        *frame
	cur, pre  *state
	names     map[string]tv
	overrides map[string]tv
	pkg       *ssa.Package
	sig       *types.Signature
	block     *ssa.BasicBlock
	bound     int
	pol       int // +1: formula is a proof goal, -1: an assumption, 0: unknown/mixed
	localsAt  *ssa.BasicBlock // postconditions: program point at which non-parameter locals are read
	outOfScopeOK bool         // postconditions: a local that is not in scope at this return makes the clause inapplicable here
	outOfScope   bool
	scopeFn      *ssa.Function // when a callee's postcondition is assumed at a call: the callee
	inOld     bool
	errs      []string
}

func (v *vc) newSpecEnv(fr *frame, st *state, block *ssa.BasicBlock) *specEnv {
	se := &specEnv{v: v, fr: fr, cur: st, pre: v.entry, names: map[string]tv{}, block: block}
	top := fr
	for top.parent != nil && !top.top {
		top = top.parent
	}
	se.pkg = fr.fn.Pkg
	if se.pkg == nil && fr.fn.Parent() != nil {
		se.pkg = fr.fn.Parent().Pkg
	}
	se.sig = fr.fn.Signature
	for k, t := range v.paramTV {
		se.names[k] = t
	}
	return se
}

func (se *specEnv) fail(format string, args ...interface{}) tv {
	msg := fmt.Sprintf(format, args...)
	se.v.errs = append(se.v.errs, msg)
	return tv{term: "false", typ: types.Typ[types.Bool]}
}

func (se *specEnv) setResults(sig *types.Signature, results []string) {
	for i, r := range results {
		t := sig.Results().At(i).Type()
		se.names[fmt.Sprintf("result%d", i)] = tv{term: r, typ: t}
		if n := sig.Results().At(i).Name(); n != "" && n != "_" {
			se.names[n] = tv{term: r, typ: t}
		}
		if len(results) == 1 {
			se.names["result"] = tv{term: r, typ: t}
		}
		if i == len(results)-1 && isIface(t) {
			if _, ok := se.names["err"]; !ok {
				se.names["err"] = tv{term: r, typ: t}
			}
		}
	}
}

func (se *specEnv) evalBool(e ast.Expr) string {
	t := se.eval(e)
	if t.typ == nil || !isBool(t.typ) {
		se.fail("spec expression is not boolean: %s", exprString(e))
		return "false"
	}
	return t.term
}

func (se *specEnv) evalInt(e ast.Expr) string {
	t := se.eval(e)
	return t.term
}

func exprString(e ast.Expr) string {
	return types.ExprString(e)
}

var boolT = types.Typ[types.Bool]
var intT = types.Typ[types.Int]

func (se *specEnv) state() *state { return se.cur }

func (se *specEnv) lookupLocal(name string) (tv, bool) {
	if se.fr == nil {
		return tv{}, false
	}
	fn := se.fr.fn
	var best *ssa.DebugRef
	bestDepth, bestIdx := -1, -1
	var bestPhi *ssa.Phi
	depth := func(b *ssa.BasicBlock) int {
		d := 0
		for x := b.Idom(); x != nil; x = x.Idom() {
			d++
		}
		return d
	}
	for _, b := range fn.Blocks {
		for idx, in := range b.Instrs {
			if phi, ok := in.(*ssa.Phi); ok && phi.Comment == name {
				// the merged value of the variable at a join point
				at := se.block
				if at == nil {
					at = se.localsAt
				}
				if _, has := se.fr.vals[phi]; has && (at == nil || b == at || b.Dominates(at)) {
					if dd := depth(b); dd > bestDepth || dd == bestDepth && idx > bestIdx {
						bestDepth, bestIdx, bestPhi, best = dd, idx, phi, nil
					}
				}
				continue
			}
			d, ok := in.(*ssa.DebugRef)
			if !ok || d.Object() == nil || d.Object().Name() != name {
				continue
			}
			if _, isVar := d.Object().(*types.Var); !isVar {
				continue
			}
			if _, has := se.fr.vals[d.X]; !has {
				if _, hasA := se.fr.addrs[d.X]; !hasA {
					if _, isC := d.X.(*ssa.Const); !isC {
						continue
					}
				}
			}
			at := se.block
			if at == nil {
				at = se.localsAt
			}
			if at != nil && !(b == at || b.Dominates(at)) {
				continue
			}
			if dd := depth(b); dd > bestDepth || dd == bestDepth && idx > bestIdx {
				bestDepth, bestIdx, best, bestPhi = dd, idx, d, nil
			}
		}
	}
	if bestPhi != nil {
		return tv{term: se.fr.vals[bestPhi], typ: bestPhi.Type()}, true
	}
	if best == nil {
		return tv{}, false
	}
	if best.IsAddr {
		a := se.v.addrOf(se.fr, se.cur, best.X)
		if a == nil {
			return tv{}, false
		}
		if a.kind == aCell && isStruct(a.typ) {
			return tv{term: a.base, typ: a.typ, isLoc: true}, true
		}
		return tv{term: se.v.load(se.cur, a), typ: a.typ}, true
	}
	return tv{term: se.v.val(se.fr, se.cur, best.X), typ: best.X.Type()}, true
}

func (se *specEnv) ident(x *ast.Ident) tv {
	switch x.Name {
	case "true":
		return tv{term: "true", typ: boolT}
	case "false":
		return tv{term: "false", typ: boolT}
	case "nil":
		return tv{term: "0", isNil: true, typ: types.Typ[types.UntypedNil]}
	}
	if t, ok := se.overrides[x.Name]; ok {
		return t
	}
	if se.inOld {
		// old(p): a parameter inside old() is its value at function entry, even if the body reassigns it
		if t, ok := se.names[x.Name]; ok {
			return t
		}
	}
	if se.block != nil {
		// inside the body (loop invariants, call-site clauses) a name means the variable's current value
		if t, ok := se.lookupLocal(x.Name); ok {
			return t
		}
	}
	if t, ok := se.names[x.Name]; ok {
		return t
	}
	if g, ok := se.cur.ghost[x.Name]; ok {
		if se.v.ghostSorts[x.Name] == "Bool" {
			return tv{term: g, typ: boolT}
		}
		if se.v.ghostSorts[x.Name] == "(Array Int Int)" {
			return tv{term: g, typ: types.NewArray(intT, 0)}
		}
		return tv{term: g, typ: intT}
	}
	if t, ok := se.lookupLocal(x.Name); ok {
		return t
	}
	// free variables of a closure under verification
	if se.fr != nil {
		for _, fv := range se.fr.fn.FreeVars {
			if fv.Name() == x.Name {
				if pt, ok := fv.Type().Underlying().(*types.Pointer); ok {
					if a, ok := se.fr.addrs[fv]; ok {
						return tv{term: se.v.load(se.cur, a), typ: pt.Elem()}
					}
					ref := se.v.val(se.fr, se.cur, fv)
					if isStruct(pt.Elem()) {
						return tv{term: ref, typ: pt.Elem(), isLoc: true}
					}
					return tv{term: se.v.load(se.cur, &addr{kind: aCell, base: ref, typ: pt.Elem()}), typ: pt.Elem()}
				}
				return tv{term: se.v.val(se.fr, se.cur, fv), typ: fv.Type()}
			}
		}
	}
	if se.pkg != nil {
		if o := se.pkg.Pkg.Scope().Lookup(x.Name); o != nil {
			return se.object(o)
		}
	}
	if o := types.Universe.Lookup(x.Name); o != nil {
		if c, ok := o.(*types.Const); ok {
			return se.constVal(c.Val(), c.Type())
		}
		if tn, ok := o.(*types.TypeName); ok {
			return tv{term: "", typ: tn.Type()}
		}
	}
	if se.outOfScopeOK && se.scopeFn != nil && localDeclared(se.scopeFn, x.Name) {
		se.outOfScope = true
		return tv{term: "false", typ: types.Typ[types.Bool]}
	}
	if se.outOfScopeOK && se.scopeFn == nil && se.fr != nil && localDeclared(se.fr.fn, x.Name) {
		// a postcondition that names a local of the function is not evaluated at a return its declaration does
		// not reach (atReturn insists that it is evaluated at one return at least)
		se.outOfScope = true
		return tv{term: "false", typ: types.Typ[types.Bool]}
	}
	return se.fail("unknown identifier %q in spec", x.Name)
}

func localDeclared(fn *ssa.Function, name string) bool {
	for _, b := range fn.Blocks {
		for _, in := range b.Instrs {
			if d, ok := in.(*ssa.DebugRef); ok && d.Object() != nil && d.Object().Name() == name {
				if _, isVar := d.Object().(*types.Var); isVar {
					return true
				}
			}
		}
	}
	return false
}

func (se *specEnv) constVal(val constant.Value, t types.Type) tv {
	switch val.Kind() {
	case constant.Int:
		bi, _ := new(big.Int).SetString(val.ExactString(), 10)
		if b, ok := t.Underlying().(*types.Basic); ok && b.Info()&types.IsUntyped != 0 {
			return tv{term: intTerm(bi), typ: nil}
		}
		return tv{term: se.v.sc.intLit(bi, t), typ: t}
	case constant.Bool:
		return tv{term: strconv.FormatBool(constant.BoolVal(val)), typ: boolT}
	case constant.String:
		return tv{term: se.v.strConst(constant.StringVal(val)), typ: types.Typ[types.String]}
	case constant.Float:
		if f, ok := constant.Float64Val(val); ok && f == float64(int64(f)) {
			return tv{term: intTerm(big.NewInt(int64(f))), typ: nil}
		}
	}
	return se.fail("unsupported constant in spec")
}

func (se *specEnv) object(o types.Object) tv {
	switch ob := o.(type) {
	case *types.Const:
		return se.constVal(ob.Val(), ob.Type())
	case *types.Var:
		// package-level variable
		a := &addr{kind: aGlobal, key: ob.Pkg().Path() + "." + ob.Name(), typ: ob.Type()}
		return tv{term: se.v.load(se.cur, a), typ: ob.Type()}
	case *types.TypeName:
		return tv{term: "", typ: ob.Type(), isNil: false}
	}
	return se.fail("unsupported object %s in spec", o.Name())
}

func (se *specEnv) importedObject(pkgName, name string) (types.Object, bool) {
	if se.pkg == nil {
		return nil, false
	}
	for _, imp := range se.pkg.Pkg.Imports() {
		if imp.Name() == pkgName {
			if o := imp.Scope().Lookup(name); o != nil {
				return o, true
			}
		}
	}
	// well-known packages even if not imported by the package under verification
	for _, p := range se.v.eng.prog.AllPackages() {
		if p.Pkg.Name() == pkgName {
			if o := p.Pkg.Scope().Lookup(name); o != nil {
				return o, true
			}
		}
	}
	return nil, false
}

func derefStruct(t types.Type) (types.Type, bool) {
	if p, ok := t.Underlying().(*types.Pointer); ok {
		if isStruct(p.Elem()) {
			return p.Elem(), true
		}
	}
	return nil, false
}

func (se *specEnv) selector(x *ast.SelectorExpr) tv {
	// qualified identifier?
	if id, ok := x.X.(*ast.Ident); ok {
		_, isName := se.names[id.Name]
		_, isOv := se.overrides[id.Name]
		if !isName && !isOv {
			if _, isLocal := se.lookupLocal(id.Name); !isLocal {
				if o, ok := se.importedObject(id.Name, x.Sel.Name); ok {
					return se.object(o)
				}
			}
		}
	}
	base := se.eval(x.X)
	if base.typ == nil {
		return se.fail("selector on untyped %s", exprString(x))
	}
	var stt types.Type
	byRef := false
	if t, ok := derefStruct(base.typ); ok {
		stt, byRef = t, true
	} else if isStruct(base.typ) {
		stt, byRef = base.typ, base.isLoc
	} else {
		return se.fail("selector %s on non-struct type %s", exprString(x), base.typ)
	}
	s := stt.Underlying().(*types.Struct)
	for i := 0; i < s.NumFields(); i++ {
		f := s.Field(i)
		if f.Name() != x.Sel.Name {
			continue
		}
		if byRef {
			h, _ := se.v.fieldHeap(stt, i)
			return tv{term: sel(se.v.getHeap(se.cur, h), base.term), typ: f.Type()}
		}
		return tv{term: fmt.Sprintf("(%s %s)", se.v.sc.structSel(stt, i), base.term), typ: f.Type()}
	}
	// promoted fields through embedded structs
	for i := 0; i < s.NumFields(); i++ {
		f := s.Field(i)
		if !f.Embedded() {
			continue
		}
		inner := &ast.SelectorExpr{X: &ast.SelectorExpr{X: x.X, Sel: ast.NewIdent(f.Name())}, Sel: x.Sel}
		save := len(se.v.errs)
		r := se.selector(inner)
		if len(se.v.errs) == save {
			return r
		}
		se.v.errs = se.v.errs[:save]
	}
	return se.fail("no field %s in %s", x.Sel.Name, stt)
}

func (se *specEnv) index(x *ast.IndexExpr) tv {
	base := se.eval(x.X)
	idx := se.eval(x.Index)
	if base.typ == nil {
		return se.fail("index on untyped")
	}
	switch u := base.typ.Underlying().(type) {
	case *types.Slice:
		abs := fmt.Sprintf("(+ (s_off %s) %s)", base.term, idx.term)
		if isStruct(u.Elem()) {
			return tv{term: fmt.Sprintf("(elem (s_arr %s) %s)", base.term, abs), typ: u.Elem(), isLoc: true}
		}
		h, _ := se.v.elemHeap(u.Elem())
		return tv{term: sel(sel(se.v.getHeap(se.cur, h), fmt.Sprintf("(s_arr %s)", base.term)), abs), typ: u.Elem()}
	case *types.Array:
		return tv{term: sel(base.term, idx.term), typ: u.Elem()}
	case *types.Pointer:
		if arr, ok := u.Elem().Underlying().(*types.Array); ok && !isStruct(arr.Elem()) {
			h, _ := se.v.elemHeap(arr.Elem())
			return tv{term: sel(sel(se.v.getHeap(se.cur, h), base.term), idx.term), typ: arr.Elem()}
		}
	case *types.Map:
		hv, _, _ := se.v.mapHeaps(u)
		return tv{term: sel(sel(se.v.getHeap(se.cur, hv), base.term), idx.term), typ: u.Elem()}
	case *types.Basic:
		if isString(base.typ) {
			if se.v.sc.bv {
				return tv{term: fmt.Sprintf("((_ int2bv 8) (str_at %s %s))", base.term, idx.term), typ: u8}
			}
			return tv{term: fmt.Sprintf("(str_at %s %s)", base.term, idx.term), typ: u8}
		}
	}
	return se.fail("cannot index %s", base.typ)
}

func (se *specEnv) unify(a, b tv) (tv, tv) {
	// give untyped constants the type of the other operand
	if a.typ == nil && b.typ != nil {
		a = se.retype(a, b.typ)
	} else if b.typ == nil && a.typ != nil {
		b = se.retype(b, a.typ)
	}
	return a, b
}

func (se *specEnv) retype(c tv, t types.Type) tv {
	if se.v.sc.isBVType(t) {
		// literal -> bitvector
		bi, ok := parseIntTerm(c.term)
		if ok {
			return tv{term: se.v.sc.intLit(bi, t), typ: t}
		}
		bits, _, _ := intInfo(t)
		return tv{term: fmt.Sprintf("((_ int2bv %d) %s)", bits, c.term), typ: t}
	}
	if isFloat(t) {
		return tv{term: fmt.Sprintf("(uf_i2f %s)", c.term), typ: t}
	}
	return tv{term: c.term, typ: t}
}

func parseIntTerm(s string) (*big.Int, bool) {
	if strings.HasPrefix(s, "(- ") && strings.HasSuffix(s, ")") {
		bi, ok := new(big.Int).SetString(s[3:len(s)-1], 10)
		if ok {
			return bi.Neg(bi), true
		}
		return nil, false
	}
	return new(big.Int).SetString(s, 10)
}

func (se *specEnv) equal(a, b tv) string {
	if a.isNil {
		a, b = b, a
	}
	if b.isNil {
		if a.typ == nil {
			return "false"
		}
		switch a.typ.Underlying().(type) {
		case *types.Slice:
			return fmt.Sprintf("(= (s_arr %s) 0)", a.term)
		case *types.Interface:
			return fmt.Sprintf("(= %s nil_iface)", a.term)
		default:
			return fmt.Sprintf("(= %s 0)", a.term)
		}
	}
	a, b = se.unify(a, b)
	if a.typ != nil && isString(a.typ) {
		if b.term == "str_empty" {
			return fmt.Sprintf("(= (str_len %s) 0)", a.term)
		}
		if a.term == "str_empty" {
			return fmt.Sprintf("(= (str_len %s) 0)", b.term)
		}
	}
	return eq(a.term, b.term)
}

func (se *specEnv) binary(x *ast.BinaryExpr) tv {
	switch x.Op {
	case token.LAND:
		return tv{term: and(se.evalBool(x.X), se.evalBool(x.Y)), typ: boolT}
	case token.LOR:
		return tv{term: or(se.evalBool(x.X), se.evalBool(x.Y)), typ: boolT}
	}
	a := se.eval(x.X)
	b := se.eval(x.Y)
	switch x.Op {
	case token.EQL:
		return tv{term: se.equal(a, b), typ: boolT}
	case token.NEQ:
		return tv{term: not(se.equal(a, b)), typ: boolT}
	}
	a, b = se.unify(a, b)
	t := a.typ
	bv := t != nil && se.v.sc.isBVType(t)
	signed := true
	if t != nil {
		if _, s, ok := intInfo(t); ok {
			signed = s
		}
	}
	if t != nil && isTime(t) {
		a.term, b.term = fmt.Sprintf("(nanos %s)", a.term), fmt.Sprintf("(nanos %s)", b.term)
	}
	cmp := func(op, ubv, sbv string) tv {
		if bv {
			o := ubv
			if signed {
				o = sbv
			}
			return tv{term: fmt.Sprintf("(%s %s %s)", o, a.term, b.term), typ: boolT}
		}
		return tv{term: fmt.Sprintf("(%s %s %s)", op, a.term, b.term), typ: boolT}
	}
	switch x.Op {
	case token.LSS:
		return cmp("<", "bvult", "bvslt")
	case token.LEQ:
		return cmp("<=", "bvule", "bvsle")
	case token.GTR:
		return cmp(">", "bvugt", "bvsgt")
	case token.GEQ:
		return cmp(">=", "bvuge", "bvsge")
	}
	ar := func(op, bvop string) tv {
		if bv {
			return tv{term: fmt.Sprintf("(%s %s %s)", bvop, a.term, b.term), typ: t}
		}
		// spec arithmetic is mathematical (no wrap)
		return tv{term: fmt.Sprintf("(%s %s %s)", op, a.term, b.term), typ: t}
	}
	switch x.Op {
	case token.ADD:
		return ar("+", "bvadd")
	case token.SUB:
		return ar("-", "bvsub")
	case token.MUL:
		return ar("*", "bvmul")
	case token.QUO:
		if bv {
			if signed {
				return ar("", "bvsdiv")
			}
			return ar("", "bvudiv")
		}
		if r, ok := se.abstractDivMod("uf_div", "div", a.term, b.term); ok {
			return tv{term: r, typ: t}
		}
		return tv{term: truncDiv(a.term, b.term), typ: t}
	case token.REM:
		if bv {
			if signed {
				return ar("", "bvsrem")
			}
			return ar("", "bvurem")
		}
		if r, ok := se.abstractDivMod("uf_rem", "mod", a.term, b.term); ok {
			return tv{term: r, typ: t}
		}
		return tv{term: fmt.Sprintf("(- %s (* %s %s))", a.term, b.term, truncDiv(a.term, b.term)), typ: t}
	case token.AND:
		if bv {
			return ar("", "bvand")
		}
		if k, ok := parseIntTerm(b.term); ok && isMask(k) {
			return tv{term: fmt.Sprintf("(mod %s %s)", a.term, new(big.Int).Add(k, big.NewInt(1)).String()), typ: t}
		}
		return tv{term: fmt.Sprintf("(uf_and %s %s)", a.term, b.term), typ: t}
	case token.OR:
		if bv {
			return ar("", "bvor")
		}
		return tv{term: fmt.Sprintf("(uf_or %s %s)", a.term, b.term), typ: t}
	case token.XOR:
		if bv {
			return ar("", "bvxor")
		}
		return tv{term: fmt.Sprintf("(uf_xor %s %s)", a.term, b.term), typ: t}
	case token.SHL:
		if bv {
			return ar("", "bvshl")
		}
		if k, ok := parseIntTerm(b.term); ok && k.IsInt64() && k.Int64() < 128 {
			return tv{term: fmt.Sprintf("(* %s %s)", a.term, pow2(int(k.Int64()))), typ: t}
		}
		return tv{term: fmt.Sprintf("(uf_shl %s %s)", a.term, b.term), typ: t}
	case token.SHR:
		if bv {
			if signed {
				return ar("", "bvashr")
			}
			return ar("", "bvlshr")
		}
		if k, ok := parseIntTerm(b.term); ok && k.IsInt64() && k.Int64() < 128 {
			return tv{term: fmt.Sprintf("(div %s %s)", a.term, pow2(int(k.Int64()))), typ: t}
		}
		return tv{term: fmt.Sprintf("(uf_shr %s %s)", a.term, b.term), typ: t}
	}
	return se.fail("unsupported binary operator %s", x.Op)
}

func (se *specEnv) withState(st *state, f func() tv) tv {
	save := se.cur
	se.cur = st
	r := f()
	se.cur = save
	return r
}

func (se *specEnv) call(x *ast.CallExpr) tv {
	// method-style calls
	if s, ok := x.Fun.(*ast.SelectorExpr); ok {
		return se.methodCall(x, s)
	}
	id, ok := x.Fun.(*ast.Ident)
	if !ok {
		return se.fail("unsupported call %s", exprString(x))
	}
	argn := func(n int) bool {
		if len(x.Args) != n {
			se.fail("%s expects %d arguments", id.Name, n)
			return false
		}
		return true
	}
	switch id.Name {
	case "old":
		if !argn(1) {
			return tv{term: "false", typ: boolT}
		}
		saveOv := se.overrides
		se.overrides = nil
		saveOld := se.inOld
		se.inOld = true
		r := se.withState(se.pre, func() tv { return se.eval(x.Args[0]) })
		se.inOld = saveOld
		se.overrides = saveOv
		return r
	case "old_elem":
		// old_elem(s, i): element i of slice s as both were at function entry; i itself is a current-state term.
		// old_elem(s, i, f): field f of element i for a slice of structs.
		if len(x.Args) != 2 && len(x.Args) != 3 {
			return se.fail("old_elem expects (slice, index) or (slice, index, field)")
		}
		idx := se.eval(x.Args[1])
		saveOv := se.overrides
		se.overrides = nil
		r := se.withState(se.pre, func() tv {
			base := se.eval(x.Args[0])
			sl, ok := base.typ.Underlying().(*types.Slice)
			if !ok {
				return se.fail("old_elem needs a slice")
			}
			if isStruct(sl.Elem()) {
				if len(x.Args) != 3 {
					return se.fail("old_elem on a slice of structs needs a field name")
				}
				fid, ok := x.Args[2].(*ast.Ident)
				if !ok {
					return se.fail("old_elem: field must be an identifier")
				}
				stt := sl.Elem().Underlying().(*types.Struct)
				for i := 0; i < stt.NumFields(); i++ {
					if stt.Field(i).Name() == fid.Name {
						h, _ := se.v.fieldHeap(sl.Elem(), i)
						ref := fmt.Sprintf("(elem (s_arr %s) (+ (s_off %s) %s))", base.term, base.term, idx.term)
						return tv{term: sel(se.v.getHeap(se.cur, h), ref), typ: stt.Field(i).Type()}
					}
				}
				return se.fail("old_elem: no field %s", fid.Name)
			}
			h, _ := se.v.elemHeap(sl.Elem())
			return tv{term: sel(sel(se.v.getHeap(se.cur, h), fmt.Sprintf("(s_arr %s)", base.term)), fmt.Sprintf("(+ (s_off %s) %s)", base.term, idx.term)), typ: sl.Elem()}
		})
		se.overrides = saveOv
		return r
	case "at_entry":
		// at_entry(e): value of e when the enclosing loop was entered (loop invariants only)
		if !argn(1) {
			return tv{term: "false", typ: boolT}
		}
		info, ok := se.v.loopEntry[se.block]
		if !ok {
			return se.fail("at_entry used outside a loop invariant")
		}
		saveOv := se.overrides
		se.overrides = info.env
		r := se.withState(info.st, func() tv { return se.eval(x.Args[0]) })
		se.overrides = saveOv
		return r
	case "imp":
		if !argn(2) {
			return tv{term: "false", typ: boolT}
		}
		se.pol = -se.pol
		ante := se.evalBool(x.Args[0])
		se.pol = -se.pol
		return tv{term: imp(ante, se.evalBool(x.Args[1])), typ: boolT}
	case "iff":
		if !argn(2) {
			return tv{term: "false", typ: boolT}
		}
		savePol := se.pol
		se.pol = 0
		l, r := se.evalBool(x.Args[0]), se.evalBool(x.Args[1])
		se.pol = savePol
		return tv{term: eq(l, r), typ: boolT}
	case "ite":
		if !argn(3) {
			return tv{term: "false", typ: boolT}
		}
		c := se.evalBool(x.Args[0])
		a, b := se.unify(se.eval(x.Args[1]), se.eval(x.Args[2]))
		return tv{term: ite(c, a.term, b.term), typ: a.typ, isLoc: a.isLoc}
	case "all", "ex":
		// all(i, lo, hi, body)  or  all(i, body)
		if len(x.Args) != 4 && len(x.Args) != 2 {
			return se.fail("%s expects (var, lo, hi, body) or (var, body)", id.Name)
		}
		vid, ok := x.Args[0].(*ast.Ident)
		if !ok {
			return se.fail("quantifier variable must be an identifier")
		}
		se.bound++
		se.v.ctr++
		bn := q(fmt.Sprintf("%s!%d", vid.Name, se.v.ctr))
		saved, had := se.names[vid.Name]
		se.names[vid.Name] = tv{term: bn, typ: intT}
		qsort := "Int"
		if strings.HasPrefix(vid.Name, "str") && strings.HasSuffix(vid.Name, "_") {
			// a bound variable named str..._ ranges over strings (keys of a map[string]T)
			se.names[vid.Name] = tv{term: bn, typ: types.Typ[types.String]}
			qsort = "Str"
		}
		var rng, body string
		if len(x.Args) == 4 {
			lo, hi := se.eval(x.Args[1]), se.eval(x.Args[2])
			rng = fmt.Sprintf("(and (<= %s %s) (< %s %s))", lo.term, bn, bn, hi.term)
			body = se.evalBool(x.Args[3])
		} else {
			rng = "true"
			body = se.evalBool(x.Args[1])
		}
		if had {
			se.names[vid.Name] = saved
		} else {
			delete(se.names, vid.Name)
		}
		allowRef := se.pol != 0
		if id.Name == "ex" {
			allowRef = se.pol > 0
		}
		nb, guard, rng2, body2, side, kind := bn, "", rng, body, "", ""
		if !strings.HasSuffix(vid.Name, "_") {
			// (a bound variable whose name ends in '_' is a position, not an element index: never rebased)
			nb, guard, rng2, body2, side, kind = rebaseQuant(bn, rng, body, allowRef)
		}
		if kind == "ref" {
			rng2 = and(guard, rng2)
		}
		if id.Name == "all" {
			f := fmt.Sprintf("(forall ((%s %s)) %s)", nb, qsort, imp(rng2, body2))
			if kind == "ref" && se.pol > 0 {
				f = and(f, side)
			}
			return tv{term: f, typ: boolT}
		}
		return tv{term: fmt.Sprintf("(exists ((%s %s)) %s)", nb, qsort, and(rng2, body2)), typ: boolT}
	case "forall_bytes":
		// forall_bytes(s, body): for every well-formed []byte value s (header and contents arbitrary)
		if !argn(2) {
			return tv{term: "false", typ: boolT}
		}
		vid, ok := x.Args[0].(*ast.Ident)
		if !ok {
			return se.fail("quantifier variable must be an identifier")
		}
		bt := types.NewSlice(types.Typ[types.Uint8])
		se.v.ctr++
		bn := q(fmt.Sprintf("%s!%d", vid.Name, se.v.ctr))
		saved, had := se.names[vid.Name]
		se.names[vid.Name] = tv{term: bn, typ: bt}
		body := se.evalBool(x.Args[1])
		if had {
			se.names[vid.Name] = saved
		} else {
			delete(se.names, vid.Name)
		}
		return tv{term: fmt.Sprintf("(forall ((%s Slice)) %s)", bn, imp(fmt.Sprintf("(slice_wf %s)", bn), body)), typ: boolT}
	case "forall_u64", "forall_i64", "forall_u8", "forall_u32":
		// typed universal quantifier (bit-vector in arith bv, ranged Int otherwise)
		if !argn(2) {
			return tv{term: "false", typ: boolT}
		}
		vid, ok := x.Args[0].(*ast.Ident)
		if !ok {
			return se.fail("quantifier variable must be an identifier")
		}
		qt := map[string]types.Type{"forall_u64": types.Typ[types.Uint64], "forall_i64": types.Typ[types.Int64], "forall_u8": types.Typ[types.Uint8], "forall_u32": types.Typ[types.Uint32]}[id.Name]
		se.v.ctr++
		bn := q(fmt.Sprintf("%s!%d", vid.Name, se.v.ctr))
		saved, had := se.names[vid.Name]
		se.names[vid.Name] = tv{term: bn, typ: qt}
		body := se.evalBool(x.Args[1])
		if had {
			se.names[vid.Name] = saved
		} else {
			delete(se.names, vid.Name)
		}
		if inv := se.v.sc.typeInv(bn, qt); inv != "" {
			body = imp(inv, body)
		}
		return tv{term: fmt.Sprintf("(forall ((%s %s)) %s)", bn, se.v.sc.sortOf(qt), body), typ: boolT}
	case "len":
		if !argn(1) {
			return tv{term: "0", typ: intT}
		}
		a := se.eval(x.Args[0])
		if a.typ == nil {
			return se.fail("len of untyped")
		}
		switch u := a.typ.Underlying().(type) {
		case *types.Slice:
			return tv{term: fmt.Sprintf("(s_len %s)", a.term), typ: intT}
		case *types.Basic:
			return tv{term: fmt.Sprintf("(str_len %s)", a.term), typ: intT}
		case *types.Map:
			_, _, hl := se.v.mapHeaps(u)
			return tv{term: ite(fmt.Sprintf("(= %s 0)", a.term), "0", sel(se.v.getHeap(se.cur, hl), a.term)), typ: intT}
		case *types.Array:
			return tv{term: fmt.Sprint(u.Len()), typ: intT}
		}
		return se.fail("len of %s", a.typ)
	case "cap":
		a := se.eval(x.Args[0])
		return tv{term: fmt.Sprintf("(s_cap %s)", a.term), typ: intT}
	case "arr":
		a := se.eval(x.Args[0])
		return tv{term: fmt.Sprintf("(s_arr %s)", a.term), typ: intT}
	case "off":
		a := se.eval(x.Args[0])
		return tv{term: fmt.Sprintf("(s_off %s)", a.term), typ: intT}
	case "cast":
		// cast(T, x): view term x as a value of Go type T (for results of uninterpreted spec functions and
		// interface payloads). For a struct type T and an integer x the result denotes the object at x.
		if !argn(2) {
			return tv{term: "false", typ: boolT}
		}
		tt := se.eval(x.Args[0])
		a := se.eval(x.Args[1])
		if tt.typ == nil {
			return se.fail("cast: first argument must be a type")
		}
		if isStruct(tt.typ) {
			return tv{term: a.term, typ: tt.typ, isLoc: true}
		}
		return tv{term: a.term, typ: tt.typ}
	case "unbox":
		// unbox(T, x): the value of Go type T boxed in interface x
		if !argn(2) {
			return tv{term: "false", typ: boolT}
		}
		tt := se.eval(x.Args[0])
		a := se.eval(x.Args[1])
		if tt.typ == nil {
			return se.fail("unbox: first argument must be a type")
		}
		return tv{term: se.v.load(se.cur, &addr{kind: aCell, base: fmt.Sprintf("(i_val %s)", a.term), typ: tt.typ}), typ: tt.typ}
	case "iptr":
		// iptr(): the (single, abstract) address of a struct-valued field passed by pointer
		return tv{term: "interior_ptr", typ: intT}
	case "is_elem_of":
		// is_elem_of(p, s): pointer p points at an element of the slice of structs s
		p, s := se.eval(x.Args[0]), se.eval(x.Args[1])
		return tv{term: fmt.Sprintf("(and (< %s 0) (= (elem_arr %s) (s_arr %s)) (<= (s_off %s) (elem_idx %s)) (< (elem_idx %s) (+ (s_off %s) (s_len %s))))", p.term, p.term, s.term, s.term, p.term, p.term, s.term, s.term), typ: boolT}
	case "row":
		// row(s): the backing array of slice s as an SMT array (for uninterpreted spec functions)
		a := se.eval(x.Args[0])
		sl, ok := a.typ.Underlying().(*types.Slice)
		if !ok || isStruct(sl.Elem()) {
			return se.fail("row() needs a slice of scalars")
		}
		h, _ := se.v.elemHeap(sl.Elem())
		return tv{term: sel(se.v.getHeap(se.cur, h), fmt.Sprintf("(s_arr %s)", a.term)), typ: types.NewArray(sl.Elem(), 0)}
	case "visited":
		// visited(k[, n]): key k has already been produced by the (n-th) map range of this function
		if len(x.Args) != 1 && len(x.Args) != 2 {
			return se.fail("visited expects (key) or (key, n)")
		}
		n := 1
		if len(x.Args) == 2 {
			lit, ok := x.Args[1].(*ast.BasicLit)
			if !ok {
				return se.fail("visited: n must be a literal")
			}
			n, _ = strconv.Atoi(lit.Value)
		}
		set, kt, ok := se.visitedTerm(n)
		if !ok {
			return se.fail("visited: the function has no %d-th map range", n)
		}
		k := se.eval(x.Args[0])
		if k.typ == nil {
			k = se.retype(k, kt)
		}
		return tv{term: sel(set, k.term), typ: boolT}
	case "has":
		// has(m, k): key k is present in map m
		m, k := se.eval(x.Args[0]), se.eval(x.Args[1])
		mt, ok := m.typ.Underlying().(*types.Map)
		if !ok {
			return se.fail("has on non-map")
		}
		_, hd, _ := se.v.mapHeaps(mt)
		if k.typ == nil {
			k = se.retype(k, mt.Key())
		}
		return tv{term: and(fmt.Sprintf("(not (= %s 0))", m.term), sel(sel(se.v.getHeap(se.cur, hd), m.term), k.term)), typ: boolT}
	case "fresh":
		// fresh(x): the storage of x was allocated during this call
		a := se.eval(x.Args[0])
		ref := a.term
		if a.typ != nil && isSlice(a.typ) {
			ref = fmt.Sprintf("(s_arr %s)", a.term)
		}
		return tv{term: fmt.Sprintf("(>= %s %s)", ref, se.pre.top), typ: boolT}
	case "nanos":
		a := se.eval(x.Args[0])
		return tv{term: fmt.Sprintf("(nanos %s)", a.term), typ: intT}
	case "typeis":
		// typeis(x, "T"): dynamic type of interface x is T (as printed by go/types with package names)
		a := se.eval(x.Args[0])
		lit, ok := x.Args[1].(*ast.BasicLit)
		if !ok {
			return se.fail("typeis needs a string literal")
		}
		name, _ := strconv.Unquote(lit.Value)
		id, ok := se.v.sc.typeIDs[name]
		if !ok {
			id = len(se.v.sc.typeIDs) + 1
			se.v.sc.typeIDs[name] = id
		}
		return tv{term: fmt.Sprintf("(= (i_type %s) %d)", a.term, id), typ: boolT}
	case "ival":
		a := se.eval(x.Args[0])
		return tv{term: fmt.Sprintf("(i_val %s)", a.term), typ: intT}
	case "int", "int64", "int32", "int16", "int8", "uint", "uint64", "uint32", "uint16", "uint8", "byte":
		a := se.eval(x.Args[0])
		to := types.Universe.Lookup(id.Name).Type()
		if a.typ == nil {
			return se.retype(a, to)
		}
		return tv{term: se.v.convertTerm(se.cur, a.term, a.typ, to, "conv"), typ: to}
	case "mathint":
		// mathint(x): the mathematical value of an integer expression (bv -> Int)
		a := se.eval(x.Args[0])
		if a.typ != nil && se.v.sc.isBVType(a.typ) {
			return tv{term: se.v.convertTerm(se.cur, a.term, a.typ, intT, "conv"), typ: intT}
		}
		return tv{term: a.term, typ: intT}
	}
	if pf, ok := se.v.eng.contracts.pures[id.Name]; ok {
		if len(pf.params) != len(x.Args) {
			return se.fail("pure %s expects %d arguments", id.Name, len(pf.params))
		}
		args := make([]tv, len(x.Args))
		for i, a := range x.Args {
			args[i] = se.eval(a)
		}
		saved := map[string]*tv{}
		for i, p := range pf.params {
			if old, ok := se.names[p]; ok {
				o := old
				saved[p] = &o
			} else {
				saved[p] = nil
			}
			se.names[p] = args[i]
		}
		saveOv := se.overrides
		se.overrides = nil
		saveFr := se.fr
		se.fr = nil
		r := se.eval(pf.body)
		se.fr = saveFr
		se.overrides = saveOv
		for p, old := range saved {
			if old == nil {
				delete(se.names, p)
			} else {
				se.names[p] = *old
			}
		}
		return r
	}
	if uf, ok := se.v.eng.smtFuncs[id.Name]; ok {
		var parts []string
		for _, a := range x.Args {
			parts = append(parts, se.eval(a).term)
		}
		term := id.Name
		if len(parts) > 0 {
			term = fmt.Sprintf("(%s %s)", id.Name, strings.Join(parts, " "))
		}
		if uf == "Bool" {
			return tv{term: term, typ: boolT}
		}
		if strings.HasSuffix(id.Name, "_u64") {
			return tv{term: term, typ: types.Typ[types.Uint64]}
		}
		return tv{term: term, typ: intT}
	}
	return se.fail("unknown spec function %s", id.Name)
}

func (se *specEnv) methodCall(x *ast.CallExpr, s *ast.SelectorExpr) tv {
	recv := se.eval(s.X)
	if recv.typ != nil && isTime(recv.typ) {
		n := fmt.Sprintf("(nanos %s)", recv.term)
		arg := func() tv {
			if len(x.Args) != 1 {
				return se.fail("%s needs one argument", s.Sel.Name)
			}
			return se.eval(x.Args[0])
		}
		switch s.Sel.Name {
		case "Before":
			return tv{term: fmt.Sprintf("(< %s (nanos %s))", n, arg().term), typ: boolT}
		case "After":
			return tv{term: fmt.Sprintf("(> %s (nanos %s))", n, arg().term), typ: boolT}
		case "Equal":
			return tv{term: fmt.Sprintf("(= %s (nanos %s))", n, arg().term), typ: boolT}
		case "IsZero":
			return tv{term: fmt.Sprintf("(= %s 0)", n), typ: boolT}
		case "Add":
			return tv{term: fmt.Sprintf("(mk_time (+ %s %s))", n, arg().term), typ: recv.typ}
		case "UnixNano":
			// the same 64-bit wrap-around as the code's UnixNano (times outside 1678..2262)
			return tv{term: wrapTerm(fmt.Sprintf("(- %s %s)", n, unixOffset), types.Typ[types.Int64]), typ: types.Typ[types.Int64]}
		}
	}
	return se.fail("unsupported method call %s in spec", exprString(x))
}

func (se *specEnv) eval(e ast.Expr) tv {
	switch x := e.(type) {
	case *ast.BasicLit:
		switch x.Kind {
		case token.INT:
			bi, ok := new(big.Int).SetString(x.Value, 0)
			if !ok {
				return se.fail("bad int literal %s", x.Value)
			}
			return tv{term: intTerm(bi), typ: nil}
		case token.STRING:
			s, _ := strconv.Unquote(x.Value)
			return tv{term: se.v.strConst(s), typ: types.Typ[types.String]}
		case token.CHAR:
			s, _ := strconv.Unquote(x.Value)
			if len(s) == 1 {
				return tv{term: fmt.Sprint(int(s[0])), typ: nil}
			}
			r := []rune(s)
			return tv{term: fmt.Sprint(int(r[0])), typ: nil}
		}
		return se.fail("unsupported literal %s", x.Value)
	case *ast.Ident:
		return se.ident(x)
	case *ast.ParenExpr:
		return se.eval(x.X)
	case *ast.UnaryExpr:
		switch x.Op {
		case token.NOT:
			se.pol = -se.pol
			inner := se.evalBool(x.X)
			se.pol = -se.pol
			return tv{term: not(inner), typ: boolT}
		case token.SUB:
			a := se.eval(x.X)
			if a.typ != nil && se.v.sc.isBVType(a.typ) {
				return tv{term: fmt.Sprintf("(bvneg %s)", a.term), typ: a.typ}
			}
			if bi, ok := parseIntTerm(a.term); ok {
				return tv{term: intTerm(new(big.Int).Neg(bi)), typ: a.typ}
			}
			return tv{term: fmt.Sprintf("(- %s)", a.term), typ: a.typ}
		case token.XOR:
			a := se.eval(x.X)
			if a.typ != nil && se.v.sc.isBVType(a.typ) {
				return tv{term: fmt.Sprintf("(bvnot %s)", a.term), typ: a.typ}
			}
			return se.fail("unary ^ needs a bit-vector operand (arith bv)")
		case token.AND:
			a := se.eval(x.X)
			if a.isLoc {
				return tv{term: a.term, typ: types.NewPointer(a.typ)}
			}
			return se.fail("cannot take address of %s in spec", exprString(x.X))
		}
		return se.fail("unsupported unary %s", x.Op)
	case *ast.StarExpr:
		a := se.eval(x.X)
		if t, ok := derefStruct(a.typ); ok {
			return tv{term: a.term, typ: t, isLoc: true}
		}
		if p, ok := a.typ.Underlying().(*types.Pointer); ok {
			return tv{term: se.v.load(se.cur, &addr{kind: aCell, base: a.term, typ: p.Elem()}), typ: p.Elem()}
		}
		return se.fail("deref of non-pointer")
	case *ast.BinaryExpr:
		return se.binary(x)
	case *ast.CallExpr:
		return se.call(x)
	case *ast.SelectorExpr:
		return se.selector(x)
	case *ast.IndexExpr:
		return se.index(x)
	case *ast.SliceExpr:
		b := se.eval(x.X)
		lo, hi := "0", ""
		if x.Low != nil {
			lo = se.eval(x.Low).term
		}
		if isString(b.typ) {
			if x.High != nil {
				hi = se.eval(x.High).term
			} else {
				hi = fmt.Sprintf("(str_len %s)", b.term)
			}
			return tv{term: fmt.Sprintf("(str_sub %s %s %s)", b.term, lo, hi), typ: b.typ}
		}
		if x.High != nil {
			hi = se.eval(x.High).term
		} else {
			hi = fmt.Sprintf("(s_len %s)", b.term)
		}
		return tv{term: fmt.Sprintf("(mk-slice (s_arr %s) (+ (s_off %s) %s) (- %s %s) (- (s_cap %s) %s))", b.term, b.term, lo, hi, lo, b.term, lo), typ: b.typ}
	}
	return se.fail("unsupported spec expression %s", exprString(e))
}

// locations resolves a modifies entry to heap locations (evaluated in state pre).
func (se *specEnv) locations(e ast.Expr, pre *state) []loc {
	save := se.cur
	se.cur = pre
	defer func() { se.cur = save }()
	switch x := e.(type) {
	case *ast.SelectorExpr:
		// Type.field: whole heap
		if id, ok := x.X.(*ast.Ident); ok {
			if _, isName := se.names[id.Name]; !isName && se.pkg != nil {
				if tn, ok := se.pkg.Pkg.Scope().Lookup(id.Name).(*types.TypeName); ok {
					return se.fieldLocs(tn.Type(), "", x.Sel.Name)
				}
			}
		}
		base := se.eval(x.X)
		if base.typ == nil {
			return nil
		}
		if t, ok := derefStruct(base.typ); ok {
			return se.fieldLocs(t, base.term, x.Sel.Name)
		}
		if isStruct(base.typ) && base.isLoc {
			return se.fieldLocs(base.typ, base.term, x.Sel.Name)
		}
		return nil
	case *ast.StarExpr:
		base := se.eval(x.X)
		if t, ok := derefStruct(base.typ); ok {
			return se.fieldLocs(t, base.term, "all")
		}
		if p, ok := base.typ.Underlying().(*types.Pointer); ok {
			if arr, isArr := p.Elem().Underlying().(*types.Array); isArr {
				if isStruct(arr.Elem()) {
					return se.fieldLocs(arr.Elem(), "", "all")
				}
				h, _ := se.v.elemHeap(arr.Elem())
				return []loc{{heap: h, ref: base.term}}
			}
			h, _ := se.v.cellHeap(p.Elem())
			return []loc{{heap: h, ref: base.term, typ: p.Elem()}}
		}
		return nil
	case *ast.SliceExpr:
		return se.sliceLocs(se.eval(x.X))
	case *ast.IndexExpr:
		return se.sliceLocs(se.eval(x.X))
	case *ast.Ident:
		return se.sliceLocs(se.eval(x))
	}
	return nil
}

func (se *specEnv) sliceLocs(b tv) []loc {
	if b.typ == nil {
		return nil
	}
	switch u := b.typ.Underlying().(type) {
	case *types.Slice:
		if isStruct(u.Elem()) {
			return se.fieldLocs(u.Elem(), "", "all")
		}
		h, _ := se.v.elemHeap(u.Elem())
		return []loc{{heap: h, ref: fmt.Sprintf("(s_arr %s)", b.term)}}
	case *types.Map:
		a, d, l := se.v.mapHeaps(u)
		return []loc{{heap: a, ref: b.term}, {heap: d, ref: b.term}, {heap: l, ref: b.term}}
	}
	return nil
}

func (se *specEnv) fieldLocs(t types.Type, ref, field string) []loc {
	s, ok := t.Underlying().(*types.Struct)
	if !ok {
		return nil
	}
	var out []loc
	for i := 0; i < s.NumFields(); i++ {
		if field == "all" || field == "_all" || s.Field(i).Name() == field {
			h, _ := se.v.fieldHeap(t, i)
			out = append(out, loc{heap: h, ref: ref, typ: s.Field(i).Type()})
		}
	}
	return out
}
