package main

import (
	"go/types"
	"sort"
	"sync"
)

// Two named struct types of one package with identical underlying structs (type storeFSM store) can be
// converted into each other through a pointer conversion, so their fields are the same memory: they share
// one field heap, named after the lexicographically smallest such type.

var canonMu sync.Mutex
var canonCache = map[*types.TypeName]types.Type{}

func canonStruct(t types.Type) types.Type {
	nt, ok := t.(*types.Named)
	if !ok || nt.Obj().Pkg() == nil || nt.TypeArgs().Len() > 0 {
		return t
	}
	s, ok := nt.Underlying().(*types.Struct)
	if !ok || s.NumFields() == 0 {
		return t
	}
	canonMu.Lock()
	defer canonMu.Unlock()
	if c, ok := canonCache[nt.Obj()]; ok {
		return c
	}
	scope := nt.Obj().Pkg().Scope()
	names := scope.Names()
	sort.Strings(names)
	var best types.Type = t
	for _, n := range names {
		tn, ok := scope.Lookup(n).(*types.TypeName)
		if !ok || tn.IsAlias() {
			continue
		}
		o, ok := tn.Type().(*types.Named)
		if !ok || o.TypeParams().Len() > 0 {
			continue
		}
		if os, ok := o.Underlying().(*types.Struct); ok && types.Identical(os, s) {
			best = o
			break
		}
	}
	canonCache[nt.Obj()] = best
	return best
}
