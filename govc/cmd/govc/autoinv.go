package main

// Automatically inferred loop invariants (checked like written ones):
//   - `for i, x := range slice` keeps its hidden index within -1 <= rangeindex < len(slice).

import (
	"fmt"
	"go/token"

	"golang.org/x/tools/go/ssa"
)

type autoInv struct {
	label string
	term  string
}

func (v *vc) loopAutoInv(fr *frame, st *state, h *ssa.BasicBlock, pick func(phi *ssa.Phi) string) []autoInv {
	var out []autoInv
	for _, in := range h.Instrs {
		phi, ok := in.(*ssa.Phi)
		if !ok {
			break
		}
		if phi.Comment != "rangeindex" {
			continue
		}
		// find t4 = phi + 1 and the loop test t4 < n
		var next *ssa.BinOp
		for _, in2 := range h.Instrs {
			if b, ok := in2.(*ssa.BinOp); ok && b.Op == token.ADD && b.X == phi {
				next = b
			}
		}
		if next == nil {
			continue
		}
		for _, in2 := range h.Instrs {
			b, ok := in2.(*ssa.BinOp)
			if !ok || b.Op != token.LSS || b.X != next {
				continue
			}
			if _, has := fr.vals[b.Y]; !has {
				if _, isConst := b.Y.(*ssa.Const); !isConst {
					continue
				}
			}
			n := v.val(fr, st, b.Y)
			p := pick(phi)
			out = append(out, autoInv{label: "auto-rangeindex", term: fmt.Sprintf("(and (<= (- 1) %s) (< %s %s))", p, p, n)})
		}
	}
	return out
}
