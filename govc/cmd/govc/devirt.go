package main

import (
	"go/types"

	"golang.org/x/tools/go/ssa"
)

// Static dispatch of an interface call whose receiver is known, from the SSA alone, to hold one concrete
// pointer type: the value is a MakeInterface, or the result of a static call to a function all of whose
// returns are MakeInterface of the same type (p.FieldIterator() returns p), or a phi of such values.

func staticDynType(x ssa.Value, depth int) types.Type {
	if depth > 4 {
		return nil
	}
	switch y := x.(type) {
	case *ssa.MakeInterface:
		return y.X.Type()
	case *ssa.ChangeInterface:
		return staticDynType(y.X, depth+1)
	case *ssa.Phi:
		var t types.Type
		for _, e := range y.Edges {
			et := staticDynType(e, depth+1)
			if et == nil || (t != nil && !types.Identical(t, et)) {
				return nil
			}
			t = et
		}
		return t
	case *ssa.Call:
		f, ok := y.Call.Value.(*ssa.Function)
		if !ok || y.Call.IsInvoke() || f.Blocks == nil || f.Signature.Results().Len() != 1 {
			return nil
		}
		var t types.Type
		for _, b := range f.Blocks {
			for _, in := range b.Instrs {
				r, ok := in.(*ssa.Return)
				if !ok {
					continue
				}
				if len(r.Results) != 1 {
					return nil
				}
				et := staticDynType(r.Results[0], depth+1)
				if et == nil || (t != nil && !types.Identical(t, et)) {
					return nil
				}
				t = et
			}
		}
		return t
	}
	return nil
}

// devirt returns the concrete method an invoke-mode call is known to reach (pointer receivers only).
func (v *vc) devirt(c *ssa.CallCommon) *ssa.Function {
	if !c.IsInvoke() {
		return nil
	}
	t := staticDynType(c.Value, 0)
	if t == nil {
		return nil
	}
	if _, ok := t.Underlying().(*types.Pointer); !ok {
		return nil
	}
	return v.eng.prog.LookupMethod(t, c.Method.Pkg(), c.Method.Name())
}
