package main

// SMT term construction and the mapping from Go types to SMT sorts.
// Terms and sorts are plain strings (SMT-LIB2 concrete syntax).

import (
	"fmt"
	"go/types"
	"math/big"
	"regexp"
	"sort"
	"strings"
)

const preludeFixed = `(set-option :produce-models true)
(set-logic ALL)
(declare-sort Str 0)
(declare-sort F64 0)
(declare-datatypes ((Time 0)) (((mk_time (nanos Int)))))
(declare-datatypes ((Slice 0)) (((mk-slice (s_arr Int) (s_off Int) (s_len Int) (s_cap Int)))))
(declare-datatypes ((Iface 0)) (((mk-iface (i_type Int) (i_val Int)))))
(declare-fun str_len (Str) Int)
(declare-fun str_at (Str Int) Int)
(define-fun elem ((a Int) (i Int)) Int (- (- (+ (* a 288230376151711744) i)) 1))
(define-fun elem_arr ((r Int)) Int (ite (< r 0) (div (- (- r) 1) 288230376151711744) 0))
(define-fun elem_idx ((r Int)) Int (ite (< r 0) (mod (- (- r) 1) 288230376151711744) 0))
(declare-fun uf_mul (Int Int) Int)
(declare-fun uf_div (Int Int) Int)
(declare-fun uf_rem (Int Int) Int)
(declare-fun uf_and (Int Int) Int)
(declare-fun uf_or (Int Int) Int)
(declare-fun uf_xor (Int Int) Int)
(declare-fun uf_shl (Int Int) Int)
(declare-fun uf_shr (Int Int) Int)
(declare-fun uf_andnot (Int Int) Int)
(declare-fun uf_i2f (Int) F64)
(declare-fun uf_f2i (F64) Int)
(declare-const str_empty Str)
(assert (= (str_len str_empty) 0))
(define-fun nil_slice () Slice (mk-slice 0 0 0 0))
(define-fun nil_iface () Iface (mk-iface 0 0))
(define-fun slice_wf ((s Slice)) Bool (and (>= (s_arr s) 0) (>= (s_off s) 0) (>= (s_len s) 0) (<= (s_len s) (s_cap s)) (<= (s_cap s) 72057594037927936) (<= (s_off s) 72057594037927936) (=> (= (s_arr s) 0) (= (s_cap s) 0))))
`

type sortCtx struct {
	bv       bool // arith bv: fixed-width integer types are bit-vectors
	decls    []string
	structs  map[string]string // type key -> sort name
	sfields  map[string][]string
	declared map[string]bool
	typeIDs  map[string]int
	strConst map[string]string
}

func newSortCtx(bv bool) *sortCtx {
	return &sortCtx{bv: bv, structs: map[string]string{}, sfields: map[string][]string{}, declared: map[string]bool{}, typeIDs: map[string]int{}, strConst: map[string]string{}}
}

func q(s string) string {
	s = strings.ReplaceAll(s, "|", "!")
	s = strings.ReplaceAll(s, "\\", "!")
	return "|" + s + "|"
}

var aliasRe = regexp.MustCompile(`\b(byte|rune)\b`)

func typeKey(t types.Type) string {
	s := types.TypeString(t, func(p *types.Package) string {
		// services/meta/internal is also "package meta": keep its types (and their heaps) apart
		if strings.HasSuffix(p.Path(), "/internal") && p.Name() != "internal" {
			return p.Name() + "pb"
		}
		return p.Name()
	})
	// byte and rune are aliases: one heap per underlying type
	return aliasRe.ReplaceAllStringFunc(s, func(m string) string {
		if m == "byte" {
			return "uint8"
		}
		return "int32"
	})
}

func isTime(t types.Type) bool {
	if n, ok := t.(*types.Named); ok {
		o := n.Obj()
		return o.Pkg() != nil && o.Pkg().Path() == "time" && o.Name() == "Time"
	}
	return false
}

func intInfo(t types.Type) (bits int, signed bool, ok bool) {
	b, isb := t.Underlying().(*types.Basic)
	if !isb {
		return 0, false, false
	}
	switch b.Kind() {
	case types.Int, types.Int64:
		return 64, true, true
	case types.Int32:
		return 32, true, true
	case types.Int16:
		return 16, true, true
	case types.Int8:
		return 8, true, true
	case types.Uint, types.Uint64, types.Uintptr:
		return 64, false, true
	case types.Uint32:
		return 32, false, true
	case types.Uint16:
		return 16, false, true
	case types.Uint8:
		return 8, false, true
	case types.UntypedInt, types.UntypedRune:
		return 64, true, true
	}
	return 0, false, false
}

// isBVType: in bv mode every fixed-width integer type other than int/uint/uintptr is a bit-vector.
func (c *sortCtx) isBVType(t types.Type) bool {
	if !c.bv {
		return false
	}
	b, isb := t.Underlying().(*types.Basic)
	if !isb {
		return false
	}
	switch b.Kind() {
	case types.Int64, types.Int32, types.Int16, types.Int8, types.Uint64, types.Uint32, types.Uint16, types.Uint8:
		return true
	}
	return false
}

func isFloat(t types.Type) bool {
	b, ok := t.Underlying().(*types.Basic)
	return ok && b.Info()&types.IsFloat != 0
}
func isString(t types.Type) bool {
	b, ok := t.Underlying().(*types.Basic)
	return ok && b.Info()&types.IsString != 0
}
func isBool(t types.Type) bool {
	b, ok := t.Underlying().(*types.Basic)
	return ok && b.Info()&types.IsBoolean != 0
}
func isIface(t types.Type) bool {
	_, ok := t.Underlying().(*types.Interface)
	return ok
}
func isStruct(t types.Type) bool {
	if isTime(t) {
		return false
	}
	_, ok := t.Underlying().(*types.Struct)
	return ok
}
func isSlice(t types.Type) bool {
	_, ok := t.Underlying().(*types.Slice)
	return ok
}

func (c *sortCtx) sortOf(t types.Type) string {
	if isTime(t) {
		return "Time"
	}
	switch u := t.Underlying().(type) {
	case *types.Basic:
		switch {
		case u.Info()&types.IsBoolean != 0:
			return "Bool"
		case u.Info()&types.IsInteger != 0:
			if c.isBVType(t) {
				bits, _, _ := intInfo(t)
				return fmt.Sprintf("(_ BitVec %d)", bits)
			}
			return "Int"
		case u.Info()&types.IsFloat != 0:
			return "F64"
		case u.Info()&types.IsString != 0:
			return "Str"
		case u.Kind() == types.UnsafePointer:
			return "Int"
		case u.Kind() == types.UntypedNil:
			return "Int"
		}
		return "Int"
	case *types.Pointer, *types.Chan, *types.Map, *types.Signature:
		return "Int"
	case *types.Slice:
		return "Slice"
	case *types.Interface:
		return "Iface"
	case *types.Array:
		return fmt.Sprintf("(Array Int %s)", c.sortOf(u.Elem()))
	case *types.Struct:
		return c.structSort(t, u)
	case *types.Tuple:
		return "Int"
	}
	return "Int"
}

func (c *sortCtx) structSort(t types.Type, st *types.Struct) string {
	key := typeKey(t)
	if s, ok := c.structs[key]; ok {
		return s
	}
	name := q("S " + key)
	c.structs[key] = name
	var fs []string
	var fnames []string
	for i := 0; i < st.NumFields(); i++ {
		f := st.Field(i)
		fname := f.Name()
		if fname == "_" {
			fname = fmt.Sprintf("_%d", i) // blank fields may repeat: accessors must not
		}
		fn := q(fmt.Sprintf("%s.%s", key, fname))
		fnames = append(fnames, fn)
		fs = append(fs, fmt.Sprintf("(%s %s)", fn, c.sortOf(f.Type())))
	}
	c.sfields[key] = fnames
	if st.NumFields() == 0 {
		c.decls = append(c.decls, fmt.Sprintf("(declare-datatypes ((%s 0)) (((%s))))", name, q("mk "+key)))
	} else {
		c.decls = append(c.decls, fmt.Sprintf("(declare-datatypes ((%s 0)) (((%s %s))))", name, q("mk "+key), strings.Join(fs, " ")))
	}
	return name
}

func (c *sortCtx) structCtor(t types.Type) string    { c.sortOf(t); return q("mk " + typeKey(t)) }
func (c *sortCtx) structSel(t types.Type, i int) string { c.sortOf(t); return c.sfields[typeKey(t)][i] }

func (c *sortCtx) typeID(t types.Type) int {
	k := typeKey(t)
	if id, ok := c.typeIDs[k]; ok {
		return id
	}
	id := len(c.typeIDs) + 1
	c.typeIDs[k] = id
	return id
}

// zero value of a type
func (c *sortCtx) zero(t types.Type) string {
	if isTime(t) {
		return "(mk_time 0)"
	}
	switch u := t.Underlying().(type) {
	case *types.Basic:
		switch {
		case u.Info()&types.IsBoolean != 0:
			return "false"
		case u.Info()&types.IsInteger != 0:
			return c.intLit(big.NewInt(0), t)
		case u.Info()&types.IsFloat != 0:
			return "(uf_i2f 0)"
		case u.Info()&types.IsString != 0:
			return "str_empty"
		}
		return "0"
	case *types.Slice:
		return "nil_slice"
	case *types.Interface:
		return "nil_iface"
	case *types.Array:
		return fmt.Sprintf("((as const (Array Int %s)) %s)", c.sortOf(u.Elem()), c.zero(u.Elem()))
	case *types.Struct:
		if u.NumFields() == 0 {
			return c.structCtor(t)
		}
		var parts []string
		for i := 0; i < u.NumFields(); i++ {
			parts = append(parts, c.zero(u.Field(i).Type()))
		}
		return fmt.Sprintf("(%s %s)", c.structCtor(t), strings.Join(parts, " "))
	}
	return "0"
}

func (c *sortCtx) intLit(v *big.Int, t types.Type) string {
	if c.isBVType(t) {
		bits, _, _ := intInfo(t)
		m := new(big.Int).Lsh(big.NewInt(1), uint(bits))
		w := new(big.Int).Mod(v, m)
		return fmt.Sprintf("(_ bv%s %d)", w.String(), bits)
	}
	return intTerm(v)
}

func intTerm(v *big.Int) string {
	if v.Sign() < 0 {
		return "(- " + new(big.Int).Neg(v).String() + ")"
	}
	return v.String()
}

func pow2(n int) string { return new(big.Int).Lsh(big.NewInt(1), uint(n)).String() }

func rangeOf(t types.Type) (lo, hi string, ok bool) {
	bits, signed, ok := intInfo(t)
	if !ok {
		return "", "", false
	}
	if signed {
		return "(- " + pow2(bits-1) + ")", new(big.Int).Sub(new(big.Int).Lsh(big.NewInt(1), uint(bits-1)), big.NewInt(1)).String(), true
	}
	return "0", new(big.Int).Sub(new(big.Int).Lsh(big.NewInt(1), uint(bits)), big.NewInt(1)).String(), true
}

// typeInv returns the invariant that every value of type t satisfies (or "" if none).
func (c *sortCtx) typeInv(v string, t types.Type) string {
	if isTime(t) {
		return ""
	}
	switch u := t.Underlying().(type) {
	case *types.Basic:
		if u.Info()&types.IsInteger != 0 && !c.isBVType(t) {
			lo, hi, _ := rangeOf(t)
			return fmt.Sprintf("(and (<= %s %s) (<= %s %s))", lo, v, v, hi)
		}
		if u.Info()&types.IsString != 0 {
			return fmt.Sprintf("(and (>= (str_len %s) 0) (<= (str_len %s) 72057594037927936))", v, v)
		}
	case *types.Slice:
		return fmt.Sprintf("(slice_wf %s)", v)
	case *types.Map, *types.Chan, *types.Signature:
		return fmt.Sprintf("(>= %s 0)", v)
	case *types.Pointer:
		// references to elements of struct arrays are negative (see elem in the prelude), nil is 0
		return ""
	case *types.Interface:
		return fmt.Sprintf("(and (>= (i_type %s) 0) (=> (= (i_type %s) 0) (= (i_val %s) 0)))", v, v, v)
	case *types.Struct:
		var parts []string
		for i := 0; i < u.NumFields(); i++ {
			p := c.typeInv(fmt.Sprintf("(%s %s)", c.structSel(t, i), v), u.Field(i).Type())
			if p != "" {
				parts = append(parts, p)
			}
		}
		if len(parts) == 0 {
			return ""
		}
		return and(parts...)
	}
	return ""
}

func and(parts ...string) string {
	var ps []string
	for _, p := range parts {
		if p == "" || p == "true" {
			continue
		}
		ps = append(ps, p)
	}
	if len(ps) == 0 {
		return "true"
	}
	if len(ps) == 1 {
		return ps[0]
	}
	return "(and " + strings.Join(ps, " ") + ")"
}
func or(parts ...string) string {
	var ps []string
	for _, p := range parts {
		if p == "false" {
			continue
		}
		if p == "true" {
			return "true"
		}
		ps = append(ps, p)
	}
	if len(ps) == 0 {
		return "false"
	}
	if len(ps) == 1 {
		return ps[0]
	}
	return "(or " + strings.Join(ps, " ") + ")"
}
func not(p string) string {
	if p == "true" {
		return "false"
	}
	if p == "false" {
		return "true"
	}
	return "(not " + p + ")"
}
func imp(a, b string) string {
	if a == "true" {
		return b
	}
	return "(=> " + a + " " + b + ")"
}
func ite(c, a, b string) string {
	if a == b {
		return a
	}
	if c == "true" {
		return a
	}
	if c == "false" {
		return b
	}
	return "(ite " + c + " " + a + " " + b + ")"
}
func eq(a, b string) string { return "(= " + a + " " + b + ")" }
func sel(a, i string) string { return "(select " + a + " " + i + ")" }
func sto(a, i, v string) string { return "(store " + a + " " + i + " " + v + ")" }

func sortedKeys[V any](m map[string]V) []string {
	ks := make([]string, 0, len(m))
	for k := range m {
		ks = append(ks, k)
	}
	sort.Strings(ks)
	return ks
}
