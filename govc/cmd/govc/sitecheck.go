package main

import (
	"fmt"
	"strings"

	"golang.org/x/tools/go/ssa"
)

// checkDirectiveSites: every "call <site> requires" and "at before|after <site>" directive must name a site
// that exists in the function; a directive that matches nothing would be silently vacuous.
func (v *vc) checkDirectiveSites(fn *ssa.Function, fc *funcContract) {
	have := map[string]bool{}
	for _, s := range v.eng.callSites(fn) {
		have[s] = true
	}
	exists := func(site string) bool {
		if k := strings.Index(site, "#*"); k >= 0 {
			for s := range have {
				if strings.HasPrefix(s, site[:k+1]) {
					return true
				}
			}
			return false
		}
		return have[site]
	}
	for site := range fc.callRequires {
		if !exists(site) {
			v.errs = append(v.errs, fmt.Sprintf("directive `call %s requires` matches no site of %s (sites: %s)", site, fc.name, siteList(have)))
		}
	}
	for _, g := range fc.ghostAt {
		w := g.where
		if strings.Contains(w, " in ") {
			continue // refers to a site inside an inlined callee
		}
		w = strings.TrimPrefix(strings.TrimPrefix(w, "before "), "after ")
		if !exists(w) {
			v.errs = append(v.errs, fmt.Sprintf("directive `at %s` matches no site of %s (sites: %s)", g.where, fc.name, siteList(have)))
		}
	}
}

func siteList(m map[string]bool) string {
	return strings.Join(sortedKeys(m), " ")
}
