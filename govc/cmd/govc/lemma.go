package main

// Lemmas: closed contract-language formulas (typically "decode spec of encode spec is the identity")
// discharged as stand-alone obligations. They connect the per-function contracts to the property.

import (
	"golang.org/x/tools/go/ssa"
)

func (e *engine) verifyLemma(l *lemmaSpec) *vc {
	v := &vc{eng: e, sc: newSortCtx(l.bv), fnName: "lemma." + l.name, trusted: map[string]bool{}, heapSort: map[string]string{}, heapMemo: map[string]string{},
		callCount: map[string]int{}, knownLen: map[string]int{}, paramTV: map[string]tv{}, inlined: map[string]bool{}, assumedContracts: map[string]bool{},
		localSorts: map[string]string{}, ghostSorts: map[string]string{}, nonNil: map[string]bool{}, sentinels: map[string]bool{}, inlineStack: map[*ssa.Function]bool{}}
	v.props = l.props
	v.fc = &funcContract{pkgPath: l.pkgPath, name: "lemma " + l.name, bv: l.bv, loops: map[int]*loopSpec{}}
	v.epochs = []epochInfo{{fresh: true}}
	top0 := q("top@0")
	v.decl(top0, "Int")
	st := &state{reach: "true", epoch: 0, heaps: map[string]string{}, locals: map[string]string{}, ghost: map[string]string{}, top: top0}
	v.entry = st
	se := &specEnv{v: v, cur: st, pre: st, names: map[string]tv{}}
	for _, p := range e.prog.AllPackages() {
		if p.Pkg.Path() == l.pkgPath {
			se.pkg = p
		}
	}
	t := se.evalGoal(l.expr)
	v.oblige(st, "lemma", l.name, "", t, l.props)
	return v
}
