package main

// `//@ owned T.f`: an object stored in field f of a T is protected by the mutex of that T, not by its own.
// (tsm1.Cache.snapshot is a *Cache whose store is swapped and read under the parent cache's lock; the child's own
// mutex is never taken for it.) An access `x.f.g` with g guarded is then checked against the lock state of x.

import (
	"go/token"
	"go/types"
	"strings"

	"golang.org/x/tools/go/ssa"
)

type ownedSpec struct {
	pkgPath, typ, field string
}

var ownedSpecs []ownedSpec

// parseOwned handles the package-level directive; returns false if malformed.
func parseOwned(pkgPath, rest string) bool {
	f := strings.Fields(rest)
	if len(f) != 1 {
		return false
	}
	dot := strings.Index(f[0], ".")
	if dot <= 0 {
		return false
	}
	ownedSpecs = append(ownedSpecs, ownedSpec{pkgPath: pkgPath, typ: f[0][:dot], field: f[0][dot+1:]})
	return true
}

// ownerOf: if p is the value loaded from an owned field of some object, the owner's pointer; else nil.
func ownerOf(p ssa.Value) ssa.Value {
	ld, ok := p.(*ssa.UnOp)
	if !ok || ld.Op != token.MUL {
		return nil
	}
	fa, ok := ld.X.(*ssa.FieldAddr)
	if !ok {
		return nil
	}
	pt, ok := fa.X.Type().Underlying().(*types.Pointer)
	if !ok {
		return nil
	}
	nt, ok := namedStruct(pt.Elem())
	if !ok {
		return nil
	}
	st := nt.Underlying().(*types.Struct)
	fname := st.Field(fa.Field).Name()
	for _, o := range ownedSpecs {
		if nt.Obj().Pkg() != nil && nt.Obj().Pkg().Path() == o.pkgPath && sameStructAs(nt, o.typ) && fname == o.field {
			return fa.X
		}
	}
	return nil
}
