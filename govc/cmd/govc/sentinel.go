package main

import "fmt"

// sentinel: package-level variables of interface type (error sentinels such as io.EOF, ErrPartialWrite)
// are constants of the model: never reassigned (assumption, listed in evidence), non-nil and pairwise
// distinct (each is a distinct errors.New / fmt.Errorf allocation made at package initialisation).
func (v *vc) sentinel(key string) string {
	k := "sentinel " + key
	if n, ok := v.sc.strConst[k]; ok {
		return n
	}
	n := q("G " + key)
	v.decl(n, "Iface")
	v.rawFact(fmt.Sprintf("(and (not (= (i_type %s) 0)) (> (i_val %s) 0) (< (i_val %s) |top@0|))", n, n, n))
	for _, other := range v.sentinelList {
		v.rawFact(fmt.Sprintf("(not (= (i_val %s) (i_val %s)))", n, other))
	}
	v.sentinelList = append(v.sentinelList, n)
	v.sc.strConst[k] = n
	v.trusted["assumption: package-level error sentinels are non-nil, pairwise distinct and never reassigned"] = true
	return n
}
