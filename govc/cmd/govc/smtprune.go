package main

import (
	"regexp"
	"strings"
)

// Contract-level `smt` lines (spec functions and their axioms) are included in a query only when the query
// can see them: a declaration/definition when its symbol occurs in the text that needs it, an axiom when one
// of the spec symbols it speaks about does. Irrelevant quantified axioms (e.g. the bit-vector FNV fold in a
// query about a byte scanner) otherwise turn `sat` answers - counterexamples - into timeouts.

var smtDeclRe = regexp.MustCompile(`^\((?:declare-fun|define-fun-rec|define-fun|declare-const)\s+(\|[^|]*\||[^\s()]+)`)

func smtDeclared(l string) string {
	if m := smtDeclRe.FindStringSubmatch(l); m != nil {
		return m[1]
	}
	return ""
}

func hasSymbol(text, sym string) bool {
	for i := 0; ; {
		k := strings.Index(text[i:], sym)
		if k < 0 {
			return false
		}
		k += i
		before := k == 0 || strings.ContainsRune(" ()\n\t", rune(text[k-1]))
		end := k + len(sym)
		after := end >= len(text) || strings.ContainsRune(" ()\n\t", rune(text[end]))
		if before && after {
			return true
		}
		i = k + 1
	}
}

// smtLinesFor returns the applicable smt lines (in their original order) for a query body.
func (v *vc) smtLinesFor(body string, dropQuantified bool) []string {
	all := v.eng.contracts.smt
	var idx []int
	for i, l := range all {
		if p := v.eng.contracts.smtPkg[i]; p != "" && (v.fc == nil || p != v.fc.pkgPath) {
			continue
		}
		if dropQuantified && (strings.Contains(l, "(forall") || strings.Contains(l, "(exists")) {
			continue
		}
		idx = append(idx, i)
	}
	syms := map[int]string{}
	var declared []string
	for _, i := range idx {
		if s := smtDeclared(all[i]); s != "" {
			syms[i] = s
			declared = append(declared, s)
		}
	}
	need := map[int]bool{}
	text := body
	for changed := true; changed; {
		changed = false
		for _, i := range idx {
			if need[i] {
				continue
			}
			l := all[i]
			use := false
			if s, ok := syms[i]; ok {
				use = hasSymbol(text, s)
			} else {
				// an axiom: relevant when it mentions no spec symbol at all, or one that is in use
				mentions := false
				for _, s := range declared {
					if hasSymbol(l, s) {
						mentions = true
						if hasSymbol(text, s) {
							use = true
							break
						}
					}
				}
				if !mentions {
					use = true
				}
			}
			if use {
				need[i] = true
				text += "\n" + l
				changed = true
			}
		}
	}
	var out []string
	for _, i := range idx {
		if need[i] {
			out = append(out, all[i])
		}
	}
	return out
}
