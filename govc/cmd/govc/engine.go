package main

import (
	"fmt"
	"go/token"
	"go/types"
	"os"
	"path/filepath"
	"regexp"
	"sort"
	"strings"
	"sync"

	"golang.org/x/tools/go/packages"
	"golang.org/x/tools/go/ssa"
	"golang.org/x/tools/go/ssa/ssautil"
)

const repoRoot = "/repo"
const modPath = "github.com/influxdata/influxdb"

var targetDirs = []string{
	"coordinator", "services/meta", "services/hh", "models", "tsdb/engine/tsm1", "tsdb",
	"pkg/encoding/simple8b", "tsdb/cursors", "services/retention", "query", "services/httpd",
}

type engine struct {
	prog      *ssa.Program
	pkgs      []*packages.Package
	contracts *contractSet
	mu        sync.Mutex
	fnInfos   map[*ssa.Function]*fnInfo
	sites     map[*ssa.Function]map[ssa.Instruction]string
	smtFuncs  map[string]string
	funcs     map[string]*ssa.Function
	pureRe    []*regexp.Regexp
	loadErrs  []string
	recvLocks map[*ssa.Function]map[string]bool
}

func (e *engine) noop() {}

func loadEngine(dirs []string) (*engine, error) {
	e := &engine{fnInfos: map[*ssa.Function]*fnInfo{}, sites: map[*ssa.Function]map[ssa.Instruction]string{}, smtFuncs: map[string]string{}, funcs: map[string]*ssa.Function{}}
	cfg := &packages.Config{Mode: packages.LoadSyntax, Dir: repoRoot, Env: append(os.Environ(), "GOFLAGS=-mod=mod", "GOPROXY=off", "GOSUMDB=off", "GOTOOLCHAIN=local")}
	var pats []string
	for _, d := range dirs {
		pats = append(pats, "./"+d)
	}
	pkgs, err := packages.Load(cfg, pats...)
	if err != nil {
		return nil, err
	}
	for _, p := range pkgs {
		for _, er := range p.Errors {
			e.loadErrs = append(e.loadErrs, er.Error())
		}
	}
	if len(e.loadErrs) > 0 {
		return nil, fmt.Errorf("package load errors: %s", strings.Join(e.loadErrs, "; "))
	}
	prog, spkgs := ssautil.Packages(pkgs, ssa.GlobalDebug|ssa.InstantiateGenerics)
	prog.Build()
	e.prog = prog
	e.pkgs = pkgs
	for _, sp := range spkgs {
		if sp == nil {
			continue
		}
		for _, m := range sp.Members {
			switch x := m.(type) {
			case *ssa.Function:
				e.addFunc(x)
			case *ssa.Type:
				ms := prog.MethodSets.MethodSet(x.Type())
				for i := 0; i < ms.Len(); i++ {
					if f := prog.MethodValue(ms.At(i)); f != nil {
						e.addFunc(f)
					}
				}
				ms = prog.MethodSets.MethodSet(types.NewPointer(x.Type()))
				for i := 0; i < ms.Len(); i++ {
					if f := prog.MethodValue(ms.At(i)); f != nil {
						e.addFunc(f)
					}
				}
			}
		}
	}
	e.contracts = newContractSet()
	for _, d := range dirs {
		p := filepath.Join(repoRoot, d, "verif_contracts.go")
		if _, err := os.Stat(p); err == nil {
			if err := e.contracts.loadFile(p, modPath+"/"+d); err != nil {
				return nil, err
			}
		}
	}
	specs, _ := filepath.Glob("/verif/trusted/*.spec")
	sort.Strings(specs)
	for _, s := range specs {
		if err := e.contracts.loadFile(s, ""); err != nil {
			return nil, err
		}
	}
	declRe := regexp.MustCompile(`^\(declare-fun\s+(\S+)\s+\(([^)]*)\)\s+(\S+)\)`)
	defRe := regexp.MustCompile(`^\(define-fun(?:-rec)?\s+(\S+)\s+\((.*)\)\s+(Int|Bool)\s`)
	for _, l := range e.contracts.smt {
		if strings.HasPrefix(l, "(declare-fun ") {
			name := strings.Fields(l)[1]
			if strings.HasSuffix(strings.TrimSpace(l), " Bool)") {
				e.smtFuncs[name] = "Bool"
			} else {
				e.smtFuncs[name] = "Other"
			}
		} else if m := declRe.FindStringSubmatch(l); m != nil {
			e.smtFuncs[m[1]] = m[3]
		} else if m := defRe.FindStringSubmatch(l); m != nil {
			e.smtFuncs[m[1]] = m[3]
		}
	}
	for _, p := range []string{
		`^strings\.`, `^bytes\.(Equal|Compare|Index|IndexByte|HasPrefix|HasSuffix|Contains|Count|LastIndex|TrimSpace|TrimRight|TrimLeft|Trim|ToLower|EqualFold|IndexAny|LastIndexByte)$`,
		`^math\.`, `^strconv\.`, `^unicode`, `^time\.`, `^\(time\.`, `^errors\.(Is|As|Unwrap)$`, `^os\.Is`, `^path/filepath\.`, `^math/bits\.`,
		`^sort\.(SearchInts|SearchStrings)$`, `^\(\*?regexp\.`, `^regexp\.`, `^runtime\.`, `^fmt\.(Sprint|Sprintf|Sprintln|Errorf)$`,
		`^\(expvar`, `^github\.com/influxdata/influxdb/models\.(Tag|NewTag)`, `^hash/`, `^\(\*?hash/`, `^github\.com/cespare/xxhash`, `^unsafe\.`,
		`^\(github\.com/influxdata/influxql\.`, `^\(\*github\.com/influxdata/influxql\.[A-Za-z]+\)\.(String|RequiredPrivileges)$`,
		`^\(error\)\.Error$`, `^github\.com/influxdata/influxdb\.Err[A-Za-z]+$`, `^github\.com/influxdata/influxdb/logger\.`, `^\(\*github\.com/gogo/protobuf/proto\.`, `^github\.com/gogo/protobuf/proto\.(String|Uint64|Int64|Bool|Uint32|Int32|Float64)$`,
		`^\(\*github\.com/influxdata/influxdb/[a-z/]*internal\.[A-Za-z]+\)\.Get[A-Z]`,
	} {
		e.pureRe = append(e.pureRe, regexp.MustCompile(p))
	}
	return e, nil
}

func (e *engine) addFunc(f *ssa.Function) {
	if f.Pkg == nil {
		return
	}
	key := f.Pkg.Pkg.Path() + "." + f.RelString(f.Pkg.Pkg)
	e.funcs[key] = f
	for _, a := range f.AnonFuncs {
		e.addAnon(a)
	}
}

func (e *engine) addAnon(f *ssa.Function) {
	pkg := f.Pkg
	if pkg == nil {
		p := f.Parent()
		for p != nil && p.Pkg == nil {
			p = p.Parent()
		}
		if p == nil {
			return
		}
		pkg = p.Pkg
	}
	key := pkg.Pkg.Path() + "." + f.RelString(pkg.Pkg)
	e.funcs[key] = f
	for _, a := range f.AnonFuncs {
		e.addAnon(a)
	}
}

func (e *engine) funcKey(f *ssa.Function) string {
	pkg := f.Pkg
	p := f
	for pkg == nil && p.Parent() != nil {
		p = p.Parent()
		pkg = p.Pkg
	}
	if pkg == nil {
		// wrappers / instantiations / external
		return f.String()
	}
	return pkg.Pkg.Path() + "." + f.RelString(pkg.Pkg)
}

func (e *engine) contractFor(f *ssa.Function) *funcContract {
	if fc, ok := e.contracts.funcs[e.funcKey(f)]; ok {
		return fc
	}
	// trusted specs are keyed by the fully qualified name
	if fc, ok := e.contracts.funcs["."+f.String()]; ok {
		return fc
	}
	return nil
}

func (e *engine) fnInfo(f *ssa.Function) *fnInfo {
	e.mu.Lock()
	defer e.mu.Unlock()
	if fi, ok := e.fnInfos[f]; ok {
		return fi
	}
	fi := analyzeFn(f)
	e.fnInfos[f] = fi
	return fi
}

func (e *engine) callSites(f *ssa.Function) map[ssa.Instruction]string {
	e.mu.Lock()
	defer e.mu.Unlock()
	if m, ok := e.sites[f]; ok {
		return m
	}
	m := map[ssa.Instruction]string{}
	cnt := map[string]int{}
	// site ordinals follow SOURCE order (position of the call / send / select / map update), not the
	// order of SSA blocks, so that "append#2" is the second append a reader sees
	type ent struct {
		in  ssa.Instruction
		pos int
		seq int
	}
	var ents []ent
	seq := 0
	for _, b := range f.Blocks {
		for _, in := range b.Instrs {
			switch in.(type) {
			case *ssa.UnOp:
				if u := in.(*ssa.UnOp); u.Op != token.ARROW {
					continue
				}
				p := int(in.Pos())
				if !in.Pos().IsValid() {
					p = 1 << 40
				}
				ents = append(ents, ent{in, p, seq})
				seq++
			case *ssa.Call, *ssa.Defer, *ssa.Go, *ssa.Send, *ssa.Select, *ssa.MapUpdate:
				p := int(in.Pos())
				if !in.Pos().IsValid() {
					p = 1 << 40
				}
				ents = append(ents, ent{in, p, seq})
				seq++
			}
		}
	}
	sort.SliceStable(ents, func(i, j int) bool {
		if ents[i].pos != ents[j].pos {
			return ents[i].pos < ents[j].pos
		}
		return ents[i].seq < ents[j].seq
	})
	for _, e2 := range ents {
		{
			in := e2.in
			var c *ssa.CallCommon
			switch x := in.(type) {
			case *ssa.Call:
				c = x.Common()
			case *ssa.Defer:
				c = x.Common()
			case *ssa.Go:
				c = x.Common()
			case *ssa.UnOp:
				// a plain channel receive (<-ch outside select)
				cnt["recv"]++
				m[in] = fmt.Sprintf("recv#%d", cnt["recv"])
			case *ssa.Send:
				cnt["send"]++
				m[in] = fmt.Sprintf("send#%d", cnt["send"])
			case *ssa.Select:
				cnt["select"]++
				m[in] = fmt.Sprintf("select#%d", cnt["select"])
			case *ssa.MapUpdate:
				cnt["mapupdate"]++
				m[in] = fmt.Sprintf("mapupdate#%d", cnt["mapupdate"])
			}
			if c == nil {
				continue
			}
			n := shortCallee(c)
			cnt[n]++
			m[in] = fmt.Sprintf("%s#%d", n, cnt[n])
		}
	}
	e.sites[f] = m
	return m
}

func (e *engine) isPure(name string) bool {
	for _, r := range e.pureRe {
		if r.MatchString(name) {
			return true
		}
	}
	return false
}

func (e *engine) allocBound(fr *frame) string {
	if fr.fc != nil && fr.fc.allocBound != "" {
		return fr.fc.allocBound
	}
	return ""
}

func (e *engine) onRecv(v *vc, fr *frame, st *state, ch ssa.Value, val string) {}

func (e *engine) onLock(v *vc, fr *frame, st *state, instr ssa.Instruction, name string, c *ssa.CallCommon) {
}

// ---------- verifying one function ----------

func (e *engine) verify(fc *funcContract, props []string) *vc {
	key := fc.pkgPath + "." + fc.name
	fn := e.funcs[key]
	v := &vc{eng: e, sc: newSortCtx(fc.bv), fc: fc, fnName: shortPkg(fc.pkgPath) + "." + fc.name, trusted: map[string]bool{}, heapSort: map[string]string{}, heapMemo: map[string]string{},
		callCount: map[string]int{}, knownLen: map[string]int{}, paramTV: map[string]tv{}, inlined: map[string]bool{}, assumedContracts: map[string]bool{},
		localSorts: map[string]string{}, ghostSorts: map[string]string{}, nonNil: map[string]bool{}, sentinels: map[string]bool{}, inlineStack: map[*ssa.Function]bool{}}
	v.props = fc.props
	if fn == nil {
		v.unresolved = true
		return v
	}
	v.fn = fn
	if fn.Blocks == nil {
		v.unresolved = true
		return v
	}
	defer func() {
		if r := recover(); r != nil {
			v.errs = append(v.errs, fmt.Sprintf("internal error while generating VCs for %s: %v", v.fnName, r))
			if os.Getenv("GOVC_DEBUG") != "" {
				panic(r)
			}
		}
	}()
	v.epochs = []epochInfo{{fresh: true}}
	top0 := q("top@0")
	v.decl(top0, "Int")
	v.rawFact(fmt.Sprintf("(>= %s 1)", top0))
	st := &state{reach: "true", epoch: 0, heaps: map[string]string{}, locals: map[string]string{}, ghost: map[string]string{}, top: top0}
	fr := &frame{fn: fn, vals: map[ssa.Value]string{}, addrs: map[ssa.Value]*addr{}, fc: fc, top: true}
	for _, p := range fn.Params {
		t := v.havoc("p."+p.Name(), p.Type(), st)
		fr.vals[p] = t
		v.paramTV[p.Name()] = tv{term: t, typ: p.Type()}
	}
	if fn.Signature.Recv() != nil && len(fn.Params) > 0 {
		if _, isPtr := fn.Params[0].Type().Underlying().(*types.Pointer); isPtr {
			v.rawFact(fmt.Sprintf("(not (= %s 0))", fr.vals[fn.Params[0]]))
			v.trusted["assumption: pointer receivers are non-nil"] = true
		}
	}
	for fi, fvar := range fn.FreeVars {
		t := v.havoc("fv."+fvar.Name(), fvar.Type(), st)
		fr.vals[fvar] = t
		if pt, isPtr := fvar.Type().Underlying().(*types.Pointer); isPtr && !isStruct(pt.Elem()) && immutableCapture(fn, fi) {
			// a captured variable that is never reassigned: a constant, not a heap cell anything could change
			k := "fvconst." + fvar.Name()
			v.localSorts[k] = v.sc.sortOf(pt.Elem())
			fr.addrs[fvar] = &addr{kind: aLocal, key: k, typ: pt.Elem()}
			st.locals[k] = v.havoc("fv."+fvar.Name()+".val", pt.Elem(), st)
			if _, ptr := pt.Elem().Underlying().(*types.Pointer); ptr && fvar.Name() == receiverName(fn) {
				v.rawFact(fmt.Sprintf("(not (= %s 0))", st.locals[k]))
			}
		}
		if _, isPtr := fvar.Type().Underlying().(*types.Pointer); isPtr {
			// captured variables are cells allocated by the enclosing function: non-nil, and distinct
			// variables live in distinct cells
			v.rawFact(fmt.Sprintf("(not (= %s 0))", t))
			for _, other := range fn.FreeVars {
				if other == fvar {
					break
				}
				if _, isPtr2 := other.Type().Underlying().(*types.Pointer); isPtr2 {
					v.rawFact(fmt.Sprintf("(not (= %s %s))", t, fr.vals[other]))
				}
			}
		}
	}
	for _, g := range fc.ghosts {
		sort := "Int"
		if g.typ == "bool" {
			sort = "Bool"
		}
		if g.typ == "map" {
			sort = "(Array Int Int)"
		}
		v.ghostSorts[g.name] = sort
		init := "0"
		if sort == "Bool" {
			init = "false"
		}
		if g.typ == "map" {
			init = "((as const (Array Int Int)) 0)"
			if g.init != "" && g.init != "?" {
				v.errs = append(v.errs, "ghost map initialiser must be ? or empty")
				g.init = ""
			}
		}
		if g.init == "?" {
			n := v.fresh("ghost " + g.name)
			v.decl(n, sort)
			init = n
		} else if g.init != "" {
			ex, err := parseSpecExpr(g.init)
			if err != nil {
				v.errs = append(v.errs, err.Error())
			} else {
				se := v.newSpecEnvEntry(fr, st)
				if sort == "Bool" {
					init = se.evalBool(ex)
				} else {
					init = se.evalInt(ex)
				}
			}
		}
		st.ghost[g.name] = init
	}
	v.entry = st.clone()
	var reqs []string
	for _, r := range fc.requires {
		se := v.newSpecEnvEntry(fr, st)
		t := se.evalAssume(r.expr)
		reqs = append(reqs, t)
		v.rawFact(t)
	}
	v.entry = st.clone()
	v.assumeHolds(fr, st)
	v.cover(st, "requires", "true")
	v.runBody(fr, st)
	v.checkDirectiveSites(fn, fc)
	if len(fr.results) > 0 {
		for _, e := range fc.ensures {
			if !v.ensuresEvaluated[e.label] {
				v.errs = append(v.errs, fmt.Sprintf("postcondition %s is evaluated at no return (a local it names is in scope at none)", e.label))
			}
		}
	}
	if len(fr.results) == 0 && !fc.panicsOK {
		v.note("function has no reachable return")
	}
	return v
}

func (v *vc) newSpecEnvEntry(fr *frame, st *state) *specEnv {
	se := v.newSpecEnv(fr, st, nil)
	se.pre = st
	return se
}

func shortPkg(p string) string {
	return strings.TrimPrefix(p, modPath+"/")
}

// atReturn generates the postcondition and frame obligations at one return point.
func (v *vc) atReturn(fr *frame, st *state, vals []string, k int) {
	fc := fr.fc
	site := fmt.Sprintf("ret%d", k)
	v.cover(st, site, "true")
	se := v.newSpecEnv(fr, st, nil)
	se.setResults(fr.fn.Signature, vals)
	// parameters keep their entry values in postconditions; other locals mean their value at this return
	se.localsAt = v.retBlock
	for _, e := range fc.ensures {
		se.outOfScopeOK, se.outOfScope = true, false
		nerr := len(v.errs)
		t := se.evalGoal(e.expr)
		se.outOfScopeOK = false
		if se.outOfScope {
			// the clause names a local that is declared after this return: it says nothing here
			v.errs = v.errs[:nerr]
			v.note("postcondition %s is not evaluated at %s: it names a local that is not in scope there", e.label, site)
			continue
		}
		if v.ensuresEvaluated == nil {
			v.ensuresEvaluated = map[string]bool{}
		}
		v.ensuresEvaluated[e.label] = true
		v.oblige(st, "ensures", e.label, site, t, e.props)
	}
	if fc.hasMod {
		v.frameObligations(fr, st, site)
	}
	v.balanceAtReturn(fr, st, site)
}

func (v *vc) frameObligations(fr *frame, st *state, site string) {
	fc := fr.fc
	allowedAll := false
	allowed := map[string][]string{} // heap -> refs ("" = whole heap)
	se := v.newSpecEnv(fr, v.entry, nil)
	for _, m := range fc.modifies {
		if m == "*" || strings.HasPrefix(m, "*except ") {
			allowedAll = true
			continue
		}
		if strings.HasPrefix(m, "ghost ") {
			continue
		}
		ex, err := parseSpecExpr(m)
		if err != nil {
			v.errs = append(v.errs, err.Error())
			continue
		}
		locs := se.locations(ex, v.entry)
		if locs == nil {
			v.errs = append(v.errs, fmt.Sprintf("modifies entry %q not understood", m))
			continue
		}
		for _, l := range locs {
			allowed[l.heap] = append(allowed[l.heap], l.ref)
		}
	}
	if allowedAll {
		return
	}
	if st.epoch != v.entry.epoch {
		v.oblige(st, "frame", "everything-havocked", site, "false", nil)
		return
	}
	top0 := v.entry.top
	for _, h := range sortedKeys(st.heaps) {
		cur := st.heaps[h]
		old := v.getHeap(v.entry, h)
		if cur == old {
			continue
		}
		if strings.HasPrefix(h, "G ") {
			v.oblige(st, "frame", h, site, eq(cur, old), nil)
			continue
		}
		refs := allowed[h]
		whole := false
		for _, r := range refs {
			if r == "" {
				whole = true
			}
		}
		if whole {
			continue
		}
		var excl []string
		for _, r := range refs {
			excl = append(excl, fmt.Sprintf("(not (= r %s))", r))
		}
		if strings.HasPrefix(h, "A ") {
			// row 0 is the backing "array" of nil / zero-capacity slices: it has no element anyone can reach
			excl = append(excl, "(not (= r 0))")
		}
		// objects allocated by this call (ref >= top0, or elements of arrays allocated by it) are not in the frame
		cond := and(append([]string{fmt.Sprintf("(< r %s)", top0), fmt.Sprintf("(< (elem_arr r) %s)", top0)}, excl...)...)
		v.oblige(st, "frame", h, site, fmt.Sprintf("(forall ((r Int)) (=> %s (= (select %s r) (select %s r))))", cond, cur, old), nil)
	}
}
