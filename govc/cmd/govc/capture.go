package main

import (
	"golang.org/x/tools/go/ssa"
)

// immutableCapture: the variable behind free variable fv of closure fn is assigned exactly once, in the entry
// block of the function that declares it (a parameter or a := spilled to the heap because it is captured), and
// no closure capturing it ever stores to it. Its value is then the same at every point of fn, whatever else
// runs: the sweep and the closure contracts read it as a constant instead of a heap cell.
func immutableCapture(fn *ssa.Function, idx int) bool {
	parent := fn.Parent()
	if parent == nil {
		return false
	}
	var cell ssa.Value
	for _, b := range parent.Blocks {
		for _, in := range b.Instrs {
			if mc, ok := in.(*ssa.MakeClosure); ok && mc.Fn == ssa.Value(fn) && idx < len(mc.Bindings) {
				cell = mc.Bindings[idx]
			}
		}
	}
	if cell == nil {
		return false
	}
	switch c := cell.(type) {
	case *ssa.Alloc:
		return singleEntryStore(c, parent)
	case *ssa.FreeVar:
		// captured from a grand-parent through the parent: immutable there too?
		for i, fv := range parent.FreeVars {
			if fv == c {
				return immutableCapture(parent, i) && !writesThrough(c, map[ssa.Value]bool{})
			}
		}
	}
	return false
}

func singleEntryStore(a *ssa.Alloc, owner *ssa.Function) bool {
	refs := a.Referrers()
	if refs == nil {
		return false
	}
	stores := 0
	for _, r := range *refs {
		switch x := r.(type) {
		case *ssa.Store:
			if x.Addr == ssa.Value(a) {
				stores++
				if len(owner.Blocks) == 0 || x.Block() != owner.Blocks[0] {
					return false
				}
			} else {
				return false // the address itself is stored somewhere
			}
		case *ssa.UnOp, *ssa.DebugRef:
		case *ssa.MakeClosure:
			cfn, ok := x.Fn.(*ssa.Function)
			if !ok {
				return false
			}
			for i, b := range x.Bindings {
				if b == ssa.Value(a) && (i >= len(cfn.FreeVars) || writesThrough(cfn.FreeVars[i], map[ssa.Value]bool{})) {
					return false
				}
			}
		default:
			return false
		}
	}
	return stores <= 1
}
