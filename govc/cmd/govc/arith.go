package main

import (
	"fmt"
	"go/constant"
	"go/token"
	"go/types"
	"math/big"

	"golang.org/x/tools/go/ssa"
)

func constInt(x ssa.Value) (*big.Int, bool) {
	c, ok := x.(*ssa.Const)
	if !ok || c.Value == nil || c.Value.Kind() != constant.Int {
		return nil, false
	}
	bi, ok := new(big.Int).SetString(c.Value.ExactString(), 10)
	return bi, ok
}

// wrapTerm reduces an unbounded integer term into the range of type t (two's complement).
func wrapTerm(r string, t types.Type) string {
	bits, signed, ok := intInfo(t)
	if !ok {
		return r
	}
	if !signed {
		return fmt.Sprintf("(mod %s %s)", r, pow2(bits))
	}
	return fmt.Sprintf("(let ((wm (mod %s %s))) (ite (>= wm %s) (- wm %s) wm))", r, pow2(bits), pow2(bits-1), pow2(bits))
}

func inRange(r string, t types.Type) string {
	lo, hi, _ := rangeOf(t)
	return fmt.Sprintf("(and (<= %s %s) (<= %s %s))", lo, r, r, hi)
}

// wrapOrCheck: signed arithmetic gets a no-overflow obligation (then the exact value is used);
// unsigned arithmetic wraps as in Go.
func (v *vc) wrapOrCheck(fr *frame, st *state, in ssa.Instruction, r string, t types.Type) string {
	_, signed, ok := intInfo(t)
	if !ok {
		return r
	}
	if !signed {
		return wrapTerm(r, t)
	}
	if v.noSafety(fr) || v.wraps(fr) {
		return wrapTerm(r, t)
	}
	rn := v.define("ar", "Int", r)
	v.oblige(st, "safety", "overflow", v.site(in), inRange(rn, t), nil)
	return rn
}

func (v *vc) wraps(fr *frame) bool {
	return fr.fc != nil && fr.fc.wraps
}

func truncDiv(x, y string) string {
	return fmt.Sprintf("(ite (>= %s 0) (ite (> %s 0) (div %s %s) (- (div %s (- %s)))) (ite (> %s 0) (- (div (- %s) %s)) (div (- %s) (- %s))))", x, y, x, y, x, y, y, x, y, x, y)
}

func (v *vc) binop(fr *frame, st *state, in *ssa.BinOp) string {
	x := v.val(fr, st, in.X)
	y := v.val(fr, st, in.Y)
	xt := in.X.Type()
	t := in.Type()
	name := in.Name()
	// comparisons
	switch in.Op {
	case token.EQL, token.NEQ:
		var e string
		switch {
		case isSlice(xt):
			other := y
			if c, ok := in.X.(*ssa.Const); ok && c.Value == nil {
				other = y
			} else {
				other = x
			}
			e = fmt.Sprintf("(= (s_arr %s) 0)", other)
		case isFloat(xt):
			e = fmt.Sprintf("(uf_feq %s %s)", x, y)
		case isString(xt):
			if y == "str_empty" {
				e = fmt.Sprintf("(= (str_len %s) 0)", x)
			} else if x == "str_empty" {
				e = fmt.Sprintf("(= (str_len %s) 0)", y)
			} else {
				e = eq(x, y)
			}
		default:
			e = eq(x, y)
		}
		if in.Op == token.NEQ {
			e = not(e)
		}
		return v.define(name, "Bool", e)
	case token.LSS, token.LEQ, token.GTR, token.GEQ:
		ops := map[token.Token]string{token.LSS: "<", token.LEQ: "<=", token.GTR: ">", token.GEQ: ">="}
		switch {
		case isFloat(xt):
			fops := map[token.Token]string{token.LSS: "uf_flt", token.LEQ: "uf_fle", token.GTR: "uf_flt", token.GEQ: "uf_fle"}
			if in.Op == token.GTR || in.Op == token.GEQ {
				x, y = y, x
			}
			return v.define(name, "Bool", fmt.Sprintf("(%s %s %s)", fops[in.Op], x, y))
		case isString(xt):
			switch in.Op {
			case token.LSS:
				return v.define(name, "Bool", fmt.Sprintf("(uf_strlt %s %s)", x, y))
			case token.GTR:
				return v.define(name, "Bool", fmt.Sprintf("(uf_strlt %s %s)", y, x))
			case token.LEQ:
				return v.define(name, "Bool", fmt.Sprintf("(not (uf_strlt %s %s))", y, x))
			default:
				return v.define(name, "Bool", fmt.Sprintf("(not (uf_strlt %s %s))", x, y))
			}
		case v.sc.isBVType(xt):
			_, signed, _ := intInfo(xt)
			bops := map[token.Token]string{token.LSS: "bvult", token.LEQ: "bvule", token.GTR: "bvugt", token.GEQ: "bvuge"}
			if signed {
				bops = map[token.Token]string{token.LSS: "bvslt", token.LEQ: "bvsle", token.GTR: "bvsgt", token.GEQ: "bvsge"}
			}
			return v.define(name, "Bool", fmt.Sprintf("(%s %s %s)", bops[in.Op], x, y))
		}
		return v.define(name, "Bool", fmt.Sprintf("(%s %s %s)", ops[in.Op], x, y))
	}
	if isBool(t) {
		switch in.Op {
		case token.AND, token.LAND:
			return v.define(name, "Bool", and(x, y))
		case token.OR, token.LOR:
			return v.define(name, "Bool", or(x, y))
		}
	}
	if isString(t) && in.Op == token.ADD {
		n := v.define(name, "Str", fmt.Sprintf("(str_cat %s %s)", x, y))
		v.fact(st, fmt.Sprintf("(= (str_len %s) (+ (str_len %s) (str_len %s)))", n, x, y))
		return n
	}
	if isFloat(t) {
		fops := map[token.Token]string{token.ADD: "uf_fadd", token.SUB: "uf_fsub", token.MUL: "uf_fmul", token.QUO: "uf_fdiv"}
		return v.define(name, "F64", fmt.Sprintf("(%s %s %s)", fops[in.Op], x, y))
	}
	if v.sc.isBVType(t) {
		return v.bvBinop(fr, st, in, x, y)
	}
	bits, signed, ok := intInfo(t)
	if !ok {
		v.note("binop %s on %s", in.Op, t)
		return v.havoc(name, t, st)
	}
	switch in.Op {
	case token.ADD:
		return v.define(name, "Int", v.wrapOrCheck(fr, st, in, fmt.Sprintf("(+ %s %s)", x, y), t))
	case token.SUB:
		return v.define(name, "Int", v.wrapOrCheck(fr, st, in, fmt.Sprintf("(- %s %s)", x, y), t))
	case token.MUL:
		_, xc := constInt(in.X)
		_, yc := constInt(in.Y)
		if !xc && !yc && v.fc != nil && len(v.fc.exactConsts) > 0 {
			// the second factor ranges over the small set of constants named by `exact_consts`: an ite chain of
			// linear products, the abstract function for any other value of that factor
			term := fmt.Sprintf("(uf_mul %s %s)", x, y)
			for i := len(v.fc.exactConsts) - 1; i >= 0; i-- {
				c := v.fc.exactConsts[i]
				term = fmt.Sprintf("(ite (= %s %s) (* %s %s) %s)", y, c, x, c, term)
			}
			return v.define(name, "Int", v.wrapOrCheck(fr, st, in, term, t))
		}
		if !xc && !yc {
			// nonlinear product: kept abstract (uf_mul) with valid facts about multiplication, so that the
			// solvers stay in linear arithmetic; precision is lost, soundness is not
			m := v.define(name+".mul", "Int", fmt.Sprintf("(uf_mul %s %s)", x, y))
			v.fact(st, fmt.Sprintf("(= %s (uf_mul %s %s))", m, y, x))
			v.fact(st, fmt.Sprintf("(=> (and (>= %s 0) (>= %s 0)) (>= %s 0))", x, y, m))
			v.fact(st, fmt.Sprintf("(=> (and (>= %s 1) (>= %s 1)) (and (>= %s %s) (>= %s %s)))", x, y, m, x, m, y))
			v.fact(st, fmt.Sprintf("(=> (and (<= 0 %s) (<= %s 65536) (<= 0 %s) (<= %s 65536)) (<= %s 4294967296))", x, x, y, y, m))
			v.fact(st, fmt.Sprintf("(=> (or (= %s 0) (= %s 0)) (= %s 0))", x, y, m))
			return v.define(name, "Int", v.wrapOrCheck(fr, st, in, m, t))
		}
		return v.define(name, "Int", v.wrapOrCheck(fr, st, in, fmt.Sprintf("(* %s %s)", x, y), t))
	case token.QUO, token.REM:
		if !(v.noSafety(fr)) {
			v.oblige(st, "safety", "div", v.site(in), fmt.Sprintf("(not (= %s 0))", y), nil)
		} else {
			v.fact(st, fmt.Sprintf("(not (= %s 0))", y))
		}
		if _, yc := constInt(in.Y); !yc && v.fc != nil && v.fc.exactDiv && !signed && len(v.fc.exactDivs) > 0 {
			// the divisor ranges over a small set of constants named by the contract: an ite chain of linear
			// div/mod by each constant, the abstract function for any other divisor
			fn, op := "uf_div", "div"
			if in.Op == token.REM {
				fn, op = "uf_rem", "mod"
			}
			term := fmt.Sprintf("(%s %s %s)", fn, x, y)
			for i := len(v.fc.exactDivs) - 1; i >= 0; i-- {
				c := v.fc.exactDivs[i]
				term = fmt.Sprintf("(ite (= %s %s) (%s %s %s) %s)", y, c, op, x, c, term)
			}
			return v.define(name, "Int", term)
		}
		if _, yc := constInt(in.Y); !yc && signed && in.Op == token.QUO && v.fc != nil && len(v.fc.exactConsts) > 0 {
			// signed quotient by a divisor from the `exact_consts` set: Go's truncated division by each constant
			term := fmt.Sprintf("(uf_div %s %s)", x, y)
			for i := len(v.fc.exactConsts) - 1; i >= 0; i-- {
				c := v.fc.exactConsts[i]
				term = fmt.Sprintf("(ite (= %s %s) %s %s)", y, c, truncDiv(x, c), term)
			}
			return v.define(name, "Int", term)
		}
		if _, yc := constInt(in.Y); !yc && !(v.fc != nil && v.fc.exactDiv && !signed) {
			// division by a non-constant: abstract quotient / remainder with their valid range facts
			// (keeps the solvers in linear arithmetic)
			fn := "uf_div"
			if in.Op == token.REM {
				fn = "uf_rem"
			}
			r := v.define(name, "Int", fmt.Sprintf("(%s %s %s)", fn, x, y))
			v.fact(st, inRange(r, t))
			if in.Op == token.REM {
				v.fact(st, fmt.Sprintf("(=> (and (>= %s 0) (> %s 0)) (and (<= 0 %s) (< %s %s) (<= %s %s)))", x, y, r, r, y, r, x))
				v.fact(st, fmt.Sprintf("(=> (and (>= %s 0) (> %s %s)) (= %s %s))", x, y, x, r, x))
			} else {
				v.fact(st, fmt.Sprintf("(=> (and (>= %s 0) (> %s 0)) (and (<= 0 %s) (<= %s %s)))", x, y, r, r, x))
			}
			return r
		}
		var qt string
		if !signed {
			qt = fmt.Sprintf("(div %s %s)", x, y)
		} else {
			qt = truncDiv(x, y)
		}
		if in.Op == token.QUO {
			if signed {
				// MinInt / -1 overflows
				return v.define(name, "Int", v.wrapOrCheck(fr, st, in, qt, t))
			}
			return v.define(name, "Int", qt)
		}
		if !signed {
			return v.define(name, "Int", fmt.Sprintf("(mod %s %s)", x, y))
		}
		return v.define(name, "Int", fmt.Sprintf("(- %s (* %s %s))", x, y, qt))
	case token.SHL:
		if k, ok := constInt(in.Y); ok && k.IsInt64() && k.Int64() < 64 {
			return v.define(name, "Int", wrapTerm(fmt.Sprintf("(* %s %s)", x, pow2(int(k.Int64()))), t))
		}
		if kx, ok := constInt(in.X); ok && kx.Cmp(big.NewInt(1)) == 0 {
			// 1 << y
			r := v.define(name, "Int", fmt.Sprintf("(uf_shl %s %s)", x, y))
			v.fact(st, fmt.Sprintf("(=> (and (<= 0 %s) (< %s %d)) (and (>= %s 1) (<= %s %s)))", y, y, bits-1, r, r, pow2(bits-1)))
			for k := 0; k < 16; k++ {
				v.rawFact(fmt.Sprintf("(= (uf_shl 1 %d) %s)", k, pow2(k)))
			}
			return r
		}
		r := v.define(name, "Int", fmt.Sprintf("(uf_shl %s %s)", x, y))
		v.fact(st, inRange(r, t))
		return r
	case token.SHR:
		if k, ok := constInt(in.Y); ok && k.IsInt64() && k.Int64() < 64 {
			return v.define(name, "Int", fmt.Sprintf("(div %s %s)", x, pow2(int(k.Int64()))))
		}
		r := v.define(name, "Int", fmt.Sprintf("(uf_shr %s %s)", x, y))
		v.fact(st, inRange(r, t))
		v.fact(st, fmt.Sprintf("(=> (>= %s 0) (and (>= %s 0) (<= %s %s)))", x, r, r, x))
		return r
	case token.AND:
		if k, ok := constInt(in.Y); ok && isMask(k) {
			return v.define(name, "Int", fmt.Sprintf("(mod %s %s)", x, new(big.Int).Add(k, big.NewInt(1)).String()))
		}
		if k, ok := constInt(in.X); ok && isMask(k) {
			return v.define(name, "Int", fmt.Sprintf("(mod %s %s)", y, new(big.Int).Add(k, big.NewInt(1)).String()))
		}
		r := v.define(name, "Int", fmt.Sprintf("(uf_and %s %s)", x, y))
		v.fact(st, inRange(r, t))
		v.fact(st, fmt.Sprintf("(=> (and (>= %s 0) (>= %s 0)) (and (>= %s 0) (<= %s %s) (<= %s %s)))", x, y, r, r, x, r, y))
		v.fact(st, fmt.Sprintf("(=> (and (>= %s 0)) (and (>= %s 0) (<= %s %s)))", y, r, r, y))
		return r
	case token.OR:
		r := v.define(name, "Int", fmt.Sprintf("(uf_or %s %s)", x, y))
		v.fact(st, inRange(r, t))
		v.fact(st, fmt.Sprintf("(=> (and (>= %s 0) (>= %s 0)) (and (>= %s %s) (>= %s %s) (<= %s (+ %s %s))))", x, y, r, x, r, y, r, x, y))
		return r
	case token.XOR:
		r := v.define(name, "Int", fmt.Sprintf("(uf_xor %s %s)", x, y))
		v.fact(st, inRange(r, t))
		v.fact(st, fmt.Sprintf("(=> (and (>= %s 0) (>= %s 0)) (and (>= %s 0) (<= %s (+ %s %s))))", x, y, r, r, x, y))
		return r
	case token.AND_NOT:
		r := v.define(name, "Int", fmt.Sprintf("(uf_andnot %s %s)", x, y))
		v.fact(st, inRange(r, t))
		v.fact(st, fmt.Sprintf("(=> (>= %s 0) (and (>= %s 0) (<= %s %s)))", x, r, r, x))
		return r
	}
	v.note("binop %s", in.Op)
	return v.havoc(name, t, st)
}

func isMask(k *big.Int) bool {
	if k.Sign() <= 0 {
		return false
	}
	k1 := new(big.Int).Add(k, big.NewInt(1))
	return new(big.Int).And(k, k1).Sign() == 0
}

func (v *vc) bvBinop(fr *frame, st *state, in *ssa.BinOp, x, y string) string {
	t := in.Type()
	bits, signed, _ := intInfo(t)
	sort := v.sc.sortOf(t)
	name := in.Name()
	switch in.Op {
	case token.SHL, token.SHR:
		// shift amount may have another type
		yt := in.Y.Type()
		var amt string
		if k, ok := constInt(in.Y); ok {
			amt = v.sc.intLit(k, t)
			if k.Cmp(big.NewInt(int64(bits))) >= 0 {
				amt = v.sc.intLit(big.NewInt(int64(bits)), t)
			}
		} else if v.sc.isBVType(yt) {
			ybits, _, _ := intInfo(yt)
			switch {
			case ybits == bits:
				amt = y
			case ybits < bits:
				amt = fmt.Sprintf("((_ zero_extend %d) %s)", bits-ybits, y)
			default:
				amt = fmt.Sprintf("(ite (bvuge %s (_ bv%d %d)) (_ bv%d %d) ((_ extract %d 0) %s))", y, bits, ybits, bits, bits, bits-1, y)
			}
		} else {
			amt = fmt.Sprintf("(ite (>= %s %d) (_ bv%d %d) ((_ int2bv %d) %s))", y, bits, bits, bits, bits, y)
		}
		op := "bvshl"
		if in.Op == token.SHR {
			op = "bvlshr"
			if signed {
				op = "bvashr"
			}
		}
		return v.define(name, sort, fmt.Sprintf("(%s %s %s)", op, x, amt))
	case token.QUO, token.REM:
		zero := v.sc.intLit(big.NewInt(0), t)
		if !(v.noSafety(fr)) {
			v.oblige(st, "safety", "div", v.site(in), fmt.Sprintf("(not (= %s %s))", y, zero), nil)
		}
		op := "bvudiv"
		if in.Op == token.REM {
			op = "bvurem"
		}
		if signed {
			op = "bvsdiv"
			if in.Op == token.REM {
				op = "bvsrem"
			}
		}
		return v.define(name, sort, fmt.Sprintf("(%s %s %s)", op, x, y))
	}
	ops := map[token.Token]string{token.ADD: "bvadd", token.SUB: "bvsub", token.MUL: "bvmul", token.AND: "bvand", token.OR: "bvor", token.XOR: "bvxor"}
	if op, ok := ops[in.Op]; ok {
		return v.define(name, sort, fmt.Sprintf("(%s %s %s)", op, x, y))
	}
	if in.Op == token.AND_NOT {
		return v.define(name, sort, fmt.Sprintf("(bvand %s (bvnot %s))", x, y))
	}
	v.note("bv binop %s", in.Op)
	return v.havoc(name, t, st)
}

func (v *vc) convertTerm(st *state, x string, from, to types.Type, hint string) string {
	fb, fs, fok := intInfo(from)
	tb, ts, tok := intInfo(to)
	switch {
	case fok && tok:
		fbv, tbv := v.sc.isBVType(from), v.sc.isBVType(to)
		switch {
		case fbv && tbv:
			switch {
			case fb == tb:
				return x
			case fb > tb:
				return fmt.Sprintf("((_ extract %d 0) %s)", tb-1, x)
			case fs:
				return fmt.Sprintf("((_ sign_extend %d) %s)", tb-fb, x)
			default:
				return fmt.Sprintf("((_ zero_extend %d) %s)", tb-fb, x)
			}
		case fbv && !tbv:
			n := fmt.Sprintf("(bv2nat %s)", x)
			if fs {
				n = fmt.Sprintf("(let ((n (bv2nat %s))) (ite (>= n %s) (- n %s) n))", x, pow2(fb-1), pow2(fb))
			}
			if fs == ts && fb <= tb || !fs && fb < tb {
				return n
			}
			return wrapTerm(n, to)
		case !fbv && tbv:
			return fmt.Sprintf("((_ int2bv %d) %s)", tb, x)
		}
		// Int -> Int
		if (fs == ts && fb <= tb) || (!fs && ts && fb < tb) {
			return x
		}
		return wrapTerm(x, to)
	case fok && isFloat(to):
		if v.sc.isBVType(from) {
			x = v.convertTerm(st, x, from, types.Typ[types.Int], hint)
		}
		return fmt.Sprintf("(uf_i2f %s)", x)
	case isFloat(from) && tok:
		n := v.define(hint, "Int", fmt.Sprintf("(uf_f2i %s)", x))
		if v.sc.isBVType(to) {
			return fmt.Sprintf("((_ int2bv %d) %s)", tb, n)
		}
		return wrapTerm(n, to)
	case isFloat(from) && isFloat(to):
		return x
	case isString(to) && isSlice(from):
		n := v.fresh(hint)
		v.decl(n, "Str")
		v.fact(st, fmt.Sprintf("(= (str_len %s) (s_len %s))", n, x))
		et := from.Underlying().(*types.Slice).Elem()
		if b, ok := et.Underlying().(*types.Basic); ok && b.Kind() == types.Uint8 && !v.sc.bv {
			h, _ := v.elemHeap(et)
			hp := v.getHeap(st, h)
			v.fact(st, fmt.Sprintf("(forall ((i Int)) (! (=> (and (<= 0 i) (< i (s_len %s))) (= (str_at %s i) (select (select %s (s_arr %s)) (+ (s_off %s) i)))) :pattern ((str_at %s i))))", x, n, hp, x, x, n))
		}
		return n
	case isSlice(to) && isString(from):
		ref := v.alloc(st, hint)
		et := to.Underlying().(*types.Slice).Elem()
		if b, ok := et.Underlying().(*types.Basic); ok && b.Kind() == types.Uint8 && !v.sc.bv {
			h, sort := v.elemHeap(et)
			row := v.fresh("row")
			v.decl(row, "(Array Int Int)")
			v.fact(st, fmt.Sprintf("(forall ((i Int)) (! (=> (and (<= 0 i) (< i (str_len %s))) (= (select %s i) (str_at %s i))) :pattern ((select %s i))))", x, row, x, row))
			v.setHeap(st, h, sort, sto(v.getHeap(st, h), ref, row))
		}
		return fmt.Sprintf("(mk-slice %s 0 (str_len %s) (str_len %s))", ref, x, x)
	case isString(to) && fok:
		n := v.fresh(hint)
		v.decl(n, "Str")
		v.fact(st, fmt.Sprintf("(and (>= (str_len %s) 1) (<= (str_len %s) 4))", n, n))
		return n
	}
	// pointers <-> unsafe.Pointer etc.
	if v.sc.sortOf(from) == v.sc.sortOf(to) {
		return x
	}
	v.note("conversion %s -> %s", from, to)
	return v.havoc(hint, to, st)
}

func (v *vc) convert(fr *frame, st *state, in *ssa.Convert) string {
	x := v.val(fr, st, in.X)
	return v.define(in.Name(), v.sc.sortOf(in.Type()), v.convertTerm(st, x, in.X.Type(), in.Type(), in.Name()))
}
