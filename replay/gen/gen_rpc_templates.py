#!/usr/bin/env python3
# Generates the witness templates for the C05.1 error-surfacing obligations: a fake peer on a
# loopback listener answers the request with a response that carries an error; the real
# MetaExecutor method must return a non-nil error.
import os
T = '''package coordinator

import (
	"context"
	"errors"
	"fmt"
	"net"
	"testing"
	"time"

	"github.com/influxdata/influxdb/pkg/estimator/hll"
	"github.com/influxdata/influxdb/query"
	"github.com/influxdata/influxdb/services/meta"
	"github.com/influxdata/influxdb/storage/reads/datatypes"
	"github.com/influxdata/influxql"
)

var _ = context.Background
var _ = hll.NewDefaultPlus
var _ = query.IteratorOptions{}
var _ = datatypes.ReadFilterRequest{}
var _ = influxql.Measurement{}

type govcMC struct{ addr string }

func (c *govcMC) NodeID() uint64 { return 1 }
func (c *govcMC) DataNode(id uint64) (*meta.NodeInfo, error) {
	return &meta.NodeInfo{ID: id, TCPAddr: c.addr}, nil
}
func (c *govcMC) DataNodes() []meta.NodeInfo { return nil }
func (c *govcMC) DataNodeByTCPAddr(a string) (*meta.NodeInfo, error) { return nil, nil }

// Witness for %(ob)s: the remote node answers with a response whose Err field is set
// (model: decode succeeds, resp.Err != nil).
func TestGovcReplay(t *testing.T) {
	defer func() {
		if r := recover(); r != nil {
			fmt.Printf("GOVC-REPLAY-PANIC: %%v\\n", r)
		}
	}()
	ln, err := net.Listen("tcp", "127.0.0.1:0")
	if err != nil {
		fmt.Println("GOVC-REPLAY-RETURNED (cannot listen)")
		return
	}
	defer ln.Close()
	go func() {
		conn, err := ln.Accept()
		if err != nil {
			return
		}
		defer conn.Close()
		var hdr [1]byte
		conn.Read(hdr[:]) // mux header
		ReadTLV(conn)     // the request
		EncodeTLV(conn, %(msg)s, &%(resp)s{%(extra)sErr: errors.New("remote shard failure")})
		time.Sleep(200 * time.Millisecond)
	}()
	e := NewMetaExecutor(2*time.Second, 2*time.Second, time.Second, 4)
	e.MetaClient = &govcMC{addr: ln.Addr().String()}
	%(call)s
	if gotErr == nil {
		fmt.Println("GOVC-REPLAY-ENSURES-FALSE: %(name)s returned a nil error although the remote response carried Err=\\"remote shard failure\\"")
		return
	}
	fmt.Println("GOVC-REPLAY-RETURNED", gotErr)
}
'''
cases = {
 'TagKeys': ('tagKeysResponseMessage','TagKeysResponse','_, gotErr := e.TagKeys(2, []uint64{1}, nil)'),
 'TagValues': ('tagValuesResponseMessage','TagValuesResponse','_, gotErr := e.TagValues(2, []uint64{1}, nil)'),
 'MeasurementNames': ('measurementNamesResponseMessage','MeasurementNamesResponse','_, gotErr := e.MeasurementNames(2, "db", "rp", nil)'),
 'SeriesSketches': ('seriesSketchesResponseMessage','SeriesSketchesResponse','_, _, gotErr := e.SeriesSketches(2, "db")'),
 'MeasurementsSketches': ('measurementsSketchesResponseMessage','MeasurementsSketchesResponse','_, _, gotErr := e.MeasurementsSketches(2, "db")'),
 'MapType': ('mapTypeResponseMessage','MapTypeResponse','_, gotErr := e.MapType(2, []uint64{1}, &influxql.Measurement{Name: "m"}, "f")'),
 'CreateIterator': ('createIteratorResponseMessage','CreateIteratorResponse','_, gotErr := e.CreateIterator(2, []uint64{1}, context.Background(), &influxql.Measurement{Name: "m"}, query.IteratorOptions{})'),
 'ReadFilter': ('storeReadFilterResponseMessage','StoreReadFilterResponse','_, gotErr := e.ReadFilter(2, []uint64{1}, context.Background(), &datatypes.ReadFilterRequest{})'),
 'ReadGroup': ('storeReadGroupResponseMessage','StoreReadGroupResponse','_, gotErr := e.ReadGroup(2, []uint64{1}, context.Background(), &datatypes.ReadGroupRequest{})'),
}
for name,(msg,resp,call) in cases.items():
    ob='coordinator.(*MetaExecutor).%s/ensures:err_surfaces'%name
    fn=''.join(c if (c.isalnum() or c in '.-_') else '_' for c in ob)+'.go'
    open(os.path.join('/verif/replay/templates',fn),'w').write(T%dict(ob=ob,msg=msg,resp=resp,call=call,name=name,extra=('Sketch: hll.NewDefaultPlus(), TSSketch: hll.NewDefaultPlus(), ' if 'Sketches' in name else '')))
print('ok')
