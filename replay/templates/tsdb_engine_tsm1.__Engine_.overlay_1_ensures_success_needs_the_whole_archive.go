package tsm1_test

// Demo for seeded defect C18b.
//
// Property C18: a shard copy / restore whose stream is cut part-way must not
// leave a half-populated shard that is reported as a successful restore.
// Engine.Restore is what Store.RestoreShard (and therefore the coordinator's
// processCopyShardRequest) ends in; when it returns nil the destination node
// answers "copy ok" and the meta node adds it as an owner of the shard.

import (
	"archive/tar"
	"bytes"
	"context"
	"fmt"
	"io"
	"os"
	"path/filepath"
	"sort"
	"testing"
	"time"

	"github.com/influxdata/influxdb/models"
	"github.com/influxdata/influxdb/query"
	"github.com/influxdata/influxdb/tsdb"
	"github.com/influxdata/influxdb/tsdb/engine/tsm1"
	"github.com/influxdata/influxdb/tsdb/index/inmem"
	"github.com/influxdata/influxql"
)

type demoC18bIDSets []*tsdb.SeriesIDSet

func (a demoC18bIDSets) ForEach(f func(ids *tsdb.SeriesIDSet)) error {
	for _, v := range a {
		f(v)
	}
	return nil
}

// planner that never plans anything, so the file layout stays as written.
type demoC18bPlanner struct{}

func (demoC18bPlanner) Plan(lastWrite time.Time) []tsm1.CompactionGroup { return nil }
func (demoC18bPlanner) PlanLevel(level int) []tsm1.CompactionGroup      { return nil }
func (demoC18bPlanner) PlanOptimize() []tsm1.CompactionGroup            { return nil }
func (demoC18bPlanner) Release(groups []tsm1.CompactionGroup)           {}
func (demoC18bPlanner) FullyCompacted() bool                            { return false }
func (demoC18bPlanner) ForceFull()                                      {}
func (demoC18bPlanner) SetFileStore(fs *tsm1.FileStore)                 {}

type demoC18bEngine struct {
	*tsm1.Engine
	root  string
	index tsdb.Index
	sfile *tsdb.SeriesFile
}

func demoC18bOpenEngine(t *testing.T) *demoC18bEngine {
	t.Helper()
	root, err := os.MkdirTemp("", "demo-c18b-")
	if err != nil {
		t.Fatal(err)
	}
	db := "db0"
	dbPath := filepath.Join(root, "data", db)
	if err := os.MkdirAll(dbPath, 0777); err != nil {
		t.Fatal(err)
	}
	sfile := tsdb.NewSeriesFile(filepath.Join(dbPath, tsdb.SeriesFileDirectory))
	if err := sfile.Open(); err != nil {
		t.Fatal(err)
	}
	opt := tsdb.NewEngineOptions()
	opt.IndexVersion = tsdb.InmemIndexName
	opt.InmemIndex = inmem.NewIndex(db, sfile)
	ids := tsdb.NewSeriesIDSet()
	opt.SeriesIDSets = demoC18bIDSets([]*tsdb.SeriesIDSet{ids})
	idx := tsdb.MustOpenIndex(1, db, filepath.Join(dbPath, "index"), ids, sfile, opt)

	e := tsm1.NewEngine(1, idx, filepath.Join(root, "data"), filepath.Join(root, "wal"), sfile, opt).(*tsm1.Engine)
	e.CompactionPlan = demoC18bPlanner{}
	if err := e.Open(); err != nil {
		t.Fatal(err)
	}
	return &demoC18bEngine{Engine: e, root: root, index: idx, sfile: sfile}
}

func (e *demoC18bEngine) close() {
	e.Engine.Close()
	e.index.Close()
	e.sfile.Close()
	os.RemoveAll(e.root)
}

func (e *demoC18bEngine) write(t *testing.T, lines string) {
	t.Helper()
	pts, err := models.ParsePointsString(lines)
	if err != nil {
		t.Fatal(err)
	}
	for _, p := range pts {
		if err := e.Engine.CreateSeriesIfNotExists(p.Key(), p.Name(), p.Tags()); err != nil {
			t.Fatal(err)
		}
		// Engine.WritePoints does not register fields (the shard does that).
		if err := e.MeasurementFields(p.Name()).CreateFieldIfNotExists([]byte("value"), influxql.Float); err != nil {
			t.Fatal(err)
		}
	}
	if err := e.WritePoints(pts); err != nil {
		t.Fatal(err)
	}
}

// readAll returns every cpu.value point of the engine, read through the public
// iterator API, as sorted strings.
func (e *demoC18bEngine) readAll(t *testing.T) []string {
	t.Helper()
	itr, err := e.CreateIterator(context.Background(), "cpu", query.IteratorOptions{
		Expr:       influxql.MustParseExpr(`value`),
		Dimensions: []string{"host"},
		StartTime:  influxql.MinTime,
		EndTime:    influxql.MaxTime,
		Ascending:  true,
	})
	if err != nil {
		t.Fatal(err)
	}
	if itr == nil {
		return nil
	}
	defer itr.Close()
	fitr, ok := itr.(query.FloatIterator)
	if !ok {
		t.Fatalf("unexpected iterator type %T", itr)
	}
	var out []string
	for {
		p, err := fitr.Next()
		if err != nil {
			t.Fatal(err)
		}
		if p == nil {
			break
		}
		out = append(out, fmt.Sprintf("%s,%s %d %v", p.Name, p.Tags.ID(), p.Time, p.Value))
	}
	sort.Strings(out)
	return out
}

// demoC18bEntry describes where one archive member sits in the tar byte stream.
type demoC18bEntry struct {
	name      string
	hdrStart  int
	dataStart int
	size      int
}

func demoC18bTarLayout(t *testing.T, all []byte) []demoC18bEntry {
	t.Helper()
	br := bytes.NewReader(all)
	tr := tar.NewReader(br)
	var out []demoC18bEntry
	for {
		// tar.Reader skips the unread remainder and padding of the previous
		// member inside Next, so derive offsets from sizes instead.
		hdr, err := tr.Next()
		if err == io.EOF {
			break
		}
		if err != nil {
			t.Fatal(err)
		}
		dataStart := len(all) - br.Len()
		out = append(out, demoC18bEntry{name: hdr.Name, hdrStart: dataStart - 512, dataStart: dataStart, size: int(hdr.Size)})
	}
	return out
}

func TestDemoC18b_TruncatedRestoreMustNotReportSuccess(t *testing.T) {
	const base = "db0/rp0/1"

	src := demoC18bOpenEngine(t)
	defer src.close()

	// Three data files plus un-snapshotted cache content.
	for gen := 0; gen < 3; gen++ {
		var lines string
		for i := 0; i < 50; i++ {
			lines += fmt.Sprintf("cpu,host=h%d value=%d.5 %d\n", gen, gen*1000+i, int64(gen*1000+i)*1e9)
		}
		src.write(t, lines)
		if err := src.WriteSnapshot(); err != nil {
			t.Fatal(err)
		}
	}
	src.write(t, "cpu,host=h3 value=3000.5 3000000000000\ncpu,host=h0 value=7.25 7000000000000\n")

	var buf bytes.Buffer
	if err := src.Backup(&buf, base, time.Time{}); err != nil {
		t.Fatal(err)
	}
	all := buf.Bytes()
	want := src.readAll(t)
	if len(want) != 152 {
		t.Fatalf("source holds %d points, expected 152", len(want))
	}

	entries := demoC18bTarLayout(t, all)
	if len(entries) != 4 {
		t.Fatalf("expected 4 files in the backup, got %d: %+v", len(entries), entries)
	}

	// Control: the complete stream restores to an identical shard.
	func() {
		dst := demoC18bOpenEngine(t)
		defer dst.close()
		if err := dst.Restore(bytes.NewReader(all), base); err != nil {
			t.Fatalf("restore of complete stream failed: %v", err)
		}
		if got := dst.readAll(t); fmt.Sprint(got) != fmt.Sprint(want) {
			t.Fatalf("complete restore differs: got %d points, want %d", len(got), len(want))
		}
	}()

	// The connection to the source node drops part-way: inside the data of
	// the 2nd, 3rd or 4th file, or inside the header of the 3rd file.
	cuts := map[string]int{
		"mid data of file 2":   entries[1].dataStart + entries[1].size/2,
		"mid data of file 3":   entries[2].dataStart + entries[2].size/2,
		"mid data of file 4":   entries[3].dataStart + entries[3].size/2,
		"mid header of file 3": entries[2].hdrStart + 100,
	}
	for name, cut := range cuts {
		name, cut := name, cut
		t.Run(name, func(t *testing.T) {
			dst := demoC18bOpenEngine(t)
			defer dst.close()

			err := dst.Restore(bytes.NewReader(all[:cut]), base)
			if err != nil {
				// Failure is reported; the caller (processCopyShardRequest)
				// answers with an error and no owner is added.
				return
			}
			got := dst.readAll(t)
			if fmt.Sprint(got) != fmt.Sprint(want) {
				t.Fatalf("stream cut at byte %d of %d, yet Restore returned nil: "+
					"destination holds %d of %d points and would be advertised as a replica",
					cut, len(all), len(got), len(want))
			}
		})
	}
}

// Witness for (*Engine).overlay$1/ensures:success_needs_the_whole_archive and its siblings (model: the copy loop
// ends successfully although readFileFromBackup did not report a clean end of archive). The scenario above
// (written by the seeding sub-agent for seed C18b, kept verbatim) takes a real Engine.Backup, cuts the stream
// inside members and inside a header, and calls the real Engine.Restore on a fresh engine: a cut stream must
// not restore successfully with fewer points than the source.
func TestGovcReplay(t *testing.T) {
	if !t.Run("truncated-restore", TestDemoC18b_TruncatedRestoreMustNotReportSuccess) {
		fmt.Println("GOVC-REPLAY-ENSURES-FALSE: a backup stream cut part-way restores 'successfully' with part of the shard's data (see the subtest output above)")
		return
	}
	fmt.Println("GOVC-REPLAY-RETURNED")
}
