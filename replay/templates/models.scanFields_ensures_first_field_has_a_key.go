package models

import (
	"fmt"
	"testing"
)

// Witness for scanFields/ensures:first_field_has_a_key (model: the field section handed back starts with '=': the
// first field has no key). skipWhitespace also skips TAB and NUL, so in "m \t=1" the field section starts at the '='
// and the look-behind for a preceding space does not fire. Every line here is either rejected, or accepted as a
// point that has at least one field and that survives the text and the binary round trip.
func TestGovcReplay(t *testing.T) {
	defer func() {
		if r := recover(); r != nil {
			fmt.Printf("GOVC-REPLAY-PANIC: %v\n", r)
		}
	}()
	for _, line := range []string{"m \t=1", "m \x00=1", "m \t=1,b=2", "m,t=v \t=1 10", "m \t\t=1i 5", "m a=1,\t=2"} {
		pts, err := ParsePointsString(line)
		if err != nil {
			continue
		}
		p := pts[0]
		f, ferr := p.Fields()
		if ferr != nil || len(f) == 0 {
			fmt.Printf("GOVC-REPLAY-ENSURES-FALSE: %q is accepted as a point without any usable field: Fields() = %v, %v\n", line, f, ferr)
			return
		}
		if _, err := ParsePointsString(p.String()); err != nil {
			fmt.Printf("GOVC-REPLAY-ENSURES-FALSE: %q is accepted but its text form %q does not parse: %v\n", line, p.String(), err)
			return
		}
		b, _ := p.MarshalBinary()
		if _, err := NewPointFromBytes(b); err != nil {
			fmt.Printf("GOVC-REPLAY-ENSURES-FALSE: %q is accepted but its binary form is refused: %v\n", line, err)
			return
		}
	}
	fmt.Println("GOVC-REPLAY-RETURNED")
}
