package hh

import (
	"fmt"
	"os"
	"testing"
	"time"

	"github.com/influxdata/influxdb/monitor/diagnostics"
	"github.com/influxdata/influxdb/toml"
)

// Witness for (*Service).Close/guard:waits_for_goroutines_without_holding_Service_mu (Close waits for the purge
// goroutine with s.mu held; the purge goroutine takes s.mu on every tick and only looks at the closing channel
// between ticks). Real service with a short purge interval and a monitor whose deregistration takes a few
// milliseconds (so that a tick falls into Close's critical section): Close has to return.
type govcSlowMonitor struct{}

func (govcSlowMonitor) RegisterDiagnosticsClient(name string, client diagnostics.Client) {}
func (govcSlowMonitor) DeregisterDiagnosticsClient(name string)                          { time.Sleep(30 * time.Millisecond) }

func TestGovcReplay(t *testing.T) {
	dir, err := os.MkdirTemp("", "govc-hhclose")
	if err != nil {
		t.Fatal(err)
	}
	defer os.RemoveAll(dir)
	cfg := NewConfig()
	cfg.Enabled = true
	cfg.Dir = dir
	cfg.PurgeInterval = toml.Duration(2 * time.Millisecond)
	for round := 0; round < 20; round++ {
		s := NewService(cfg, nil)
		s.Monitor = govcSlowMonitor{}
		if err := s.Open(); err != nil {
			t.Fatal(err)
		}
		time.Sleep(5 * time.Millisecond)
		done := make(chan error, 1)
		go func() { done <- s.Close() }()
		select {
		case err := <-done:
			if err != nil {
				t.Fatal(err)
			}
		case <-time.After(5 * time.Second):
			fmt.Printf("GOVC-REPLAY-ENSURES-FALSE: round %d: Service.Close did not return within 5s: it waits for the purge goroutine while holding s.mu, and that goroutine is waiting for s.mu\n", round)
			return
		}
	}
	fmt.Println("GOVC-REPLAY-RETURNED")
}
