package models_test

// Demo for seed C12d. Package: models_test (external test package of ./models).
// Copy into models/ as zz_seed_demo_test.go and run:
//   go test -vet=off -count=1 -run 'Demo' ./models/

import (
	"fmt"
	"math/big"
	"testing"
	"time"

	"github.com/influxdata/influxdb/models"
)

// A timestamp given in a coarse precision unit must either be converted to
// exactly timestamp*unit nanoseconds (when that lies inside
// [MinNanoTime, MaxNanoTime]) or the line must be rejected. In particular a
// timestamp whose nanosecond value does not fit in an int64 must never be
// accepted with some other (wrapped) time.
func TestDemoC12dPrecisionConversionIsExactOrRejected(t *testing.T) {
	precisions := []string{"n", "u", "ms", "s", "m", "h"}

	// Interesting magnitudes in the precision unit: small values, values around
	// MaxInt64/unit (first overflow), and values around k*2^64/unit for several k
	// (where a wrapped product comes back with the sign of the input).
	two64 := new(big.Int).Lsh(big.NewInt(1), 64)
	maxI64 := big.NewInt(1<<63 - 1)

	lo := big.NewInt(models.MinNanoTime)
	hi := big.NewInt(models.MaxNanoTime)

	for _, prec := range precisions {
		mult := big.NewInt(models.GetPrecisionMultiplier(prec))

		var cands []*big.Int
		add := func(v *big.Int) {
			for d := int64(-2); d <= 2; d++ {
				x := new(big.Int).Add(v, big.NewInt(d))
				if x.IsInt64() {
					cands = append(cands, x, new(big.Int).Neg(x))
				}
			}
		}
		add(big.NewInt(0))
		add(big.NewInt(1500000000))
		add(new(big.Int).Quo(maxI64, mult))
		for k := int64(1); k <= 6; k++ {
			add(new(big.Int).Quo(new(big.Int).Mul(big.NewInt(k), two64), mult))
		}

		for _, ts := range cands {
			if !ts.IsInt64() {
				continue
			}
			line := fmt.Sprintf("cpu value=1 %s", ts.String())
			exact := new(big.Int).Mul(ts, mult)
			inRange := exact.Cmp(lo) >= 0 && exact.Cmp(hi) <= 0

			pts, err := models.ParsePointsWithPrecision([]byte(line), time.Unix(0, 0).UTC(), prec)
			if inRange {
				if err != nil || len(pts) != 1 {
					t.Errorf("precision %q: %q should be accepted, got %d points, err=%v", prec, line, len(pts), err)
					continue
				}
				if got := pts[0].UnixNano(); got != exact.Int64() {
					t.Errorf("precision %q: %q parsed to %d ns, want %s ns", prec, line, got, exact)
				}
				continue
			}
			if err == nil {
				got := "no point"
				if len(pts) == 1 {
					got = fmt.Sprintf("%d ns (%s)", pts[0].UnixNano(), pts[0].Time().UTC().Format(time.RFC3339Nano))
				}
				t.Errorf("precision %q: %q is %s ns, outside the representable range, but was accepted as %s",
					prec, line, exact, got)
			}
		}
	}
}

// The concrete case: 18446744074 seconds is the year 2554, far outside the
// supported range; it must not be stored as a point in January 1970.
func TestDemoC12dSecondsOverflow(t *testing.T) {
	pts, err := models.ParsePointsWithPrecision([]byte("cpu value=1 18446744074"), time.Unix(0, 0).UTC(), "s")
	if err == nil {
		t.Fatalf("out-of-range timestamp accepted: %d point(s), first at %v", len(pts), pts[0].Time().UTC())
	}
	// The same check on the exported helper.
	if tm, err := models.SafeCalcTime(18446744074, "s"); err == nil {
		t.Fatalf("SafeCalcTime(18446744074, s) = %v, want ErrTimeOutOfRange", tm)
	}
}

// Witness for safeSignedMult/ensures:accepted_means_exact (model: the wrapped 64-bit product is accepted although
// it is not the mathematical product; the generic replay cannot see this because it evaluates the contract in
// machine arithmetic as well). The scenarios above (written by the seeding sub-agent for seed C12d, kept verbatim)
// parse timestamps at every precision around and far beyond the representable range: each is converted exactly or
// the line is rejected.
func TestGovcReplay(t *testing.T) {
	ok := t.Run("exact-or-rejected", TestDemoC12dPrecisionConversionIsExactOrRejected)
	ok = t.Run("seconds-overflow", TestDemoC12dSecondsOverflow) && ok
	if !ok {
		fmt.Println("GOVC-REPLAY-ENSURES-FALSE: an out-of-range timestamp is accepted at a wrapped-around time (see the subtest output above)")
		return
	}
	fmt.Println("GOVC-REPLAY-RETURNED")
}
