package hh

import (
	"fmt"
	"os"
	"os/exec"
	"testing"
	"time"

	"github.com/influxdata/influxdb/models"
)

type govcNopWriter struct{}

func (govcNopWriter) WriteShardBinary(shardID, ownerID uint64, points [][]byte) error { return nil }

// Witness for (*Service).Statistics/guard:read_of_Service.processors_holds_mu and
// (*NodeProcessor).Statistics/guard:read_of_queue.segments_holds_mu: the monitor goroutine calls Statistics while
// writes for new (node, shard) pairs register processors. The Go runtime detects an unsynchronised map
// iteration-and-write and kills the process ("fatal error: concurrent map iteration and map write"), which a
// deferred recover cannot catch - so the scenario runs in a child process and the parent reads its verdict.
func TestGovcReplay(t *testing.T) {
	if os.Getenv("GOVC_CHILD") == "1" {
		dir, _ := os.MkdirTemp("", "govc-hh")
		defer os.RemoveAll(dir)
		cfg := NewConfig()
		cfg.Enabled = true
		cfg.Dir = dir
		s := NewService(cfg, govcNopWriter{})
		if err := s.Open(); err != nil {
			fmt.Println("GOVC-CHILD-OPEN-FAILED", err)
			return
		}
		defer s.Close()
		stop := make(chan struct{})
		done := make(chan struct{})
		go func() {
			defer close(done)
			for {
				select {
				case <-stop:
					return
				default:
					s.Statistics(nil)
				}
			}
		}()
		pt := models.MustNewPoint("cpu", models.NewTags(map[string]string{"host": "a"}), models.Fields{"v": 1.0}, time.Unix(1, 0))
		deadline := time.Now().Add(3 * time.Second)
		for shard := uint64(1); time.Now().Before(deadline) && shard < 400; shard++ {
			s.WriteShard(shard, shard%7+1, []models.Point{pt})
		}
		close(stop)
		<-done
		fmt.Println("GOVC-CHILD-SURVIVED")
		return
	}
	cmd := exec.Command(os.Args[0], "-test.run", "^TestGovcReplay$", "-test.v")
	cmd.Env = append(os.Environ(), "GOVC_CHILD=1")
	out, _ := cmd.CombinedOutput()
	s := string(out)
	switch {
	case contains(s, "concurrent map"):
		fmt.Println("GOVC-REPLAY-PANIC: Statistics concurrently with WriteShard: fatal error: concurrent map iteration and map write (process killed)")
	case contains(s, "GOVC-CHILD-SURVIVED"):
		fmt.Println("GOVC-REPLAY-RETURNED")
	default:
		if len(s) > 300 {
			s = s[len(s)-300:]
		}
		fmt.Println("GOVC-REPLAY-RETURNED child did not finish:", s)
	}
}

func contains(s, sub string) bool {
	for i := 0; i+len(sub) <= len(s); i++ {
		if s[i:i+len(sub)] == sub {
			return true
		}
	}
	return false
}
