package query

import (
	"fmt"
	"sort"
	"testing"
)

// Witness for decodeTags/inv-keep:every_pair_is_stored (model: a key/value pair of the id is skipped). Tag sets
// with empty, ordinary and NUL-free odd values are encoded and decoded with the real functions.
func TestGovcReplay(t *testing.T) {
	defer func() {
		if r := recover(); r != nil {
			fmt.Printf("GOVC-REPLAY-PANIC: %v\n", r)
		}
	}()
	cases := []map[string]string{
		{"host": "a"},
		{"host": ""},
		{"host": "", "region": "west"},
		{"host": "a", "region": ""},
		{"a": "", "b": "", "c": ""},
		{"k": " ", "l": ","},
	}
	show := func(m map[string]string) string {
		var ks []string
		for k := range m {
			ks = append(ks, k)
		}
		sort.Strings(ks)
		s := ""
		for _, k := range ks {
			s += fmt.Sprintf("%q=%q ", k, m[k])
		}
		return s
	}
	for _, m := range cases {
		got := decodeTags(encodeTags(m))
		if show(got) != show(m) {
			fmt.Printf("GOVC-REPLAY-ENSURES-FALSE: decodeTags(encodeTags(%s)) = %s\n", show(m), show(got))
			return
		}
	}
	fmt.Println("GOVC-REPLAY-RETURNED")
}
