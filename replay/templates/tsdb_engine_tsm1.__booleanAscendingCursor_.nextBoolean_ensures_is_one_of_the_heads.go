package tsm1

import (
	"context"
	"fmt"
	"os"
	"path/filepath"
	"testing"

	"github.com/influxdata/influxdb/tsdb"
)

// Witness for the InfluxQL cursor overlay contracts (<type>{Ascending,Descending}Cursor.next<T>, model: after a
// point was returned one of the two heads is not strictly beyond it, or the head returned is not the first one).
// Two TSM blocks {1,2,3} and {5,6,7} and cache values {2,4,6,9} of the same key are read through the real cursors
// of all five types in both directions: one point per timestamp, strictly monotone, the cache value at 2, 4, 6, 9.
func TestGovcReplay(t *testing.T) {
	defer func() {
		if r := recover(); r != nil {
			fmt.Printf("GOVC-REPLAY-PANIC: %v\n", r)
		}
	}()
	type mk func(ts int64, fromCache bool) Value
	type nexter interface {
		next() (int64, interface{})
	}
	kinds := []struct {
		name string
		mk   mk
		open func(asc bool, seek int64, cv Values, kc *KeyCursor) nexter
	}{
		{"float", func(ts int64, c bool) Value {
			if c {
				return NewValue(ts, float64(ts)+100)
			}
			return NewValue(ts, float64(ts))
		}, func(asc bool, seek int64, cv Values, kc *KeyCursor) nexter {
			if asc {
				return newFloatAscendingCursor(seek, cv, kc)
			}
			return newFloatDescendingCursor(seek, cv, kc)
		}},
		{"integer", func(ts int64, c bool) Value {
			if c {
				return NewValue(ts, ts+100)
			}
			return NewValue(ts, ts)
		}, func(asc bool, seek int64, cv Values, kc *KeyCursor) nexter {
			if asc {
				return newIntegerAscendingCursor(seek, cv, kc)
			}
			return newIntegerDescendingCursor(seek, cv, kc)
		}},
		{"unsigned", func(ts int64, c bool) Value {
			if c {
				return NewValue(ts, uint64(ts)+100)
			}
			return NewValue(ts, uint64(ts))
		}, func(asc bool, seek int64, cv Values, kc *KeyCursor) nexter {
			if asc {
				return newUnsignedAscendingCursor(seek, cv, kc)
			}
			return newUnsignedDescendingCursor(seek, cv, kc)
		}},
		{"string", func(ts int64, c bool) Value {
			if c {
				return NewValue(ts, fmt.Sprint(ts+100))
			}
			return NewValue(ts, fmt.Sprint(ts))
		}, func(asc bool, seek int64, cv Values, kc *KeyCursor) nexter {
			if asc {
				return newStringAscendingCursor(seek, cv, kc)
			}
			return newStringDescendingCursor(seek, cv, kc)
		}},
		{"boolean", func(ts int64, c bool) Value { return NewValue(ts, c) },
			func(asc bool, seek int64, cv Values, kc *KeyCursor) nexter {
				if asc {
					return newBooleanAscendingCursor(seek, cv, kc)
				}
				return newBooleanDescendingCursor(seek, cv, kc)
			}},
	}
	want := []int64{1, 2, 3, 4, 5, 6, 7, 9}
	inCache := map[int64]bool{2: true, 4: true, 6: true, 9: true}
	for _, k := range kinds {
		dir, err := os.MkdirTemp("", "govc-cursor")
		if err != nil {
			fmt.Println("GOVC-REPLAY-RETURNED", err)
			return
		}
		defer os.RemoveAll(dir)
		key := []byte("cpu,host=a#!~#v")
		for id, block := range [][]int64{{1, 2, 3}, {5, 6, 7}} {
			f, err := os.Create(filepath.Join(dir, DefaultFormatFileName(id+1, 1)+".tsm"))
			if err != nil {
				fmt.Println("GOVC-REPLAY-RETURNED", err)
				return
			}
			w, err := NewTSMWriter(f)
			if err != nil {
				fmt.Println("GOVC-REPLAY-RETURNED", err)
				return
			}
			var vs []Value
			for _, ts := range block {
				vs = append(vs, k.mk(ts, false))
			}
			if err := w.Write(key, vs); err != nil {
				fmt.Println("GOVC-REPLAY-RETURNED", err)
				return
			}
			if err := w.WriteIndex(); err != nil {
				fmt.Println("GOVC-REPLAY-RETURNED", err)
				return
			}
			w.Close()
		}
		fs := NewFileStore(dir)
		if err := fs.Open(); err != nil {
			fmt.Println("GOVC-REPLAY-RETURNED", err)
			return
		}
		defer fs.Close()
		var cvals Values
		for _, ts := range []int64{2, 4, 6, 9} {
			cvals = append(cvals, k.mk(ts, true))
		}
		for _, asc := range []bool{true, false} {
			seek := int64(0)
			if !asc {
				seek = 100
			}
			kc := fs.KeyCursor(context.Background(), key, seek, asc)
			cur := k.open(asc, seek, cvals, kc)
			var ts []int64
			var vals []string
			for i := 0; i < 40; i++ {
				t, v := cur.next()
				if t == tsdb.EOF {
					break
				}
				ts = append(ts, t)
				vals = append(vals, fmt.Sprint(v))
			}
			kc.Close()
			exp := append([]int64(nil), want...)
			if !asc {
				for i, j := 0, len(exp)-1; i < j; i, j = i+1, j-1 {
					exp[i], exp[j] = exp[j], exp[i]
				}
			}
			ok := len(ts) == len(exp)
			for i := 0; ok && i < len(exp); i++ {
				if ts[i] != exp[i] || vals[i] != fmt.Sprint(k.mk(exp[i], inCache[exp[i]]).Value()) {
					ok = false
				}
			}
			if !ok {
				fmt.Printf("GOVC-REPLAY-ENSURES-FALSE: %s cursor ascending=%v over TSM {1,2,3},{5,6,7} and cache {2,4,6,9} returns timestamps %v values %v, want one point per timestamp %v with the cache values at 2,4,6,9\n", k.name, asc, ts, vals, exp)
				return
			}
		}
	}
	fmt.Println("GOVC-REPLAY-RETURNED")
}
