package tsm1

import (
	"fmt"
	"math"
	"testing"
)

// Witness for the float encoders' field-width obligations (leading_fits_its_5_bits, sigbits_in_range,
// significant_bits_fit, reused_window_loses_nothing): pairs and triples of float64 values whose XOR has exactly
// L leading and T trailing zero bits, for every L and a spread of T, through the streaming encoder and the batch
// encoder and back through both decoders.
func TestGovcReplay(t *testing.T) {
	defer func() {
		if r := recover(); r != nil {
			fmt.Printf("GOVC-REPLAY-PANIC: %v\n", r)
		}
	}()
	base := math.Float64bits(1.5)
	for L := 0; L < 64; L++ {
		for _, T := range []int{0, 1, 7, 31, 32, 63 - L} {
			if T < 0 || L+T > 63 {
				continue
			}
			delta := (uint64(1) << uint(63-L)) | (uint64(1) << uint(T))
			vals := []float64{math.Float64frombits(base), math.Float64frombits(base ^ delta), math.Float64frombits(base ^ delta ^ (delta >> 1 << 1)), math.Float64frombits(base)}
			ok := true
			for _, v := range vals {
				if math.IsNaN(v) {
					ok = false
				}
			}
			if !ok {
				continue
			}
			// streaming encoder -> iterator decoder
			enc := NewFloatEncoder()
			for _, v := range vals {
				enc.Write(v)
			}
			enc.Flush()
			b, err := enc.Bytes()
			if err != nil {
				continue
			}
			var dec FloatDecoder
			var got []float64
			if err := dec.SetBytes(b); err == nil {
				for dec.Next() {
					got = append(got, dec.Values())
				}
			}
			if dec.Error() != nil || fmt.Sprint(bitsOf(got)) != fmt.Sprint(bitsOf(vals)) {
				fmt.Printf("GOVC-REPLAY-ENSURES-FALSE: FloatEncoder/FloatDecoder: XOR with %d leading, %d trailing zeros: wrote %x read %x (%v)\n", L, T, bitsOf(vals), bitsOf(got), dec.Error())
				return
			}
			// batch encoder -> batch decoder
			bb, err := FloatArrayEncodeAll(append([]float64(nil), vals...), nil)
			if err != nil {
				continue
			}
			got2, err := FloatArrayDecodeAll(bb, nil)
			if err != nil || fmt.Sprint(bitsOf(got2)) != fmt.Sprint(bitsOf(vals)) {
				fmt.Printf("GOVC-REPLAY-ENSURES-FALSE: FloatArrayEncodeAll/DecodeAll: XOR with %d leading, %d trailing zeros: wrote %x read %x (%v)\n", L, T, bitsOf(vals), bitsOf(got2), err)
				return
			}
		}
	}
	fmt.Println("GOVC-REPLAY-RETURNED")
}

func bitsOf(a []float64) []uint64 {
	out := make([]uint64, len(a))
	for i, v := range a {
		out[i] = math.Float64bits(v)
	}
	return out
}
