package coordinator

import (
	"context"
	"errors"
	"fmt"
	"net"
	"testing"
	"time"

	"github.com/influxdata/influxdb/pkg/estimator/hll"
	"github.com/influxdata/influxdb/query"
	"github.com/influxdata/influxdb/services/meta"
	"github.com/influxdata/influxdb/storage/reads/datatypes"
	"github.com/influxdata/influxql"
)

var _ = context.Background
var _ = hll.NewDefaultPlus
var _ = query.IteratorOptions{}
var _ = datatypes.ReadFilterRequest{}
var _ = influxql.Measurement{}

type govcMC struct{ addr string }

func (c *govcMC) NodeID() uint64 { return 1 }
func (c *govcMC) DataNode(id uint64) (*meta.NodeInfo, error) {
	return &meta.NodeInfo{ID: id, TCPAddr: c.addr}, nil
}
func (c *govcMC) DataNodes() []meta.NodeInfo { return nil }
func (c *govcMC) DataNodeByTCPAddr(a string) (*meta.NodeInfo, error) { return nil, nil }

// Witness for coordinator.(*MetaExecutor).MapType/ensures:err_surfaces: the remote node answers with a response whose Err field is set
// (model: decode succeeds, resp.Err != nil).
func TestGovcReplay(t *testing.T) {
	defer func() {
		if r := recover(); r != nil {
			fmt.Printf("GOVC-REPLAY-PANIC: %v\n", r)
		}
	}()
	ln, err := net.Listen("tcp", "127.0.0.1:0")
	if err != nil {
		fmt.Println("GOVC-REPLAY-RETURNED (cannot listen)")
		return
	}
	defer ln.Close()
	go func() {
		conn, err := ln.Accept()
		if err != nil {
			return
		}
		defer conn.Close()
		var hdr [1]byte
		conn.Read(hdr[:]) // mux header
		ReadTLV(conn)     // the request
		EncodeTLV(conn, mapTypeResponseMessage, &MapTypeResponse{Err: errors.New("remote shard failure")})
		time.Sleep(200 * time.Millisecond)
	}()
	e := NewMetaExecutor(2*time.Second, 2*time.Second, time.Second, 4)
	e.MetaClient = &govcMC{addr: ln.Addr().String()}
	_, gotErr := e.MapType(2, []uint64{1}, &influxql.Measurement{Name: "m"}, "f")
	if gotErr == nil {
		fmt.Println("GOVC-REPLAY-ENSURES-FALSE: MapType returned a nil error although the remote response carried Err=\"remote shard failure\"")
		return
	}
	fmt.Println("GOVC-REPLAY-RETURNED", gotErr)
}
