package coordinator

import (
	"fmt"
	"testing"
)

// Witness for coordinator.(*WriteShardRequest).unmarshalPoints: a write-shard request that carries
// bytes which do not decode as a point (model: NewPointFromBytes returns an error for element k).
// The contract demands that no nil point is handed on to the store.
func TestGovcReplay(t *testing.T) {
	defer func() {
		if r := recover(); r != nil {
			fmt.Printf("GOVC-REPLAY-PANIC: %v\n", r)
		}
	}()
	var req WriteShardRequest
	req.SetShardID(1)
	req.pb.Points = append(req.pb.Points, []byte{0xff}) // not a marshalled point
	buf, err := req.MarshalBinary()
	if err != nil {
		fmt.Println("GOVC-REPLAY-RETURNED (marshal failed)")
		return
	}
	var got WriteShardRequest
	if err := got.UnmarshalBinary(buf); err != nil {
		fmt.Println("GOVC-REPLAY-RETURNED (request rejected at decode)")
		return
	}
	pts := got.Points()
	for i, p := range pts {
		if p == nil {
			fmt.Printf("GOVC-REPLAY-ENSURES-FALSE: Points()[%d] == nil is passed to TSDBStore.WriteToShard\n", i)
			return
		}
	}
	fmt.Println("GOVC-REPLAY-RETURNED")
}
