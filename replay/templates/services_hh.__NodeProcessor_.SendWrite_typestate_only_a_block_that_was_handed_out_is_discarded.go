package hh

import (
	"fmt"
	"io"
	"os"
	"testing"
)

// Witness for (*NodeProcessor).SendWrite/typestate:only_a_block_that_was_handed_out_is_discarded (model: Advance is
// reached on a path where Current returned an error, i.e. no block was handed out).
// Schedule: SendWrite's Current() finds the queue empty (io.EOF); before SendWrite goes on to Advance() - it holds
// no queue lock in between - a WriteShard appends a block; then Advance() runs. The appended block was never
// handed out, so it must still be the current one afterwards.
func TestGovcReplay(t *testing.T) {
	defer func() {
		if r := recover(); r != nil {
			fmt.Printf("GOVC-REPLAY-PANIC: %v\n", r)
		}
	}()
	dir, _ := os.MkdirTemp("", "govc-hh")
	defer os.RemoveAll(dir)
	q, err := newQueue(dir, 1024*1024, 1024*1024)
	if err != nil {
		fmt.Println("GOVC-REPLAY-RETURNED", err)
		return
	}
	if err := q.Open(); err != nil {
		fmt.Println("GOVC-REPLAY-RETURNED", err)
		return
	}
	defer q.Close()
	// one block goes through normally, so that the queue is "empty after use"
	q.Append([]byte("first block"))
	if b, err := q.Current(); err != nil || string(b) != "first block" {
		fmt.Println("GOVC-REPLAY-RETURNED", err)
		return
	}
	q.Advance()
	// SendWrite, step 1
	if _, err := q.Current(); err != io.EOF {
		fmt.Println("GOVC-REPLAY-RETURNED: queue not empty", err)
		return
	}
	// a hinted write arrives
	if err := q.Append([]byte("second block, never sent")); err != nil {
		fmt.Println("GOVC-REPLAY-RETURNED", err)
		return
	}
	// SendWrite, step 2 as the model has it: Advance although Current handed out no block
	q.Advance()
	b, err := q.Current()
	if err != nil || string(b) != "second block, never sent" {
		fmt.Printf("GOVC-REPLAY-ENSURES-FALSE: Advance() without a block handed out by Current(): a block appended after Current()==EOF - SendWrite holds no queue lock in between - is skipped or torn: Current() now returns %q, %v\n", b, err)
		return
	}
	fmt.Println("GOVC-REPLAY-RETURNED")
}
