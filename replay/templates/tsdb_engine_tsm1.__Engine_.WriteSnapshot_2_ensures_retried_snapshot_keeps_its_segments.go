package tsm1_test

import (
	"context"
	"fmt"
	"testing"

	"github.com/influxdata/influxdb/query"
	"github.com/influxdata/influxql"
)

// Witness for (*Engine).WriteSnapshot$2/ensures:retried_snapshot_keeps_its_segments (model: the snapshot handed
// out is the pending one, the segments are not the ones recorded with it). A snapshot attempt fails (snapshots
// disabled - any error of Compactor.WriteSnapshot does the same, e.g. a full disk), a write is acknowledged, the
// snapshot is retried and succeeds, the process restarts: the write acknowledged between the attempts must be
// read back.
func TestGovcReplay(t *testing.T) {
	defer func() {
		if r := recover(); r != nil {
			fmt.Printf("GOVC-REPLAY-PANIC: %v\n", r)
		}
	}()
	e := MustOpenEngine("inmem")
	defer e.Close()
	e.CreateSeriesIfNotExists([]byte("cpu,host=A"), []byte("cpu"), nil)
	e.MeasurementFields([]byte("cpu")).CreateFieldIfNotExists([]byte("value"), influxql.Float)
	if err := e.WritePointsString(`cpu,host=A value=1 1000000000`); err != nil {
		fmt.Println("GOVC-REPLAY-RETURNED", err)
		return
	}
	e.Compactor.DisableSnapshots()
	if err := e.WriteSnapshot(); err == nil {
		fmt.Println("GOVC-REPLAY-RETURNED: the first snapshot attempt did not fail")
		return
	}
	if err := e.WritePointsString(`cpu,host=A value=2 2000000000`); err != nil {
		fmt.Println("GOVC-REPLAY-RETURNED", err)
		return
	}
	e.Compactor.EnableSnapshots()
	if err := e.WriteSnapshot(); err != nil {
		fmt.Println("GOVC-REPLAY-RETURNED", err)
		return
	}
	// restart; Close does not flush the cache, so what is only in the cache must still be in the WAL
	if err := e.Reopen(); err != nil {
		fmt.Println("GOVC-REPLAY-RETURNED", err)
		return
	}
	itr, err := e.CreateIterator(context.Background(), "cpu", query.IteratorOptions{
		Expr: influxql.MustParseExpr(`value`), Dimensions: []string{"host"}, StartTime: influxql.MinTime, EndTime: influxql.MaxTime, Ascending: true})
	if err != nil {
		fmt.Println("GOVC-REPLAY-RETURNED", err)
		return
	}
	fitr := itr.(query.FloatIterator)
	var got []float64
	for {
		p, err := fitr.Next()
		if err != nil || p == nil {
			break
		}
		got = append(got, p.Value)
	}
	itr.Close()
	if len(got) != 2 || got[0] != 1 || got[1] != 2 {
		fmt.Printf("GOVC-REPLAY-ENSURES-FALSE: failed snapshot, acknowledged write of value=2, retried snapshot, restart: the engine returns %v, want [1 2] (the WAL segment holding the second write was removed with the retried snapshot)\n", got)
		return
	}
	fmt.Println("GOVC-REPLAY-RETURNED")
}
