package coordinator

// Demo for seeded defect C05d.
//
// Cluster: data nodes 1..6, the coordinating node is 1 and owns none of the
// shards of the queried range.  Two shards overlap the time range:
//
//	shard 10 owners 2,3,4
//	shard 20 owners 2,5,6
//
// ClusterShardMapper.MapShards puts both shards into one remote shard group
// read from node 2.  Fault sequence at query time: node 2 is down (connection
// refused), node 5 answers every request with an error, nodes 3, 4 and 6 are
// healthy.  The cost estimation (EXPLAIN / planning) must fail over:
//
//	attempt 0: node 2 {10,20}           -> fails, node 2 dirty
//	round 1  : node 3 {10}, node 5 {20} -> node 3 answers, node 5 fails, node 5 dirty
//	round 2  : node 3 {10}, node 6 {20} -> both answer
//
// The estimate has to cover shard 10 once and shard 20 once (NumShards == 2),
// exactly what a single node holding both shards would report.

import (
	"errors"
	"fmt"
	"net"
	"sort"
	"sync"
	"testing"
	"time"

	"github.com/influxdata/influxdb/query"
	"github.com/influxdata/influxdb/services/meta"
	"github.com/influxdata/influxdb/tsdb"
	"github.com/influxdata/influxql"
)

// demoC05dNode is a minimal data node: it speaks the coordinator TLV protocol
// and answers IteratorCost requests with one shard / ten series per shard id.
type demoC05dNode struct {
	id   uint64
	ln   net.Listener
	fail bool

	mu     sync.Mutex
	served [][]uint64 // shard ids of every request answered successfully
	asked  int        // number of requests received
}

func newDemoC05dNode(t *testing.T, id uint64, fail bool) *demoC05dNode {
	ln, err := net.Listen("tcp", "127.0.0.1:0")
	if err != nil {
		t.Fatal(err)
	}
	n := &demoC05dNode{id: id, ln: ln, fail: fail}
	go n.serve()
	return n
}

func (n *demoC05dNode) addr() string { return n.ln.Addr().String() }

func (n *demoC05dNode) serve() {
	for {
		conn, err := n.ln.Accept()
		if err != nil {
			return
		}
		go n.handle(conn)
	}
}

func (n *demoC05dNode) handle(conn net.Conn) {
	defer conn.Close()

	// Mux header byte written by the dialing side.
	var hdr [1]byte
	if _, err := conn.Read(hdr[:]); err != nil || hdr[0] != MuxHeader {
		return
	}

	for {
		typ, buf, err := ReadTLV(conn)
		if err != nil {
			return
		}
		if typ != iteratorCostRequestMessage {
			return
		}
		var req IteratorCostRequest
		if err := req.UnmarshalBinary(buf); err != nil {
			return
		}

		n.mu.Lock()
		n.asked++
		n.mu.Unlock()

		var resp IteratorCostResponse
		if n.fail {
			resp.Err = errors.New("engine is closed")
		} else {
			resp.Cost = query.IteratorCost{
				NumShards: int64(len(req.ShardIDs)),
				NumSeries: 10 * int64(len(req.ShardIDs)),
			}
			n.mu.Lock()
			n.served = append(n.served, append([]uint64(nil), req.ShardIDs...))
			n.mu.Unlock()
		}
		if err := EncodeTLV(conn, iteratorCostResponseMessage, &resp); err != nil {
			return
		}
	}
}

// demoC05dMeta is the meta data of the demo cluster.
type demoC05dMeta struct {
	MetaClient // unused methods

	local  uint64
	addrs  map[uint64]string
	groups []meta.ShardGroupInfo
}

func (c *demoC05dMeta) NodeID() uint64 { return c.local }

func (c *demoC05dMeta) DataNode(id uint64) (*meta.NodeInfo, error) {
	addr, ok := c.addrs[id]
	if !ok {
		return nil, fmt.Errorf("node %d not found", id)
	}
	return &meta.NodeInfo{ID: id, TCPAddr: addr}, nil
}

func (c *demoC05dMeta) DataNodes() []meta.NodeInfo {
	var a []meta.NodeInfo
	for id, addr := range c.addrs {
		a = append(a, meta.NodeInfo{ID: id, TCPAddr: addr})
	}
	sort.Slice(a, func(i, j int) bool { return a[i].ID < a[j].ID })
	return a
}

func (c *demoC05dMeta) DataNodeByTCPAddr(tcpAddr string) (*meta.NodeInfo, error) {
	for id, addr := range c.addrs {
		if addr == tcpAddr {
			return &meta.NodeInfo{ID: id, TCPAddr: addr}, nil
		}
	}
	return nil, nil
}

func (c *demoC05dMeta) ShardGroupsByTimeRange(database, policy string, min, max time.Time) ([]meta.ShardGroupInfo, error) {
	return c.groups, nil
}

type demoC05dLocalStore struct{}

func (demoC05dLocalStore) ShardGroup(ids []uint64) tsdb.ShardGroup { return nil }

func demoC05dOwners(ids ...uint64) []meta.ShardOwner {
	var a []meta.ShardOwner
	for _, id := range ids {
		a = append(a, meta.ShardOwner{NodeID: id})
	}
	return a
}

func TestDemoC05d_IteratorCostFailoverCountsEachShardOnce(t *testing.T) {
	// Node 2 is down: reserve a port and close it again so that dialing is refused.
	dead, err := net.Listen("tcp", "127.0.0.1:0")
	if err != nil {
		t.Fatal(err)
	}
	deadAddr := dead.Addr().String()
	dead.Close()

	n3 := newDemoC05dNode(t, 3, false)
	n4 := newDemoC05dNode(t, 4, false)
	n5 := newDemoC05dNode(t, 5, true) // answers with an error
	n6 := newDemoC05dNode(t, 6, false)
	nodes := []*demoC05dNode{n3, n4, n5, n6}
	defer func() {
		for _, n := range nodes {
			n.ln.Close()
		}
	}()

	mc := &demoC05dMeta{
		local: 1,
		addrs: map[uint64]string{
			1: "127.0.0.1:1", // the coordinating node itself, never dialed
			2: deadAddr,
			3: n3.addr(),
			4: n4.addr(),
			5: n5.addr(),
			6: n6.addr(),
		},
		groups: []meta.ShardGroupInfo{
			{
				ID:        1,
				StartTime: time.Unix(0, 0).UTC(),
				EndTime:   time.Unix(3600, 0).UTC(),
				Shards:    []meta.ShardInfo{{ID: 10, Owners: demoC05dOwners(2, 3, 4)}},
			},
			{
				ID:        2,
				StartTime: time.Unix(3600, 0).UTC(),
				EndTime:   time.Unix(7200, 0).UTC(),
				Shards:    []meta.ShardInfo{{ID: 20, Owners: demoC05dOwners(2, 5, 6)}},
			},
		},
	}

	executor := NewMetaExecutor(5*time.Second, time.Second, time.Minute, 10)
	executor.MetaClient = mc
	defer executor.Close()

	mapper := &ClusterShardMapper{
		MetaClient:   mc,
		TSDBStore:    demoC05dLocalStore{},
		MetaExecutor: executor,
	}

	m := &influxql.Measurement{Database: "db0", RetentionPolicy: "rp0", Name: "cpu"}
	source := Source{Database: "db0", RetentionPolicy: "rp0"}
	tr := influxql.TimeRange{Min: time.Unix(0, 0).UTC(), Max: time.Unix(7199, 0).UTC()}

	// The first owner of shard 10 is chosen at random.  Map until node 2 was
	// chosen: shard 20 then joins it (an owner already selected is preferred),
	// which gives one remote shard group {10,20} on node 2.
	var mapping *ClusterShardMapping
	for i := 0; i < 10000 && mapping == nil; i++ {
		sg, err := mapper.MapShards(influxql.Sources{m}, tr, query.SelectOptions{})
		if err != nil {
			t.Fatal(err)
		}
		a := sg.(*ClusterShardMapping)
		if rs := a.RemoteShardMapping[source]; len(rs) == 1 && rs[0].nodeID == 2 && len(rs[0].shards) == 2 {
			mapping = a
		}
	}
	if mapping == nil {
		t.Fatal("mapper never produced the layout {10,20} on node 2")
	}
	defer mapping.Close()

	opt := query.IteratorOptions{
		Expr:      &influxql.VarRef{Val: "value", Type: influxql.Float},
		StartTime: influxql.MinTime,
		EndTime:   influxql.MaxTime,
		Ascending: true,
	}

	cost, err := mapping.IteratorCost(m, opt)
	if err != nil {
		t.Fatalf("shards 10 and 20 both have a live healthy owner, the estimation must succeed: %v", err)
	}

	for _, n := range nodes {
		n.mu.Lock()
		t.Logf("node %d: asked %d times, answered for shards %v", n.id, n.asked, n.served)
		n.mu.Unlock()
	}
	t.Logf("cost = %+v", cost)

	// Reference: a single node holding shards 10 and 20 reports 2 shards, 20 series.
	if cost.NumShards != 2 || cost.NumSeries != 20 {
		t.Fatalf("cost estimation counted a shard more than once (or left one out): got NumShards=%d NumSeries=%d, want NumShards=2 NumSeries=20",
			cost.NumShards, cost.NumSeries)
	}
}

// Witness for coordinator.__remoteShardGroup_.IteratorCost_typestate_a_retry_round_collects_into_an_empty_list. The scenario above was written by the seeding sub-agent for seed C05d and is kept verbatim;
// it runs the real code.
func TestGovcReplay(t *testing.T) {
	if !t.Run("scenario", TestDemoC05d_IteratorCostFailoverCountsEachShardOnce) {
		fmt.Println("GOVC-REPLAY-ENSURES-FALSE: a shard was counted twice: the costs collected in a failed retry round were returned together with those of the round that succeeded (see the subtest output above)")
		return
	}
	fmt.Println("GOVC-REPLAY-RETURNED")
}
