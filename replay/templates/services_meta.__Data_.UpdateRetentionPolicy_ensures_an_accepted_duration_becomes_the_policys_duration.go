package meta_test

import (
	"fmt"
	"sort"
	"testing"
	"time"

	"github.com/influxdata/influxdb/services/meta"
)

// demoC17dPass replays one enforcement pass of services/retention.Service.run
// for one data node against the metadata: shards of groups already marked
// deleted (RetentionPolicyInfo.DeletedShardGroups) plus shards of groups that
// are expired at now (RetentionPolicyInfo.ExpiredShardGroups, which the
// service marks deleted through DeleteShardGroup), intersected with the
// node's local shards. It returns the group ids handed to DeleteShardGroup
// and the shard ids handed to TSDBStore.DeleteShard.
func demoC17dPass(t *testing.T, data *meta.Data, now time.Time, local map[uint64]bool) (groups, shards []uint64) {
	t.Helper()
	candidates := make(map[uint64]bool)
	for _, d := range data.CloneDatabases() {
		for _, r := range d.RetentionPolicies {
			for _, g := range r.DeletedShardGroups() {
				for _, sh := range g.Shards {
					candidates[sh.ID] = true
				}
			}
			for _, g := range r.ExpiredShardGroups(now) {
				if err := data.DeleteShardGroup(d.Name, r.Name, g.ID); err != nil {
					t.Fatalf("DeleteShardGroup(%d): %v", g.ID, err)
				}
				groups = append(groups, g.ID)
				for _, sh := range g.Shards {
					candidates[sh.ID] = true
				}
			}
		}
	}
	for id := range local {
		if candidates[id] {
			shards = append(shards, id)
			delete(local, id)
		}
	}
	sort.Slice(shards, func(i, j int) bool { return shards[i] < shards[j] })
	return groups, shards
}

// A policy whose duration is altered to 0 (ALTER RETENTION POLICY ... DURATION
// INF) after shard groups exist is infinite from then on: no enforcement pass,
// however late, may mark one of its groups deleted or remove one of its shards.
func TestDemoC17d_PolicyAlteredToInfiniteNeverExpires(t *testing.T) {
	must := func(err error) {
		t.Helper()
		if err != nil {
			t.Fatal(err)
		}
	}

	data := &meta.Data{}
	must(data.CreateDataNode("a:8086", "a:8088"))
	must(data.CreateDatabase("db"))
	rp := meta.NewRetentionPolicyInfo("rp")
	rp.Duration = 2 * time.Hour
	rp.ShardGroupDuration = time.Hour
	must(data.CreateRetentionPolicy("db", rp, true))

	t0 := time.Date(2020, 1, 6, 0, 0, 0, 0, time.UTC)
	must(data.CreateShardGroup("db", "rp", t0.Add(30*time.Minute))) // [00:00, 01:00)
	must(data.CreateShardGroup("db", "rp", t0.Add(90*time.Minute))) // [01:00, 02:00)

	rpi, err := data.RetentionPolicy("db", "rp")
	must(err)
	if len(rpi.ShardGroups) != 2 {
		t.Fatalf("expected 2 shard groups, got %d", len(rpi.ShardGroups))
	}
	local := make(map[uint64]bool)
	for _, g := range rpi.ShardGroups {
		for _, sh := range g.Shards {
			local[sh.ID] = true
		}
	}
	nLocal := len(local)

	// 02:30: nothing is older than the two hours of retention yet.
	if groups, shards := demoC17dPass(t, data, t0.Add(150*time.Minute), local); len(groups) != 0 || len(shards) != 0 {
		t.Fatalf("pass before expiry removed groups %v shards %v", groups, shards)
	}

	// The operator makes the policy infinite; the update is accepted.
	rpu := &meta.RetentionPolicyUpdate{}
	rpu.SetDuration(0)
	must(data.UpdateRetentionPolicy("db", "rp", rpu, false))

	rpi, err = data.RetentionPolicy("db", "rp")
	must(err)
	if rpi.Duration != 0 {
		t.Errorf("policy duration after altering it to infinite = %s, want 0", rpi.Duration)
	}

	// Enforcement passes long after the old two-hour horizon.
	for _, now := range []time.Time{t0.Add(3*time.Hour + time.Minute), t0.Add(5 * time.Hour), t0.Add(365 * 24 * time.Hour)} {
		if exp := rpi.ExpiredShardGroups(now); len(exp) != 0 {
			t.Errorf("at %s: %d shard group(s) of an infinite policy reported expired", now.Format(time.RFC3339), len(exp))
		}
		groups, shards := demoC17dPass(t, data, now, local)
		if len(groups) != 0 || len(shards) != 0 {
			t.Errorf("at %s: infinite policy: shard groups %v marked deleted, local shards %v removed",
				now.Format(time.RFC3339), groups, shards)
		}
	}
	if len(local) != nLocal {
		t.Errorf("node holds %d of its %d shards after the passes; an infinite policy must keep all of them", len(local), nLocal)
	}
}

// Witness for (*Data).UpdateRetentionPolicy/ensures:an_accepted_duration_becomes_the_policys_duration. The scenario above
// was written by the seeding sub-agent for seed C17d and is kept verbatim; it runs the real metadata code.
func TestGovcReplay(t *testing.T) {
	if !t.Run("scenario", TestDemoC17d_PolicyAlteredToInfiniteNeverExpires) {
		fmt.Println("GOVC-REPLAY-ENSURES-FALSE: an accepted ALTER to an infinite duration left the old finite duration in place; the policy's groups still expire (see the subtest output above)")
		return
	}
	fmt.Println("GOVC-REPLAY-RETURNED")
}
