package coordinator_test

import (
	"fmt"
	"testing"
	"time"

	"github.com/influxdata/influxdb/coordinator"
	"github.com/influxdata/influxdb/models"
	"github.com/influxdata/influxdb/services/meta"
)

// demoC08cMetaClient is a PointsWriter meta client backed by a real meta.Data,
// behaving like meta.Client.CreateShardGroup: return the group the metadata
// designates for the timestamp, creating it first when there is none.
type demoC08cMetaClient struct {
	data    *meta.Data
	created int
}

func (m *demoC08cMetaClient) NodeID() uint64 { return 1 }

func (m *demoC08cMetaClient) Database(name string) *meta.DatabaseInfo {
	return m.data.Database(name)
}

func (m *demoC08cMetaClient) RetentionPolicy(database, policy string) (*meta.RetentionPolicyInfo, error) {
	return m.data.RetentionPolicy(database, policy)
}

func (m *demoC08cMetaClient) CreateShardGroup(database, policy string, timestamp time.Time) (*meta.ShardGroupInfo, error) {
	if sg, _ := m.data.ShardGroupByTimestamp(database, policy, timestamp); sg != nil {
		return sg, nil
	}
	if err := m.data.CreateShardGroup(database, policy, timestamp); err != nil {
		return nil, err
	}
	m.created++
	return m.data.ShardGroupByTimestamp(database, policy, timestamp)
}

func newDemoC08cData(t *testing.T) *meta.Data {
	t.Helper()
	data := &meta.Data{Index: 1}
	for i := 1; i <= 2; i++ {
		if err := data.CreateDataNode(fmt.Sprintf("n%d:8086", i), fmt.Sprintf("n%d:8088", i)); err != nil {
			t.Fatal(err)
		}
	}
	if err := data.CreateDatabase("db0"); err != nil {
		t.Fatal(err)
	}
	// Infinite retention, one-week groups, replication 1 on two nodes => two shards per group.
	rpi := &meta.RetentionPolicyInfo{Name: "rp0", ReplicaN: 1, Duration: 0, ShardGroupDuration: 7 * 24 * time.Hour}
	if err := data.CreateRetentionPolicy("db0", rpi, true); err != nil {
		t.Fatal(err)
	}
	return data
}

// checkDemoC08cRouting asserts the routing property for the result of MapShards: nothing of the
// batch is lost, dropped or duplicated, and each point sits in the shard of the group the metadata
// designates for its timestamp, chosen by the series key.
func checkDemoC08cRouting(t *testing.T, data *meta.Data, pts []models.Point, sm *coordinator.ShardMapping) {
	t.Helper()
	if len(sm.Dropped) != 0 {
		for _, p := range sm.Dropped {
			t.Errorf("point %q within retention was reported as dropped", p.String())
		}
	}
	seen := map[string]uint64{}
	for id, ps := range sm.Points {
		for _, p := range ps {
			if prev, ok := seen[p.String()]; ok {
				t.Errorf("point %q mapped twice (shards %d and %d)", p.String(), prev, id)
			}
			seen[p.String()] = id
		}
	}
	for _, p := range pts {
		sg, err := data.ShardGroupByTimestamp("db0", "rp0", p.Time())
		if err != nil {
			t.Fatal(err)
		}
		if sg == nil {
			t.Errorf("metadata has no shard group for %q: the group it needs was never created", p.String())
			continue
		}
		want := sg.ShardFor(p).ID
		got, ok := seen[p.String()]
		if !ok {
			t.Errorf("point %q is in no shard of the mapping (want shard %d of group %d)", p.String(), want, sg.ID)
		} else if got != want {
			t.Errorf("point %q mapped to shard %d, want shard %d of group %d", p.String(), got, want, sg.ID)
		}
	}
}

func demoC08cPoint(series string, v float64, ts time.Time) models.Point {
	return models.MustNewPoint("cpu", models.NewTags(map[string]string{"host": series}), models.Fields{"value": v}, ts)
}

// A batch whose timestamps are not in time order and skip a week: the groups are created lazily,
// first week 0 and week 2, and then a point of week 1 arrives, in the hole between them.
func TestDemoC08c_GapBetweenLazilyCreatedGroups(t *testing.T) {
	data := newDemoC08cData(t)
	mc := &demoC08cMetaClient{data: data}
	w := coordinator.NewPointsWriter()
	w.MetaClient = mc

	week := 7 * 24 * time.Hour
	base := time.Unix(0, 0).UTC().Add(2600 * week).Truncate(week) // a shard group boundary
	pts := []models.Point{
		demoC08cPoint("a", 1, base.Add(time.Hour)),
		demoC08cPoint("b", 2, base.Add(2*week+time.Hour)),
		demoC08cPoint("c", 3, base.Add(week+time.Hour)), // hole between the two groups above
		demoC08cPoint("d", 4, base.Add(week)),           // exactly at the start of the missing group
	}

	sm, err := w.MapShards(&coordinator.WritePointsRequest{Database: "db0", RetentionPolicy: "rp0", Points: pts})
	if err != nil {
		t.Fatal(err)
	}
	if mc.created != 3 {
		t.Errorf("created %d shard groups, want 3 (weeks 0, 1 and 2)", mc.created)
	}
	checkDemoC08cRouting(t, data, pts, sm)
}

// A time-ordered batch that straddles the truncation time of a truncated group: the points at
// or after the truncation time belong to the successor group.
func TestDemoC08c_BatchStraddlesTruncation(t *testing.T) {
	data := newDemoC08cData(t)
	mc := &demoC08cMetaClient{data: data}
	w := coordinator.NewPointsWriter()
	w.MetaClient = mc

	day := 24 * time.Hour
	week := 7 * day
	base := time.Unix(0, 0).UTC().Add(2600 * week).Truncate(week) // a shard group boundary

	// History: week group created, then truncated at day 3 (e.g. a data node was added).
	if err := data.CreateShardGroup("db0", "rp0", base.Add(time.Hour)); err != nil {
		t.Fatal(err)
	}
	data.TruncateShardGroups(base.Add(3 * day))

	pts := []models.Point{
		demoC08cPoint("a", 1, base.Add(1*day)),
		demoC08cPoint("b", 2, base.Add(2*day)),
		demoC08cPoint("a", 3, base.Add(3*day)), // truncation time itself: successor group
		demoC08cPoint("b", 4, base.Add(5*day)),
	}

	sm, err := w.MapShards(&coordinator.WritePointsRequest{Database: "db0", RetentionPolicy: "rp0", Points: pts})
	if err != nil {
		t.Fatal(err)
	}
	if mc.created != 1 {
		t.Errorf("created %d shard groups, want 1 (the successor of the truncated group)", mc.created)
	}
	checkDemoC08cRouting(t, data, pts, sm)
}

// Witness for (sgList).Covers/ensures:covered_means_some_group_designates (model: Covers answers true for a time no group of the list designates). The scenario above (written by the seeding sub-agent for seed C08c, kept verbatim) is run as is.
func TestGovcReplay(t *testing.T) {
	ok := true
	for _, f := range []struct {
		n string
		f func(*testing.T)
	}{{"gap", TestDemoC08c_GapBetweenLazilyCreatedGroups}, {"truncation", TestDemoC08c_BatchStraddlesTruncation}} {
		ok = t.Run(f.n, f.f) && ok
	}
	if !ok {
		fmt.Println("GOVC-REPLAY-ENSURES-FALSE: a point inside the retention period is dropped because the group it needs was never created (see the subtest output above)")
		return
	}
	fmt.Println("GOVC-REPLAY-RETURNED")
}
