package tsm1_test

// Seeded-bug demonstration for property C01 ("acknowledged writes survive any
// crash and restart"), seed C01b.
//
// The test drives a real tsm1.Engine through: acknowledged writes -> cache
// snapshot (Engine.WriteSnapshot).  A tsdb.FileStoreObserver is used as the
// crash-point hook: FileStore.replace calls FileFinishing(path) immediately
// BEFORE it renames the freshly written "*.tsm.tmp" snapshot file to its live
// "*.tsm" name.  At that instant the observer copies the shard's data and WAL
// directories: this copy is exactly what a process crash at this point would
// leave on disk.  A second engine is then opened on the copy ("restart") and
// every acknowledged point must be readable with the value written.
//
// Two crash images are checked:
//   - crash between "snapshot file written" and "snapshot file renamed";
//   - FileStore.Replace fails (observer returns an error), WriteSnapshot
//     returns the error, and the process crashes afterwards.

import (
	"context"
	"errors"
	"fmt"
	"io"
	"math"
	"os"
	"path/filepath"
	"strings"
	"testing"
	"time"

	"github.com/influxdata/influxdb/models"
	"github.com/influxdata/influxdb/tsdb"
	"github.com/influxdata/influxdb/tsdb/engine/tsm1"
	"github.com/influxdata/influxdb/tsdb/index/inmem"
)

type demoC01bSeriesIDSets []*tsdb.SeriesIDSet

func (a demoC01bSeriesIDSets) ForEach(f func(ids *tsdb.SeriesIDSet)) error {
	for _, v := range a {
		f(v)
	}
	return nil
}

// demoC01bObserver is the crash-point hook.
type demoC01bObserver struct {
	onFinishing func(path string) error
}

func (o *demoC01bObserver) FileFinishing(path string) error {
	if o.onFinishing != nil {
		return o.onFinishing(path)
	}
	return nil
}
func (o *demoC01bObserver) FileUnlinking(path string) error { return nil }

// demoC01bOpenEngine opens a tsm1 engine whose TSM files live in root/data and
// whose WAL lives in root/wal.  The series file and the (in-memory) index are
// put in a separate scratch directory: the test reads by series key straight
// from the file store and the cache, so the index content is irrelevant.
func demoC01bOpenEngine(t *testing.T, root string, obs tsdb.FileStoreObserver) (*tsm1.Engine, func()) {
	t.Helper()

	scratch, err := os.MkdirTemp("", "demo-c01b-idx-")
	if err != nil {
		t.Fatal(err)
	}

	sfile := tsdb.NewSeriesFile(filepath.Join(scratch, tsdb.SeriesFileDirectory))
	if err := sfile.Open(); err != nil {
		t.Fatal(err)
	}

	opt := tsdb.NewEngineOptions()
	opt.IndexVersion = tsdb.InmemIndexName
	opt.InmemIndex = inmem.NewIndex("db0", sfile)
	opt.FileStoreObserver = obs
	seriesIDs := tsdb.NewSeriesIDSet()
	opt.SeriesIDSets = demoC01bSeriesIDSets([]*tsdb.SeriesIDSet{seriesIDs})

	idx := tsdb.MustOpenIndex(1, "db0", filepath.Join(scratch, "index"), seriesIDs, sfile, opt)

	e := tsm1.NewEngine(1, idx, filepath.Join(root, "data"), filepath.Join(root, "wal"), sfile, opt).(*tsm1.Engine)
	if err := e.Open(); err != nil {
		t.Fatalf("open engine on %s: %v", root, err)
	}

	return e, func() {
		e.Close()
		idx.Close()
		sfile.Close()
		os.RemoveAll(scratch)
	}
}

func demoC01bCopyDir(src, dst string) error {
	return filepath.Walk(src, func(p string, info os.FileInfo, err error) error {
		if err != nil {
			return err
		}
		rel, err := filepath.Rel(src, p)
		if err != nil {
			return err
		}
		target := filepath.Join(dst, rel)
		if info.IsDir() {
			return os.MkdirAll(target, 0777)
		}
		in, err := os.Open(p)
		if err != nil {
			return err
		}
		defer in.Close()
		out, err := os.Create(target)
		if err != nil {
			return err
		}
		if _, err := io.Copy(out, in); err != nil {
			out.Close()
			return err
		}
		return out.Close()
	})
}

// demoC01bCrashImage copies root/data and root/wal to a new directory.
func demoC01bCrashImage(root string) (string, error) {
	img, err := os.MkdirTemp("", "demo-c01b-img-")
	if err != nil {
		return "", err
	}
	for _, d := range []string{"data", "wal"} {
		if err := demoC01bCopyDir(filepath.Join(root, d), filepath.Join(img, d)); err != nil {
			return "", err
		}
	}
	return img, nil
}

// demoC01bRead returns every float value readable for key: TSM files first,
// then the cache on top (the same precedence queries use).
func demoC01bRead(t *testing.T, e *tsm1.Engine, key []byte) map[int64]float64 {
	t.Helper()
	got := map[int64]float64{}

	c := e.KeyCursor(context.Background(), key, math.MinInt64, true)
	for {
		var buf []tsm1.FloatValue
		vals, err := c.ReadFloatBlock(&buf)
		if err != nil {
			t.Fatalf("read block: %v", err)
		}
		if len(vals) == 0 {
			break
		}
		for _, v := range vals {
			got[v.UnixNano()] = v.Value().(float64)
		}
		c.Next()
	}
	c.Close()

	for _, v := range e.Cache.Values(key) {
		got[v.UnixNano()] = v.Value().(float64)
	}
	return got
}

func demoC01bListing(root string) string {
	var names []string
	filepath.Walk(root, func(p string, info os.FileInfo, err error) error {
		if err == nil && !info.IsDir() {
			rel, _ := filepath.Rel(root, p)
			names = append(names, fmt.Sprintf("%s(%d)", rel, info.Size()))
		}
		return nil
	})
	return strings.Join(names, " ")
}

func demoC01bCheckRestart(t *testing.T, img string, key []byte, want map[int64]float64) {
	t.Helper()
	listing := demoC01bListing(img)

	e, closeFn := demoC01bOpenEngine(t, img, nil)
	defer closeFn()

	got := demoC01bRead(t, e, key)
	for ts, w := range want {
		g, ok := got[ts]
		if !ok {
			t.Errorf("acknowledged point %s @%d = %v is LOST after crash+restart (crash image: %s)", key, ts, w, listing)
			continue
		}
		if g != w {
			t.Errorf("acknowledged point %s @%d: got %v, want %v", key, ts, g, w)
		}
	}
}

func TestDemoC01b_SnapshotCommitCrash(t *testing.T) {
	key := []byte("cpu,host=A#!~#value")
	write := func(t *testing.T, e *tsm1.Engine, want map[int64]float64, sec int64, v float64) {
		t.Helper()
		p := models.MustNewPoint("cpu", models.NewTags(map[string]string{"host": "A"}),
			models.Fields{"value": v}, time.Unix(sec, 0))
		if err := e.WritePoints([]models.Point{p}); err != nil {
			t.Fatalf("write: %v", err)
		}
		// WritePoints returned nil: the point is acknowledged.
		want[time.Unix(sec, 0).UnixNano()] = v
	}

	// Crash after the snapshot TSM file has been written and fsynced under its
	// temporary name, right before FileStore.replace renames it.
	t.Run("crash_before_rename", func(t *testing.T) {
		root, err := os.MkdirTemp("", "demo-c01b-")
		if err != nil {
			t.Fatal(err)
		}
		defer os.RemoveAll(root)

		var img string
		obs := &demoC01bObserver{}
		obs.onFinishing = func(path string) error {
			if img == "" && strings.HasSuffix(path, ".tsm.tmp") {
				var err error
				if img, err = demoC01bCrashImage(root); err != nil {
					return err
				}
			}
			return nil
		}

		e, closeFn := demoC01bOpenEngine(t, root, obs)
		defer closeFn()

		want := map[int64]float64{}
		write(t, e, want, 1, 1.1)
		write(t, e, want, 2, 2.2)
		write(t, e, want, 3, 3.3)

		if err := e.WriteSnapshot(); err != nil {
			t.Fatalf("snapshot: %v", err)
		}
		if img == "" {
			t.Fatal("crash point not reached: observer never saw the snapshot file")
		}
		defer os.RemoveAll(img)

		demoC01bCheckRestart(t, img, key, want)
	})

	// FileStore.Replace fails: WriteSnapshot reports the error and the snapshot
	// is kept in memory for a retry.  The process then crashes before any retry.
	t.Run("crash_after_failed_install", func(t *testing.T) {
		root, err := os.MkdirTemp("", "demo-c01b-")
		if err != nil {
			t.Fatal(err)
		}
		defer os.RemoveAll(root)

		obs := &demoC01bObserver{}
		obs.onFinishing = func(path string) error {
			if strings.HasSuffix(path, ".tsm.tmp") {
				return errors.New("demo: refusing new file")
			}
			return nil
		}

		e, closeFn := demoC01bOpenEngine(t, root, obs)
		defer closeFn()

		want := map[int64]float64{}
		write(t, e, want, 1, 1.1)
		write(t, e, want, 2, 2.2)

		if err := e.WriteSnapshot(); err == nil {
			t.Fatal("expected WriteSnapshot to fail")
		}

		// Still readable in the running process (snapshot kept for retry).
		if got := demoC01bRead(t, e, key); len(got) != len(want) {
			t.Fatalf("running engine lost data after failed snapshot: got %v want %v", got, want)
		}

		img, err := demoC01bCrashImage(root)
		if err != nil {
			t.Fatal(err)
		}
		defer os.RemoveAll(img)

		demoC01bCheckRestart(t, img, key, want)
	})
}

// Witness for (*Engine).writeSnapshotAndCommit/typestate:wal_removed_only_after_install and its siblings (model:
// the closed WAL segments are removed, or the cache snapshot cleared, before the snapshot file is installed).
// The scenario above (written by the seeding sub-agent for seed C01b, kept verbatim) takes a crash image of the
// shard directory at the instant the snapshot file is about to be renamed into place, and one after a failed
// install, restarts on the image and reads every acknowledged point back.
func TestGovcReplay(t *testing.T) {
	if !t.Run("crash-during-snapshot-commit", TestDemoC01b_SnapshotCommitCrash) {
		fmt.Println("GOVC-REPLAY-ENSURES-FALSE: an acknowledged point is lost when the process dies during the snapshot commit (see the subtest output above)")
		return
	}
	fmt.Println("GOVC-REPLAY-RETURNED")
}
