package meta

import (
	"fmt"
	"testing"

	"github.com/gogo/protobuf/proto"
	"github.com/hashicorp/raft"
	internal "github.com/influxdata/influxdb/services/meta/internal"
)

// Witness for validateCommand/ensures:accepted_command_is_applicable: for every command type number 0..63, a
// command that names the type but carries no payload extension, and a type-7 command with its payload. Whatever
// validateCommand (the execute endpoint's only check) accepts is handed to storeFSM.Apply on a fresh store, as
// every replica would do (and would do again on every log replay).
func TestGovcReplay(t *testing.T) {
	try := func(what string, b []byte) (bad bool) {
		if err := validateCommand(b); err != nil {
			return false
		}
		defer func() {
			if r := recover(); r != nil {
				fmt.Printf("GOVC-REPLAY-PANIC: %s accepted by validateCommand, then storeFSM.Apply panics: %v\n", what, r)
				bad = true
			}
		}()
		s := &store{data: &Data{}, dataChanged: make(chan struct{}), config: &Config{}, raftState: &raftState{}}
		(*storeFSM)(s).Apply(&raft.Log{Data: b, Index: 1, Term: 1})
		return false
	}
	for n := int32(0); n < 64; n++ {
		typ := internal.Command_Type(n)
		b, err := proto.Marshal(&internal.Command{Type: &typ})
		if err != nil {
			continue
		}
		if try(fmt.Sprintf("command type %d without payload", n), b) {
			return
		}
	}
	typ := internal.Command_SetDefaultRetentionPolicyCommand
	cmd := &internal.Command{Type: &typ}
	if err := proto.SetExtension(cmd, internal.E_SetDefaultRetentionPolicyCommand_Command,
		&internal.SetDefaultRetentionPolicyCommand{Database: proto.String("db"), Name: proto.String("rp")}); err == nil {
		if b, err := proto.Marshal(cmd); err == nil && try("SetDefaultRetentionPolicyCommand (type 7, no case in Apply)", b) {
			return
		}
	}
	fmt.Println("GOVC-REPLAY-RETURNED")
}
