package meta

// govc-replay: schedule-point services/meta/store.go peers <<defer s.mu.RUnlock()>>

import (
	"fmt"
	"testing"
	"time"
)

// Witness for (*store).peers/guard:does_not_take_store_mu_again_through_leader. peers holds the store's read lock and
// calls leader, which takes it again; a writer that asks for the lock in between (the state machine applying a
// command, close, a leadership change) blocks both for ever. Schedule: a writer arrives while peers holds the lock.
func TestGovcReplay(t *testing.T) {
	s := &store{raftState: &raftState{}}
	paused, goOn := make(chan struct{}), make(chan struct{})
	GovcSchedulePoint = func(fn string) {
		if fn == "peers" {
			close(paused)
			<-goOn
		}
	}
	defer func() { GovcSchedulePoint = func(string) {} }()

	done := make(chan struct{})
	go func() { s.peers(); close(done) }()
	<-paused
	go func() { s.mu.Lock(); s.mu.Unlock() }() // any writer of the store
	time.Sleep(200 * time.Millisecond)
	close(goOn)
	select {
	case <-done:
		fmt.Println("GOVC-REPLAY-RETURNED")
	case <-time.After(5 * time.Second):
		fmt.Println("GOVC-REPLAY-ENSURES-FALSE: peers did not return: it holds the store's read lock and waits for it again (in leader) behind a writer, which waits for peers")
	}
}
