package meta

import (
	"fmt"
	"testing"
	"time"

	"golang.org/x/crypto/bcrypt"
)

// Witness for (*Client).Authenticate/ensures:old_credentials_stop_working (model: success on the cached path with
// an entry whose bhash is not the user's current hash). An Authenticate with the old password is in flight (bcrypt
// takes tens of milliseconds) while the metadata carrying the password change arrives and the cache is pruned -
// exactly what pollForUpdates does: c.cacheData = data; c.updateAuthCache() under c.mu. Afterwards the old
// password must be refused.
func TestGovcReplay(t *testing.T) {
	defer func() {
		if r := recover(); r != nil {
			fmt.Printf("GOVC-REPLAY-PANIC: %v\n", r)
		}
	}()
	oldHash, _ := bcrypt.GenerateFromPassword([]byte("old-password"), 12)
	newHash, _ := bcrypt.GenerateFromPassword([]byte("new-password"), 4)
	c := NewClient(NewConfig())
	c.cacheData = &Data{Users: []UserInfo{{Name: "u", Hash: string(oldHash)}}}
	started := make(chan struct{})
	done := make(chan error, 1)
	go func() {
		close(started)
		_, err := c.Authenticate("u", "old-password") // legitimate: this is still the password when the call starts
		done <- err
	}()
	<-started
	time.Sleep(20 * time.Millisecond) // the call above is inside bcrypt now (cost 12 takes > 100 ms)
	c.mu.Lock()
	c.cacheData = &Data{Users: []UserInfo{{Name: "u", Hash: string(newHash)}}} // the password change reaches this node
	c.updateAuthCache()
	c.mu.Unlock()
	<-done
	if _, err := c.Authenticate("u", "old-password"); err == nil {
		fmt.Println("GOVC-REPLAY-ENSURES-FALSE: after the password change reached the node and the auth cache was pruned, the OLD password still authenticates through the credential cache")
		return
	}
	fmt.Println("GOVC-REPLAY-RETURNED")
}
