package tsm1_test

import (
	"fmt"
	"bytes"
	"io/ioutil"
	"os"
	"reflect"
	"testing"

	"github.com/influxdata/influxdb/tsdb/engine/tsm1"
)

// TestDemoC13c_WALBooleanEntryRoundTrip checks that a boolean write entry
// survives write-ahead-log encoding, whatever the previous contents of the
// (re-used, pooled) destination buffer handed to Encode are.
func TestDemoC13c_WALBooleanEntryRoundTrip(t *testing.T) {
	key := "cpu,host=A#!~#up"
	exp := map[string][]tsm1.Value{
		key: {
			tsm1.NewValue(1, true),
			tsm1.NewValue(2, false),
			tsm1.NewValue(3, false),
			tsm1.NewValue(4, true),
			tsm1.NewValue(5, false),
		},
	}

	entry := &tsm1.WriteWALEntry{Values: exp}

	// WAL.writeToLog takes the destination from a pool whose buffers are not
	// zeroed ("Items returned may not be in the zero state").  Model a buffer
	// that previously held some other entry.
	dst := bytes.Repeat([]byte{0x01}, entry.MarshalSize()+32)

	b, err := entry.Encode(dst)
	if err != nil {
		t.Fatalf("unexpected encode error: %v", err)
	}

	got := &tsm1.WriteWALEntry{Values: map[string][]tsm1.Value{}}
	if err := got.UnmarshalBinary(b); err != nil {
		t.Fatalf("unexpected decode error: %v", err)
	}

	if !reflect.DeepEqual(got.Values, exp) {
		t.Fatalf("boolean WAL entry did not survive Encode/UnmarshalBinary:\n got=%v\n exp=%v", got.Values, exp)
	}

	// Encoding must not depend on the previous contents of dst at all.
	fresh, err := (&tsm1.WriteWALEntry{Values: exp}).MarshalBinary()
	if err != nil {
		t.Fatalf("unexpected marshal error: %v", err)
	}
	if !bytes.Equal(fresh, b) {
		t.Fatalf("encoding depends on stale buffer contents:\n fresh=%x\n dirty=%x", fresh, b)
	}
}

// TestDemoC13c_WALReplayBooleanAfterInteger goes through the real WAL: an
// integer entry followed by a boolean entry, then the closed segment is read
// back.  Every entry of the log must replay exactly as written.
func TestDemoC13c_WALReplayBooleanAfterInteger(t *testing.T) {
	dir, err := ioutil.TempDir("", "demo-c13c")
	if err != nil {
		t.Fatal(err)
	}
	defer os.RemoveAll(dir)

	w := tsm1.NewWAL(dir)
	if err := w.Open(); err != nil {
		t.Fatalf("open wal: %v", err)
	}
	defer w.Close()

	const ones = int64(0x0101010101010101)
	ints := make([]tsm1.Value, 64)
	for i := range ints {
		ints[i] = tsm1.NewValue(ones, ones)
	}
	first := map[string][]tsm1.Value{"cpu,host=A#!~#cnt": ints}

	bools := make([]tsm1.Value, 32)
	for i := range bools {
		bools[i] = tsm1.NewValue(int64(i+1), i%3 == 0)
	}
	second := map[string][]tsm1.Value{"cpu,host=A#!~#up_": bools}

	// Write the pair a few times so the pooled buffers get recycled.
	var exp []map[string][]tsm1.Value
	for i := 0; i < 4; i++ {
		if _, err := w.WriteMulti(first); err != nil {
			t.Fatalf("write: %v", err)
		}
		if _, err := w.WriteMulti(second); err != nil {
			t.Fatalf("write: %v", err)
		}
		exp = append(exp, first, second)
	}

	if err := w.CloseSegment(); err != nil {
		t.Fatalf("close segment: %v", err)
	}

	files, err := w.ClosedSegments()
	if err != nil {
		t.Fatalf("closed segments: %v", err)
	}

	var got []map[string][]tsm1.Value
	for _, fn := range files {
		f, err := os.Open(fn)
		if err != nil {
			t.Fatal(err)
		}
		r := tsm1.NewWALSegmentReader(f)
		for r.Next() {
			e, err := r.Read()
			if err != nil {
				t.Fatalf("read entry: %v", err)
			}
			we, ok := e.(*tsm1.WriteWALEntry)
			if !ok {
				t.Fatalf("unexpected entry type %T", e)
			}
			got = append(got, we.Values)
		}
		r.Close()
	}

	if len(got) != len(exp) {
		t.Fatalf("replayed %d entries, wrote %d", len(got), len(exp))
	}
	for i := range exp {
		if !reflect.DeepEqual(got[i], exp[i]) {
			t.Fatalf("entry %d replayed differently:\n got=%v\n exp=%v", i, got[i], exp[i])
		}
	}
}

// Witness for (*WriteWALEntry).Encode/inv-keep:boolean_byte_is_the_value (model: a boolean value was encoded and the
// byte at its position is not the value). The scenarios above (written by the seeding sub-agent for seed C13c,
// kept verbatim) encode a boolean entry into a buffer that holds stale 0x01 bytes - which is what the WAL's buffer
// pool hands out - and read it back, directly and through a real WAL segment.
func TestGovcReplay(t *testing.T) {
	ok := t.Run("round-trip", TestDemoC13c_WALBooleanEntryRoundTrip)
	ok = t.Run("replay", TestDemoC13c_WALReplayBooleanAfterInteger) && ok
	if !ok {
		fmt.Println("GOVC-REPLAY-ENSURES-FALSE: a boolean false written to the WAL replays as true when the reused buffer held a stale byte (see the subtest output above)")
		return
	}
	fmt.Println("GOVC-REPLAY-RETURNED")
}
