package query

import (
	"fmt"
	"testing"
)

// Witness for encodeAux/decodeAux (inv-keep:tagged, inv-keep:valued, decodeAux typed): one auxiliary value of
// every kind the codec knows - the five value types and their typed nil pointers - is encoded and decoded with
// the real functions; the Go type (and the value, for non-pointers) must come back unchanged.
func TestGovcReplay(t *testing.T) {
	defer func() {
		if r := recover(); r != nil {
			fmt.Printf("GOVC-REPLAY-PANIC: %v\n", r)
		}
	}()
	in := []interface{}{float64(1.5), (*float64)(nil), int64(-7), (*int64)(nil), uint64(1 << 63), (*uint64)(nil), "s", (*string)(nil), true, (*bool)(nil)}
	out := decodeAux(encodeAux(in))
	if len(out) != len(in) {
		fmt.Printf("GOVC-REPLAY-ENSURES-FALSE: %d values in, %d out\n", len(in), len(out))
		return
	}
	for i := range in {
		if fmt.Sprintf("%T", in[i]) != fmt.Sprintf("%T", out[i]) || fmt.Sprintf("%v", in[i]) != fmt.Sprintf("%v", out[i]) {
			fmt.Printf("GOVC-REPLAY-ENSURES-FALSE: auxiliary value %d: sent %T(%v), received %T(%v)\n", i, in[i], in[i], out[i], out[i])
			return
		}
	}
	fmt.Println("GOVC-REPLAY-RETURNED")
}
