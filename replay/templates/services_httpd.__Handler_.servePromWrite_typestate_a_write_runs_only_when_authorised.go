package httpd_test

import (
	"fmt"
	"bytes"
	"errors"
	"net/http"
	"net/http/httptest"
	"testing"

	"github.com/gogo/protobuf/proto"
	"github.com/golang/snappy"
	"github.com/influxdata/influxdb/internal"
	"github.com/influxdata/influxdb/models"
	"github.com/influxdata/influxdb/prometheus/remote"
	"github.com/influxdata/influxdb/services/httpd"
	"github.com/influxdata/influxdb/services/meta"
)

// seedC16ePointsWriter records whether anything has been written.
type seedC16ePointsWriter struct {
	calls int
	db    string
}

func (w *seedC16ePointsWriter) WritePoints(database, retentionPolicy string, consistencyLevel models.ConsistencyLevel, user meta.User, points []models.Point) error {
	w.calls++
	w.db = database
	return nil
}

// seedC16eWriteAuthorizer allows only "writer" to write, and only to "foo".
type seedC16eWriteAuthorizer struct{}

func (seedC16eWriteAuthorizer) AuthorizeWrite(username, database string) error {
	if username == "writer" && database == "foo" {
		return nil
	}
	return errors.New("not authorized")
}

func seedC16ePromBody(t *testing.T) *bytes.Reader {
	t.Helper()
	req := &remote.WriteRequest{
		Timeseries: []*remote.TimeSeries{{
			Labels:  []*remote.LabelPair{{Name: "__name__", Value: "cpu"}, {Name: "host", Value: "a"}},
			Samples: []*remote.Sample{{TimestampMs: 1, Value: 1.5}},
		}},
	}
	data, err := proto.Marshal(req)
	if err != nil {
		t.Fatal(err)
	}
	return bytes.NewReader(snappy.Encode(nil, data))
}

// seedC16eHandler builds a real httpd.Handler with authentication enabled.
// users maps user name -> password; adminExists is what the meta client reports
// for AdminUserExists().
func seedC16eHandler(adminExists bool, users map[string]string) (*httpd.Handler, *seedC16ePointsWriter) {
	cfg := httpd.NewConfig()
	cfg.AuthEnabled = true
	cfg.LogEnabled = false
	h := httpd.NewHandler(cfg)

	mc := &internal.MetaClientMock{}
	mc.AdminUserExistsFn = func() bool { return adminExists }
	mc.DatabaseFn = func(name string) *meta.DatabaseInfo { return &meta.DatabaseInfo{Name: name} }
	mc.AuthenticateFn = func(u, p string) (meta.User, error) {
		if pw, ok := users[u]; ok && pw == p {
			return &meta.UserInfo{Name: u}, nil
		}
		return nil, meta.ErrAuthenticate
	}
	mc.UserFn = func(u string) (meta.User, error) {
		if _, ok := users[u]; ok {
			return &meta.UserInfo{Name: u}, nil
		}
		return nil, meta.ErrUserNotFound
	}
	h.MetaClient = mc

	pw := &seedC16ePointsWriter{}
	h.PointsWriter = pw
	h.WriteAuthorizer = seedC16eWriteAuthorizer{}
	h.Version = "0.0.0"
	h.BuildType = "OSS"
	return h, pw
}

// With authentication enabled a Prometheus remote write must only be executed
// for an authenticated user that holds the write grant on the target database.
func TestDemoC16e_PromWriteNeedsAnAuthenticatedUser(t *testing.T) {
	users := map[string]string{"writer": "pw1", "reader": "pw2"}

	// Sanity 1: an admin exists, valid credentials with the write grant: written.
	h, pw := seedC16eHandler(true, users)
	w := httptest.NewRecorder()
	r, _ := http.NewRequest("POST", "/api/v1/prom/write?db=foo", seedC16ePromBody(t))
	r.SetBasicAuth("writer", "pw1")
	h.ServeHTTP(w, r)
	if w.Code != http.StatusNoContent || pw.calls != 1 || pw.db != "foo" {
		t.Fatalf("authorised prom write: status=%d writes=%d db=%q body=%s", w.Code, pw.calls, pw.db, w.Body.String())
	}

	// Sanity 2: valid credentials without the write grant: refused, nothing written.
	h, pw = seedC16eHandler(true, users)
	w = httptest.NewRecorder()
	r, _ = http.NewRequest("POST", "/api/v1/prom/write?db=foo", seedC16ePromBody(t))
	r.SetBasicAuth("reader", "pw2")
	h.ServeHTTP(w, r)
	if w.Code != http.StatusForbidden || pw.calls != 0 {
		t.Fatalf("prom write without grant: status=%d writes=%d body=%s", w.Code, pw.calls, w.Body.String())
	}

	// Sanity 3: an admin exists, no credentials at all: refused, nothing written.
	h, pw = seedC16eHandler(true, users)
	w = httptest.NewRecorder()
	r, _ = http.NewRequest("POST", "/api/v1/prom/write?db=foo", seedC16ePromBody(t))
	h.ServeHTTP(w, r)
	if w.Code != http.StatusUnauthorized || pw.calls != 0 {
		t.Fatalf("prom write without credentials: status=%d writes=%d body=%s", w.Code, pw.calls, w.Body.String())
	}

	// The property: authentication is enabled but no admin user exists (fresh
	// cluster, or the last admin has been dropped / had ALL PRIVILEGES revoked).
	// The authenticate middleware then lets the request through with a nil user;
	// the write endpoints must refuse it - nothing but the creation of the first
	// administrator is allowed in that state.
	for _, tc := range []struct {
		name       string
		user, pass string
	}{
		{name: "no credentials"},
		{name: "credentials of a user without any grant", user: "reader", pass: "pw2"},
		{name: "garbage credentials", user: "nobody", pass: "x"},
	} {
		h, pw = seedC16eHandler(false, users)
		w = httptest.NewRecorder()
		r, _ = http.NewRequest("POST", "/api/v1/prom/write?db=foo", seedC16ePromBody(t))
		if tc.user != "" {
			r.SetBasicAuth(tc.user, tc.pass)
		}
		h.ServeHTTP(w, r)
		if pw.calls != 0 {
			t.Errorf("%s, no admin user exists: prom write was EXECUTED on %q without an authenticated user (status %d)", tc.name, pw.db, w.Code)
		}
		if w.Code != http.StatusForbidden {
			t.Errorf("%s, no admin user exists: status=%d, want %d; body=%s", tc.name, w.Code, http.StatusForbidden, w.Body.String())
		}
	}
}

// Witness for services_httpd.__Handler_.servePromWrite_typestate_a_write_runs_only_when_authorised. The scenario above was written by the seeding sub-agent for seed C16e and is kept verbatim;
// it runs the real code.
func TestGovcReplay(t *testing.T) {
	if !t.Run("scenario", TestDemoC16e_PromWriteNeedsAnAuthenticatedUser) {
		fmt.Println("GOVC-REPLAY-ENSURES-FALSE: a Prometheus remote write was executed without an authenticated, authorised user (see the subtest output above)")
		return
	}
	fmt.Println("GOVC-REPLAY-RETURNED")
}
