package hh

import (
	"fmt"
	"os"
	"testing"
)

// Witness for (*queue).Empty/ensures:empty_iff_no_pending (model: one segment, head position not at the
// footer, file offset = pos+8 as left behind by Advance). Three blocks appended, one advanced: two pending.
func TestGovcReplay(t *testing.T) {
	defer func() {
		if r := recover(); r != nil {
			fmt.Printf("GOVC-REPLAY-PANIC: %v\n", r)
		}
	}()
	dir, err := os.MkdirTemp("", "govc-hh")
	if err != nil {
		fmt.Println("GOVC-REPLAY-RETURNED (no temp dir)")
		return
	}
	defer os.RemoveAll(dir)
	q, err := newQueue(dir, 1<<20, 100)
	if err != nil {
		fmt.Println("GOVC-REPLAY-RETURNED", err)
		return
	}
	if err := q.Open(); err != nil {
		fmt.Println("GOVC-REPLAY-RETURNED", err)
		return
	}
	defer q.Close()
	for i := 0; i < 3; i++ {
		if err := q.Append([]byte(fmt.Sprintf("block-%d", i))); err != nil {
			fmt.Println("GOVC-REPLAY-RETURNED append:", err)
			return
		}
	}
	if err := q.Advance(); err != nil {
		fmt.Println("GOVC-REPLAY-RETURNED advance:", err)
		return
	}
	empty := q.Empty() // (asked right after Advance, as the points writer does between two sends)
	pendingHead, cerr := q.Current()
	if empty && cerr == nil && len(pendingHead) > 0 {
		fmt.Printf("GOVC-REPLAY-ENSURES-FALSE: Empty() == true while block %q (and one more) is still pending\n", pendingHead)
		return
	}
	fmt.Println("GOVC-REPLAY-RETURNED empty =", empty)
}
