package models

import (
	"encoding/binary"
	"fmt"
	"testing"
	"time"
)

// Witness for (*point).StringValue/safety:slice@Slice#1 (model: the iterator stands on a String
// field whose value is shorter than its two quotes). The bytes below are a well-framed binary point - what a
// peer sends in a write-shard request or what hinted handoff replays - whose only field is `a="`.
func TestGovcReplay(t *testing.T) {
	defer func() {
		if r := recover(); r != nil {
			fmt.Printf("GOVC-REPLAY-PANIC: accepted by NewPointFromBytes, then Fields() panics: %v\n", r)
		}
	}()
	key, fields := []byte("cpu"), []byte(`a="`)
	tb, _ := time.Unix(0, 1).UTC().MarshalBinary()
	b := make([]byte, 0, 64)
	var n [4]byte
	binary.BigEndian.PutUint32(n[:], uint32(len(key)))
	b = append(append(b, n[:]...), key...)
	binary.BigEndian.PutUint32(n[:], uint32(len(fields)))
	b = append(append(b, n[:]...), fields...)
	b = append(b, tb...)
	p, err := NewPointFromBytes(b)
	if err != nil {
		fmt.Println("GOVC-REPLAY-RETURNED rejected by NewPointFromBytes:", err)
		return
	}
	f, err := p.Fields()
	fmt.Println("GOVC-REPLAY-RETURNED", f, err)
}
