package hh

import (
	"fmt"
	"os"
	"testing"
	"time"
)

// Witness for (*queue).addSegment/ensures:newest_segment_is_the_tail and PurgeOlderThan/ensures:ends_kept (model: a
// segment was added and the tail is not that segment). A queue whose only segment is older than the age limit is
// purged (what NodeProcessor.run does every purge interval with now - MaxAge); the queue is still open, so the
// next block must be accepted and come out again.
func TestGovcReplay(t *testing.T) {
	defer func() {
		if r := recover(); r != nil {
			fmt.Printf("GOVC-REPLAY-PANIC: %v\n", r)
		}
	}()
	dir, _ := os.MkdirTemp("", "govc-hh")
	defer os.RemoveAll(dir)
	q, err := newQueue(dir, 1024, 1024*1024)
	if err != nil {
		fmt.Println("GOVC-REPLAY-RETURNED", err)
		return
	}
	if err := q.Open(); err != nil {
		fmt.Println("GOVC-REPLAY-RETURNED", err)
		return
	}
	defer q.Close()
	if err := q.Append([]byte("old block")); err != nil {
		fmt.Println("GOVC-REPLAY-RETURNED", err)
		return
	}
	// the only segment is older than the age limit: the purge drops it (a documented reason)
	old := time.Now().Add(-2 * time.Hour)
	if err := os.Chtimes(q.head.path, old, old); err != nil {
		fmt.Println("GOVC-REPLAY-RETURNED", err)
		return
	}
	if err := q.PurgeOlderThan(time.Now().Add(-time.Hour)); err != nil {
		fmt.Println("GOVC-REPLAY-RETURNED", err)
		return
	}
	// the queue is still open: a new block must be accepted and come out again
	if err := q.Append([]byte("new block")); err != nil {
		fmt.Printf("GOVC-REPLAY-ENSURES-FALSE: after an age purge of a single-segment queue, Append fails: %v\n", err)
		return
	}
	b, err := q.Current()
	if err != nil || string(b) != "new block" {
		fmt.Printf("GOVC-REPLAY-ENSURES-FALSE: after an age purge of a single-segment queue, the block appended next is not readable: %q %v\n", b, err)
		return
	}
	fmt.Println("GOVC-REPLAY-RETURNED")
}
