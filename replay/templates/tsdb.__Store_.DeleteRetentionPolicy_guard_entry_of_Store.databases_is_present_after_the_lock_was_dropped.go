package tsdb_test

import (
	"fmt"
	"sync"
	"testing"
)

// Witness for (*Store).DeleteRetentionPolicy/guard:entry_of_Store.databases_is_present_after_the_lock_was_dropped (and
// the same obligation in DeleteShard): both functions look the database's state up again in a later critical
// section and call a method on it; a DROP DATABASE that finished in between has removed the entry and the call
// dereferences nil - with the store's lock held. Real store: DROP RETENTION POLICY (or a shard delete) races with
// DROP DATABASE on the same database; a recovered panic is the failure.
func TestGovcReplay(t *testing.T) {
	panics := make(chan string, 1024)
	for round := 0; round < 150; round++ {
		s := MustOpenStore("inmem")
		s.MustCreateShardWithData("db0", "rp0", 1, "cpu,host=a value=1 1")
		s.MustCreateShardWithData("db0", "rp1", 2, "cpu,host=a value=1 1")
		var wg sync.WaitGroup
		run := func(what string, f func() error) {
			wg.Add(1)
			go func() {
				defer wg.Done()
				defer func() {
					if r := recover(); r != nil {
						select {
						case panics <- fmt.Sprintf("%s: %v", what, r):
						default:
						}
					}
				}()
				f()
			}()
		}
		run("DeleteRetentionPolicy", func() error { return s.DeleteRetentionPolicy("db0", "rp0") })
		run("DeleteShard", func() error { return s.DeleteShard(2) })
		run("DeleteDatabase", func() error { return s.DeleteDatabase("db0") })
		wg.Wait()
		select {
		case p := <-panics:
			fmt.Printf("GOVC-REPLAY-ENSURES-FALSE: round %d: %s (the database's entry was removed by a concurrent DROP DATABASE; the store's lock is still held by the panicking goroutine)\n", round, p)
			return
		default:
		}
		s.Close()
	}
	fmt.Println("GOVC-REPLAY-RETURNED")
}
