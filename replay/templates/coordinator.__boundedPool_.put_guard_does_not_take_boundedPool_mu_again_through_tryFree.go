package coordinator

// govc-replay: schedule-point coordinator/pool.go put <<defer c.mu.RUnlock()>>

import (
	"fmt"
	"net"
	"testing"
	"time"
)

// Witness for (*boundedPool).put/guard:does_not_take_boundedPool_mu_again_through_tryFree. put holds the pool's read
// lock and, when the pool is full, calls tryFree, which takes the read lock again. sync.RWMutex queues new readers
// behind a waiting writer: if Close asks for the write lock in between, put waits for Close and Close waits for
// put. Schedule: a connection is handed back to a full pool; Close arrives while put holds the read lock.
func TestGovcReplay(t *testing.T) {
	p, err := NewBoundedPool(1, 1, 0, func() (net.Conn, error) { c, _ := net.Pipe(); return c, nil })
	if err != nil {
		t.Fatal(err)
	}
	bp := p.(*boundedPool)
	extra, other := net.Pipe()
	defer other.Close()

	paused, goOn := make(chan struct{}), make(chan struct{})
	GovcSchedulePoint = func(fn string) {
		if fn == "put" {
			close(paused)
			<-goOn
		}
	}
	defer func() { GovcSchedulePoint = func(string) {} }()

	done := make(chan struct{})
	go func() { bp.put(extra); close(done) }()
	<-paused
	go bp.Close()
	time.Sleep(200 * time.Millisecond) // Close is now queued for the write lock
	close(goOn)
	select {
	case <-done:
		fmt.Println("GOVC-REPLAY-RETURNED")
	case <-time.After(5 * time.Second):
		fmt.Println("GOVC-REPLAY-ENSURES-FALSE: put did not return: it holds the pool's read lock and waits for it again behind Close, which waits for put")
	}
}
