package meta

import (
	"fmt"
	"testing"

	"github.com/influxdata/influxql"
)

// TestDemoC16c: once any user exists, the "bootstrap" exception of
// QueryAuthorizer.AuthorizeQuery (first statement creates an administrator)
// must no longer apply. In particular, after the last administrator has been
// demoted or dropped while ordinary users remain, neither an unauthenticated
// request (nil user - the HTTP handler skips authentication while no admin
// exists) nor an ordinary user may run admin-only statements.
func TestDemoC16c(t *testing.T) {
	mustParse := func(s string) *influxql.Query {
		q, err := influxql.ParseQuery(s)
		if err != nil {
			t.Fatalf("parse %q: %v", s, err)
		}
		return q
	}

	install := func(d *Data) (*Client, *QueryAuthorizer) {
		c := NewClient(NewConfig())
		c.cacheData = d
		return c, NewQueryAuthorizer(c)
	}

	bootstrap := mustParse(`CREATE USER eve WITH PASSWORD 'x' WITH ALL PRIVILEGES`)
	bootstrapMulti := mustParse(`CREATE USER eve WITH PASSWORD 'x' WITH ALL PRIVILEGES; DROP DATABASE db0`)

	// Sanity: with no users at all the first-administrator bootstrap is allowed.
	{
		_, a := install(&Data{})
		if _, err := a.AuthorizeQuery(nil, bootstrap, ""); err != nil {
			t.Fatalf("bootstrap on an empty user table must be allowed, got %v", err)
		}
	}

	histories := map[string]func(d *Data) error{
		"admin demoted": func(d *Data) error { return d.SetAdminPrivilege("root", false) },
		"admin dropped": func(d *Data) error { return d.DropUser("root") },
	}
	for name, step := range histories {
		d := &Data{}
		if err := d.CreateDatabase("db0"); err != nil {
			t.Fatal(err)
		}
		if err := d.CreateUser("root", "roothash", true); err != nil {
			t.Fatal(err)
		}
		if err := d.CreateUser("bob", "bobhash", false); err != nil {
			t.Fatal(err)
		}
		if err := d.SetPrivilege("bob", "db0", influxql.ReadPrivilege); err != nil {
			t.Fatal(err)
		}
		if err := step(d); err != nil {
			t.Fatal(err)
		}

		c, a := install(d)
		if c.UserCount() == 0 {
			t.Fatalf("%s: expected remaining users", name)
		}
		if c.AdminUserExists() {
			t.Fatalf("%s: expected no administrator to remain", name)
		}

		// Unauthenticated request: users exist, so nothing may run without credentials.
		for _, q := range []*influxql.Query{bootstrap, bootstrapMulti} {
			if _, err := a.AuthorizeQuery(nil, q, ""); err == nil {
				t.Errorf("%s: unauthenticated %q was authorized although users exist", name, q.String())
			}
		}

		// Ordinary user (READ on db0 only) must not be able to run admin-only statements.
		u, err := c.User("bob")
		if err != nil {
			t.Fatal(err)
		}
		if bu := u.(*UserInfo); bu.Admin {
			t.Fatalf("%s: bob must not be admin", name)
		}
		for _, q := range []*influxql.Query{bootstrap, bootstrapMulti} {
			if _, err := a.AuthorizeQuery(u, q, "db0"); err == nil {
				t.Errorf("%s: non-admin bob was authorized to run %q", name, q.String())
			}
		}

		// What bob is granted keeps working.
		if _, err := a.AuthorizeQuery(u, mustParse(`SELECT * FROM cpu`), "db0"); err != nil {
			t.Errorf("%s: bob's READ grant on db0 must still work, got %v", name, err)
		}
	}
}

// Witness for (*QueryAuthorizer).AuthorizeQuery/ensures:grants_cover (model: nil is returned for a user whose grants do not cover the statements). The scenario above (written by the seeding sub-agent for seed C16c, kept verbatim) is run as is.
func TestGovcReplay(t *testing.T) {
	ok := true
	for _, f := range []struct {
		n string
		f func(*testing.T)
	}{{"no-admin", TestDemoC16c}} {
		ok = t.Run(f.n, f.f) && ok
	}
	if !ok {
		fmt.Println("GOVC-REPLAY-ENSURES-FALSE: a request is authorised without grants that cover it (see the subtest output above)")
		return
	}
	fmt.Println("GOVC-REPLAY-RETURNED")
}
