package coordinator

import (
	"context"
	"fmt"
	"os"
	"testing"
	"time"

	"github.com/influxdata/influxdb/services/meta"
	"github.com/influxdata/influxdb/tsdb"
	_ "github.com/influxdata/influxdb/tsdb/engine"
	_ "github.com/influxdata/influxdb/tsdb/index"
)

type govcFanoutMeta struct{}

func (govcFanoutMeta) NodeID() uint64 { return 1 }
func (govcFanoutMeta) DataNode(id uint64) (*meta.NodeInfo, error) {
	for _, n := range (govcFanoutMeta{}).DataNodes() {
		if n.ID == id {
			return &n, nil
		}
	}
	return nil, fmt.Errorf("node %d not found", id)
}
func (govcFanoutMeta) DataNodes() []meta.NodeInfo {
	// node 2 is a member of the cluster but nothing listens on its address: it is down
	return []meta.NodeInfo{{ID: 1, Addr: "127.0.0.1:1", TCPAddr: "127.0.0.1:1"}, {ID: 2, Addr: "127.0.0.1:2", TCPAddr: "127.0.0.1:2"}}
}
func (govcFanoutMeta) DataNodeByTCPAddr(tcpAddr string) (*meta.NodeInfo, error) { return nil, nil }

// Witness for (ClusterTSDBStore).MeasurementNames/ensures:never_silently_incomplete and its four siblings (model:
// ExecuteQuery reports an error and the lookup returns a nil error). A two-node cluster whose second data node is
// down: the metadata lookups that fan out to every node answer with what the local node holds and no error.
func TestGovcReplay(t *testing.T) {
	defer func() {
		if r := recover(); r != nil {
			fmt.Printf("GOVC-REPLAY-PANIC: %v\n", r)
		}
	}()
	dir, err := os.MkdirTemp("", "govc-fanout")
	if err != nil {
		fmt.Println("GOVC-REPLAY-RETURNED", err)
		return
	}
	defer os.RemoveAll(dir)
	store := tsdb.NewStore(dir)
	store.EngineOptions.Config.WALDir = dir + "/wal"
	if err := store.Open(); err != nil {
		fmt.Println("GOVC-REPLAY-RETURNED", err)
		return
	}
	defer store.Close()
	e := NewMetaExecutor(time.Second, 200*time.Millisecond, time.Second, 1)
	e.MetaClient = govcFanoutMeta{}
	// the fan-out itself does report the failure ...
	_, ferr := e.ExecuteQuery(func() (interface{}, error) { return [][]byte{}, nil },
		func(nodeID uint64) (interface{}, error) { return e.MeasurementNames(nodeID, "db", "", nil) })
	if ferr == nil {
		fmt.Println("GOVC-REPLAY-RETURNED: the unreachable node did not produce an error")
		return
	}
	s := ClusterTSDBStore{Store: store, MetaExecutor: e}
	var silent []string
	if _, err := s.MeasurementNames(context.Background(), nil, "db", "", nil); err == nil {
		silent = append(silent, "MeasurementNames")
	}
	if _, err := s.TagKeys(context.Background(), nil, []uint64{1}, nil); err == nil {
		silent = append(silent, "TagKeys")
	}
	if _, err := s.TagValues(context.Background(), nil, []uint64{1}, nil); err == nil {
		silent = append(silent, "TagValues")
	}
	if _, err := s.SeriesCardinality(context.Background(), "db"); err == nil {
		silent = append(silent, "SeriesCardinality")
	}
	if _, err := s.MeasurementsCardinality(context.Background(), "db"); err == nil {
		silent = append(silent, "MeasurementsCardinality")
	}
	if len(silent) > 0 {
		fmt.Printf("GOVC-REPLAY-ENSURES-FALSE: data node 2 is down (ExecuteQuery: %v) and these lookups answer without an error: %v\n", ferr, silent)
		return
	}
	fmt.Println("GOVC-REPLAY-RETURNED")
}
