package coordinator

import (
	"fmt"
	"testing"
	"time"

	"github.com/influxdata/influxdb/models"
	"github.com/influxdata/influxdb/services/meta"
)

type govcMapShardsMeta struct {
	rp     *meta.RetentionPolicyInfo
	nextID uint64
}

func (m *govcMapShardsMeta) NodeID() uint64                           { return 1 }
func (m *govcMapShardsMeta) Database(name string) *meta.DatabaseInfo { return nil }
func (m *govcMapShardsMeta) RetentionPolicy(database, policy string) (*meta.RetentionPolicyInfo, error) {
	return m.rp, nil
}
func (m *govcMapShardsMeta) CreateShardGroup(database, policy string, ts time.Time) (*meta.ShardGroupInfo, error) {
	m.nextID++
	start := ts.Truncate(m.rp.ShardGroupDuration).UTC()
	return &meta.ShardGroupInfo{ID: m.nextID, StartTime: start, EndTime: start.Add(m.rp.ShardGroupDuration),
		Shards: []meta.ShardInfo{{ID: 100 + m.nextID, Owners: []meta.ShardOwner{{NodeID: 1}}}}}, nil
}

// Witness for (*PointsWriter).MapShards/typestate:a_point_older_than_the_retention_period_is_dropped (model: a point
// whose time is before now - Duration reaches ShardFor). Retention 1h, shard groups of 1h: a point older than the
// retention period is dropped when written alone, but written when the same batch holds a younger point of the
// same shard group - whether it is "reported as dropped" depends on the other points of the batch.
func TestGovcReplay(t *testing.T) {
	defer func() {
		if r := recover(); r != nil {
			fmt.Printf("GOVC-REPLAY-PANIC: %v\n", r)
		}
	}()
	now := time.Now().UTC()
	// choose the hour window so that both points fall into one group: old = 80 min ago, young = 50 min ago, and
	// make the group 4h wide so that alignment never separates them more often than necessary
	rp := &meta.RetentionPolicyInfo{Name: "rp", ReplicaN: 1, Duration: time.Hour, ShardGroupDuration: 4 * time.Hour}
	old := now.Add(-80 * time.Minute)
	young := now.Add(-50 * time.Minute)
	if !old.Truncate(4 * time.Hour).Equal(young.Truncate(4 * time.Hour)) {
		// the two instants straddle a group boundary right now: move both into the younger window
		old = young.Truncate(4 * time.Hour)
		if !old.Before(now.Add(-time.Hour)) {
			fmt.Println("GOVC-REPLAY-RETURNED: no instant older than the retention period in the young point's group at this time of day")
			return
		}
	}
	pOld := models.MustNewPoint("cpu", models.NewTags(map[string]string{"host": "a"}), models.Fields{"v": 1.0}, old)
	pYoung := models.MustNewPoint("cpu", models.NewTags(map[string]string{"host": "a"}), models.Fields{"v": 2.0}, young)

	w := NewPointsWriter()
	w.MetaClient = &govcMapShardsMeta{rp: rp}
	alone, err := w.MapShards(&WritePointsRequest{Database: "db", RetentionPolicy: "rp", Points: []models.Point{pOld}})
	if err != nil {
		fmt.Println("GOVC-REPLAY-RETURNED", err)
		return
	}
	w.MetaClient = &govcMapShardsMeta{rp: rp}
	both, err := w.MapShards(&WritePointsRequest{Database: "db", RetentionPolicy: "rp", Points: []models.Point{pYoung, pOld}})
	if err != nil {
		fmt.Println("GOVC-REPLAY-RETURNED", err)
		return
	}
	if len(alone.Dropped) == 1 && len(both.Dropped) == 0 {
		fmt.Printf("GOVC-REPLAY-ENSURES-FALSE: retention 1h: the point at now-%v is dropped when written alone but routed to a shard when the batch also holds a point at now-%v of the same shard group\n", now.Sub(old).Round(time.Minute), now.Sub(young).Round(time.Minute))
		return
	}
	fmt.Printf("GOVC-REPLAY-RETURNED: dropped alone=%d, in the batch=%d\n", len(alone.Dropped), len(both.Dropped))
}
