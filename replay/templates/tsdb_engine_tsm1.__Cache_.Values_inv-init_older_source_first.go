package tsm1

import (
	"fmt"
	"testing"
)

// Witness for (*Cache).Values/inv-init:older_source_first (model: both a snapshot entry and a hot entry exist for
// the key). A point is written, a cache snapshot is taken (as WriteSnapshot does, and not yet cleared), the same
// series/field/timestamp is overwritten, and the key is read: the newer value must win.
func TestGovcReplay(t *testing.T) {
	defer func() {
		if r := recover(); r != nil {
			fmt.Printf("GOVC-REPLAY-PANIC: %v\n", r)
		}
	}()
	c := NewCache(1 << 20)
	key := []byte("cpu,host=a#!~#value")
	if err := c.Write(key, Values{NewValue(10, 1.0), NewValue(20, 2.0)}); err != nil {
		fmt.Println("GOVC-REPLAY-RETURNED", err)
		return
	}
	if _, err := c.Snapshot(); err != nil {
		fmt.Println("GOVC-REPLAY-RETURNED", err)
		return
	}
	if err := c.Write(key, Values{NewValue(20, 99.0), NewValue(30, 3.0)}); err != nil {
		fmt.Println("GOVC-REPLAY-RETURNED", err)
		return
	}
	got := c.Values(key)
	if len(got) != 3 || got[0].UnixNano() != 10 || got[1].UnixNano() != 20 || got[2].UnixNano() != 30 || got[1].Value() != 99.0 {
		fmt.Printf("GOVC-REPLAY-ENSURES-FALSE: overwritten while a snapshot is in flight, the read returns %v (want 99 at t=20)\n", got)
		return
	}
	fmt.Println("GOVC-REPLAY-RETURNED")
}
