package meta

import (
	"fmt"
	"testing"
	"time"
)

// TestDemoC06c drives a short metadata command sequence on a three node
// cluster and checks two clauses of property C06:
//
//   - re-issuing a copy-shard-owner command for a node that already owns the
//     shard is a no-op (owners of a shard stay pairwise distinct), and
//   - after a data node has been deleted no shard is owned by it any more.
//
// Commands: CreateDataNode x3, CreateDatabase, CreateRetentionPolicy(replicaN=2),
// CreateShardGroup, CopyShardOwner(shard, node that already owns it),
// DeleteDataNode(that node).
func TestDemoC06c(t *testing.T) {
	data := &Data{}
	for _, a := range []string{"n1", "n2", "n3"} {
		if err := data.CreateDataNode(a+":8086", a+":8088"); err != nil {
			t.Fatal(err)
		}
	}
	if err := data.CreateDatabase("db"); err != nil {
		t.Fatal(err)
	}
	rpi := NewRetentionPolicyInfo("rp")
	rpi.ReplicaN = 2
	rpi.Duration = 24 * time.Hour
	if err := data.CreateRetentionPolicy("db", rpi, true); err != nil {
		t.Fatal(err)
	}
	if err := data.CreateShardGroup("db", "rp", time.Unix(0, 0).UTC()); err != nil {
		t.Fatal(err)
	}

	shards := func() []ShardInfo {
		sgs, err := data.ShardGroups("db", "rp")
		if err != nil {
			t.Fatal(err)
		}
		if len(sgs) != 1 {
			t.Fatalf("expected one live shard group, got %d", len(sgs))
		}
		return sgs[0].Shards
	}

	checkDistinct := func(when string) {
		t.Helper()
		for _, s := range shards() {
			seen := map[uint64]bool{}
			for _, o := range s.Owners {
				if seen[o.NodeID] {
					t.Errorf("%s: shard %d lists node %d twice: owners=%v", when, s.ID, o.NodeID, s.Owners)
				}
				seen[o.NodeID] = true
			}
		}
	}
	checkDistinct("after CreateShardGroup")

	// Round robin over three nodes with two replicas wraps around, so one
	// shard gets its owners in descending node id order (3,1).  Pick a
	// shard whose owner list is not ascending, and its last owner.
	var shardID, nodeID uint64
	for _, s := range shards() {
		for i := 1; i < len(s.Owners); i++ {
			if s.Owners[i].NodeID < s.Owners[i-1].NodeID {
				shardID, nodeID = s.ID, s.Owners[i].NodeID
			}
		}
	}
	if shardID == 0 {
		t.Fatalf("no shard with wrapped owner list: %+v", shards())
	}

	// The node already owns the shard: the repeated command changes nothing.
	before := data.Clone()
	data.CopyShardOwner(shardID, nodeID)
	checkDistinct("after repeated CopyShardOwner")
	for i, s := range shards() {
		b := before.Databases[0].RetentionPolicies[0].ShardGroups[0].Shards[i]
		if len(s.Owners) != len(b.Owners) {
			t.Errorf("repeated CopyShardOwner(%d,%d) changed owners of shard %d: %v -> %v",
				shardID, nodeID, s.ID, b.Owners, s.Owners)
		}
	}

	// Remove the node: nothing may be owned by it afterwards.
	if err := data.DeleteDataNode(nodeID); err != nil {
		t.Fatal(err)
	}
	if data.DataNode(nodeID) != nil {
		t.Fatalf("node %d still present", nodeID)
	}
	for _, db := range data.Databases {
		for _, rp := range db.RetentionPolicies {
			for _, sg := range rp.ShardGroups {
				for _, s := range sg.Shards {
					if s.OwnedBy(nodeID) {
						t.Errorf("shard %d (group %d) is still owned by removed node %d: owners=%v",
							s.ID, sg.ID, nodeID, s.Owners)
					}
					for _, o := range s.Owners {
						if data.DataNode(o.NodeID) == nil {
							t.Errorf("shard %d owner %d is not an existing data node", s.ID, o.NodeID)
						}
					}
				}
			}
		}
	}
}

// Witness for (*Data).CopyShardOwner/typestate:added_only_if_not_yet_an_owner (model: the node is appended or
// inserted although one of the owners is that node). The scenario above (written by the seeding sub-agent for seed
// C06c, kept verbatim) creates three nodes and a two-replica shard group (round-robin owners such as [3,1]), copies a
// shard to a node that already owns it, deletes that node and checks owners are distinct, existing data nodes.
func TestGovcReplay(t *testing.T) {
	if !t.Run("copy-to-an-existing-owner", TestDemoC06c) {
		fmt.Println("GOVC-REPLAY-ENSURES-FALSE: CopyShardOwner to a node that already owns the shard adds it again; after DeleteDataNode the shard is still owned by the removed node (see the subtest output above)")
		return
	}
	fmt.Println("GOVC-REPLAY-RETURNED")
}
