package coordinator

// Demo for seeded defect C05c.
//
// Property C05: a distributed query reads every shard overlapping its time
// range from exactly one live owner - no shard counted twice, none left out -
// also when an owner is down and its shards are re-partitioned over the
// remaining owners.
//
// Layout (stock round-robin placement, 6 data nodes, replication factor 3):
//
//	shard 21 owners: 2, 3, 4
//	shard 31 owners: 3, 4, 5
//
// Node 1 coordinates and selected node 3 for both shards (node 3 owns both),
// so there is a single remote shard group {21, 31} on node 3. Node 3 is down.
// The retry path must re-partition: shard 21 -> node 2, shard 31 -> node 4
// (node 4 ALSO holds a replica of shard 21). Every node must be asked only for
// the shards that were assigned to it, and the merged result must contain
// every shard exactly once.
//
// The test starts real coordinator.Service instances for nodes 2, 4 and 5 on
// loopback (random ports), a real MetaExecutor, and runs the real
// remoteShardGroup / ClusterShardMapping code.

import (
	"context"
	"fmt"
	"net"
	"reflect"
	"sort"
	"sync"
	"testing"
	"time"

	"github.com/influxdata/influxdb/query"
	"github.com/influxdata/influxdb/services/meta"
	"github.com/influxdata/influxdb/tcp"
	"github.com/influxdata/influxdb/tsdb"
	"github.com/influxdata/influxql"
)

// demoC05cFloatIterator yields a fixed list of points.
type demoC05cFloatIterator struct {
	points []query.FloatPoint
}

func (itr *demoC05cFloatIterator) Stats() query.IteratorStats { return query.IteratorStats{} }
func (itr *demoC05cFloatIterator) Close() error               { return nil }
func (itr *demoC05cFloatIterator) Next() (*query.FloatPoint, error) {
	if len(itr.points) == 0 {
		return nil, nil
	}
	p := itr.points[0]
	itr.points = itr.points[1:]
	return &p, nil
}

// demoC05cShardGroup is the set of shards (among the requested ones) that a
// node really holds. One point per shard: time = value = shard id.
type demoC05cShardGroup struct {
	tsdb.ShardGroup // unimplemented methods panic if reached
	ids             []uint64
}

func (sg *demoC05cShardGroup) CreateIterator(ctx context.Context, m *influxql.Measurement, opt query.IteratorOptions) (query.Iterator, error) {
	itr := &demoC05cFloatIterator{}
	for _, id := range sg.ids {
		itr.points = append(itr.points, query.FloatPoint{Name: m.Name, Time: int64(id), Value: float64(id)})
	}
	return itr, nil
}

// demoC05cStore is the TSDB store of one data node: it holds some shards and,
// like tsdb.Store.ShardGroup, serves the requested shards that it holds.
type demoC05cStore struct {
	TSDBStore // unimplemented methods panic if reached
	nodeID    uint64
	held      map[uint64]bool

	mu       sync.Mutex
	requests [][]uint64 // shard ids of every CreateIterator request served
}

func (s *demoC05cStore) ShardGroup(ids []uint64) tsdb.ShardGroup {
	s.mu.Lock()
	s.requests = append(s.requests, append([]uint64(nil), ids...))
	s.mu.Unlock()

	sg := &demoC05cShardGroup{}
	for _, id := range ids {
		if s.held[id] {
			sg.ids = append(sg.ids, id)
		}
	}
	sort.Slice(sg.ids, func(i, j int) bool { return sg.ids[i] < sg.ids[j] })
	return sg
}

func (s *demoC05cStore) reset() {
	s.mu.Lock()
	s.requests = nil
	s.mu.Unlock()
}

func (s *demoC05cStore) served() [][]uint64 {
	s.mu.Lock()
	defer s.mu.Unlock()
	return append([][]uint64(nil), s.requests...)
}

// demoC05cMetaClient resolves node ids to loopback addresses.
type demoC05cMetaClient struct {
	addrs map[uint64]string
}

func (c *demoC05cMetaClient) NodeID() uint64 { return 1 }
func (c *demoC05cMetaClient) DataNode(id uint64) (*meta.NodeInfo, error) {
	addr, ok := c.addrs[id]
	if !ok {
		return nil, nil
	}
	return &meta.NodeInfo{ID: id, TCPAddr: addr}, nil
}
func (c *demoC05cMetaClient) DataNodes() []meta.NodeInfo {
	var a []meta.NodeInfo
	for id, addr := range c.addrs {
		a = append(a, meta.NodeInfo{ID: id, TCPAddr: addr})
	}
	return a
}
func (c *demoC05cMetaClient) DataNodeByTCPAddr(tcpAddr string) (*meta.NodeInfo, error) {
	for id, addr := range c.addrs {
		if addr == tcpAddr {
			return &meta.NodeInfo{ID: id, TCPAddr: addr}, nil
		}
	}
	return nil, nil
}

// demoC05cServer satisfies Service.Server.
type demoC05cServer struct{ addr string }

func (s *demoC05cServer) Reset() error       { return nil }
func (s *demoC05cServer) HTTPAddr() string   { return "127.0.0.1:0" }
func (s *demoC05cServer) HTTPScheme() string { return "http" }
func (s *demoC05cServer) TCPAddr() string    { return s.addr }

// demoC05cOpenNode starts a real coordinator Service for a data node.
func demoC05cOpenNode(t *testing.T, store *demoC05cStore) (addr string, closeFn func()) {
	t.Helper()
	ln, err := net.Listen("tcp", "127.0.0.1:0")
	if err != nil {
		t.Fatal(err)
	}
	mux := tcp.NewMux()
	muxln := mux.Listen(MuxHeader)
	defln := mux.DefaultListener()
	go mux.Serve(ln)

	s := NewService(Config{})
	s.Listener = muxln
	s.DefaultListener = defln
	s.TSDBStore = store
	s.Server = &demoC05cServer{addr: ln.Addr().String()}
	if err := s.Open(); err != nil {
		t.Fatal(err)
	}
	return ln.Addr().String(), func() {
		ln.Close()
		s.Close()
	}
}

func TestDemoC05c_RetryReadsEachShardOnce(t *testing.T) {
	const (
		shardA = uint64(21) // owners 2, 3, 4
		shardB = uint64(31) // owners 3, 4, 5
	)

	stores := map[uint64]*demoC05cStore{
		2: {nodeID: 2, held: map[uint64]bool{shardA: true}},
		4: {nodeID: 4, held: map[uint64]bool{shardA: true, shardB: true}},
		5: {nodeID: 5, held: map[uint64]bool{shardB: true}},
	}

	mc := &demoC05cMetaClient{addrs: map[uint64]string{}}
	for id, st := range stores {
		addr, closeFn := demoC05cOpenNode(t, st)
		defer closeFn()
		mc.addrs[id] = addr
	}

	// Node 3 is down: reserve a port and close it again so that dialing is refused.
	dead, err := net.Listen("tcp", "127.0.0.1:0")
	if err != nil {
		t.Fatal(err)
	}
	mc.addrs[3] = dead.Addr().String()
	dead.Close()

	executor := NewMetaExecutor(5*time.Second, time.Second, time.Minute, 10)
	executor.MetaClient = mc
	defer executor.Close()

	// The scenario is repeated a few times (fresh shard group, hence fresh
	// dirty set, every round): the outcome must be right every time.
	for round := 0; round < 8 && !t.Failed(); round++ {
		for _, st := range stores {
			st.reset()
		}
		demoC05cRound(t, round, executor, stores, shardA, shardB)
	}
}

func demoC05cRound(t *testing.T, round int, executor *MetaExecutor, stores map[uint64]*demoC05cStore, shardA, shardB uint64) {
	shards := shardInfos{
		{ID: shardA, Owners: []meta.ShardOwner{{NodeID: 2}, {NodeID: 3}, {NodeID: 4}}},
		{ID: shardB, Owners: []meta.ShardOwner{{NodeID: 3}, {NodeID: 4}, {NodeID: 5}}},
	}

	// This is exactly what ClusterShardMapper.mapShards builds when node 1
	// coordinates and node 3 was selected for both shards.
	source := Source{Database: "db0", RetentionPolicy: "rp0"}
	mapping := &ClusterShardMapping{
		LocalShardMapping: &LocalShardMapping{ShardMap: make(map[Source]tsdb.ShardGroup)},
		RemoteShardMapping: map[Source][]*remoteShardGroup{
			source: {newRemoteShardGroup(executor, 3, shards, true)},
		},
		MetaExecutor: executor,
		LocalID:      1,
	}
	defer mapping.Close()

	m := &influxql.Measurement{Database: "db0", RetentionPolicy: "rp0", Name: "cpu"}
	opt := query.IteratorOptions{
		Expr:      &influxql.VarRef{Val: "value", Type: influxql.Float},
		StartTime: influxql.MinTime,
		EndTime:   influxql.MaxTime,
		Ascending: true,
		Ordered:   true,
	}

	itr, err := mapping.CreateIterator(context.Background(), m, opt)
	if err != nil {
		t.Fatalf("round %d: query failed although every shard still has a live owner: %v", round, err)
	}
	if itr == nil {
		t.Fatal("no iterator returned although every shard still has a live owner")
	}
	defer itr.Close()

	fitr, ok := itr.(query.FloatIterator)
	if !ok {
		t.Fatalf("unexpected iterator type %T", itr)
	}

	// Count how many times every shard contributed to the result.
	seen := map[uint64]int{}
	var sum float64
	for {
		p, err := fitr.Next()
		if err != nil {
			t.Fatalf("unexpected error while reading the merged stream: %v", err)
		}
		if p == nil {
			break
		}
		seen[uint64(p.Time)]++
		sum += p.Value
	}

	// Per-node log of the shard ids served.
	var log []string
	for _, id := range []uint64{2, 4, 5} {
		log = append(log, fmt.Sprintf("node %d served %v", id, stores[id].served()))
	}

	want := map[uint64]int{shardA: 1, shardB: 1}
	if !reflect.DeepEqual(seen, want) {
		t.Errorf("round %d: every shard must be read exactly once; contributions per shard = %v, want %v (sum(value) = %v, want %v); %v",
			round, seen, want, sum, float64(shardA+shardB), log)
	}

	// Each shard must have been requested from exactly one live node.
	requested := map[uint64]int{}
	for _, st := range stores {
		for _, ids := range st.served() {
			for _, id := range ids {
				requested[id]++
			}
		}
	}
	if !reflect.DeepEqual(requested, want) {
		t.Errorf("round %d: every shard must be requested from exactly one live owner; requests per shard = %v, want %v; %v",
			round, requested, want, log)
	}
}

// Witness for (*remoteShardGroup).CreateIterator/guard:goroutine_CreateIterator_1_sees_a_stable_nodeID (model: the
// fan-out goroutines share a variable that the loop reassigns). The scenario above (written by the seeding sub-agent
// for seed C05c, kept verbatim) runs real Service instances on loopback ports, takes the first owner of a remote
// shard group down and checks that after the retry every shard was requested from exactly one live owner.
func TestGovcReplay(t *testing.T) {
	if !t.Run("retry-reads-each-shard-once", TestDemoC05c_RetryReadsEachShardOnce) {
		fmt.Println("GOVC-REPLAY-ENSURES-FALSE: after a retry one shard is requested twice and another one never (see the subtest output above)")
		return
	}
	fmt.Println("GOVC-REPLAY-RETURNED")
}
