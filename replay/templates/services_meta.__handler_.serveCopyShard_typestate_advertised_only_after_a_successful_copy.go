package meta

import (
	"fmt"
	"errors"
	"net/http"
	"net/http/httptest"
	"net/url"
	"strconv"
	"strings"
	"testing"
	"time"

	"go.uber.org/zap"
)

// demoC18cStoreIface restates the method set of handler.store so that a fake can embed it
// and override only what serveCopyShard needs.
type demoC18cStoreIface interface {
	bootstrap() error
	afterIndex(index uint64) <-chan struct{}
	index() uint64
	isLeader() bool
	leader() string
	leaderHTTP() string
	snapshot() (*Data, error)
	apply(b []byte) error
	join(addr, raftAddr string) (*NodeInfo, error)
	leave(raftAddr string) error
	remove(addr string) error
	removeData(tcpAddr string) error
	updateData(addr, tcpAddr, oldTCPAddr string) (*NodeInfo, error)
	dataNodeByTCPAddr(tcpAddr string) (*NodeInfo, error)
	copyShard(id, nodeID uint64) error
	removeShard(id, nodeID uint64) error
	truncateShards(delay time.Duration) error
	metaServersHTTP() []string
	otherMetaServersHTTP() []string
	dataServers() []string
	peers() []string
	createUser(name, password string, admin bool) error
	dropUser(name string) error
	updateUser(name, password string) error
	adminUserExists() bool
	authenticate(username, password string) (User, error)
	user(name string) (User, error)
	users() []UserInfo
	status() *MetaNodeStatus
	cluster() *ClusterInfo
	shards() []*ClusterShardInfo
	shard(id uint64) *ClusterShardInfo
}

// demoC18cStore is a leader store whose metadata is a real *Data: owners are looked up in it
// and copyShard applies the real Data.CopyShardOwner to it.
type demoC18cStore struct {
	demoC18cStoreIface // nil: any method not overridden below panics
	data               *Data
}

func (s *demoC18cStore) isLeader() bool { return true }

func (s *demoC18cStore) dataNodeByTCPAddr(tcpAddr string) (*NodeInfo, error) {
	for _, n := range s.data.DataNodes {
		if n.TCPAddr == tcpAddr {
			n := n
			return &n, nil
		}
	}
	return nil, ErrNodeNotFound
}

func (s *demoC18cStore) shard(id uint64) *ClusterShardInfo {
	for _, di := range s.data.Databases {
		for _, rpi := range di.RetentionPolicies {
			for _, sgi := range rpi.ShardGroups {
				for _, si := range sgi.Shards {
					if si.ID != id {
						continue
					}
					csi := &ClusterShardInfo{ID: si.ID, Database: di.Name, RetentionPolicy: rpi.Name, ShardGroupID: sgi.ID}
					for _, o := range si.Owners {
						csi.Owners = append(csi.Owners, &ShardOwnerInfo{ID: o.NodeID})
					}
					return csi
				}
			}
		}
	}
	return nil
}

func (s *demoC18cStore) copyShard(id, nodeID uint64) error {
	s.data.CopyShardOwner(id, nodeID)
	return nil
}

// demoC18cRPC is the data-node RPC client: CopyShard reports whatever the test tells it to.
type demoC18cRPC struct {
	RPCClient
	copyErr error
	calls   int
}

func (c *demoC18cRPC) CopyShard(address, host, database, policy string, shardID uint64, since time.Time) error {
	c.calls++
	return c.copyErr
}

func demoC18cOwners(d *Data, id uint64) []uint64 {
	var ids []uint64
	for _, di := range d.Databases {
		for _, rpi := range di.RetentionPolicies {
			for _, sgi := range rpi.ShardGroups {
				for _, si := range sgi.Shards {
					if si.ID == id {
						for _, o := range si.Owners {
							ids = append(ids, o.NodeID)
						}
					}
				}
			}
		}
	}
	return ids
}

// TestDemoC18c: /copy-shard asks the destination data node to pull the shard from the source
// and, only if that succeeded, records the destination as an owner of the shard. When the copy
// fails part-way (connection lost, truncated archive, restore error ...) the destination holds at
// best a half-populated shard, so the metadata must not advertise it as a replica.
func TestDemoC18c(t *testing.T) {
	setup := func(t *testing.T) (*Data, uint64, NodeInfo, NodeInfo) {
		d := &Data{}
		if err := d.CreateDataNode("src:8086", "src:8088"); err != nil {
			t.Fatal(err)
		}
		if err := d.CreateDataNode("dst:8086", "dst:8088"); err != nil {
			t.Fatal(err)
		}
		if err := d.CreateDatabase("db0"); err != nil {
			t.Fatal(err)
		}
		rpi := NewRetentionPolicyInfo("rp0")
		rpi.ReplicaN = 1
		if err := d.CreateRetentionPolicy("db0", rpi, true); err != nil {
			t.Fatal(err)
		}
		if err := d.CreateShardGroup("db0", "rp0", time.Unix(0, 0)); err != nil {
			t.Fatal(err)
		}
		sgs := d.Databases[0].RetentionPolicies[0].ShardGroups
		if len(sgs) != 1 || len(sgs[0].Shards) == 0 || len(sgs[0].Shards[0].Owners) != 1 {
			t.Fatalf("unexpected shard layout: %+v", sgs)
		}
		sh := sgs[0].Shards[0]
		var src, dst NodeInfo
		for _, n := range d.DataNodes {
			if n.ID == sh.Owners[0].NodeID {
				src = n
			} else {
				dst = n
			}
		}
		if src.ID == 0 || dst.ID == 0 {
			t.Fatalf("could not pick source and destination: %+v", d.DataNodes)
		}
		return d, sh.ID, src, dst
	}

	post := func(h *handler, src, dst NodeInfo, shardID uint64) *httptest.ResponseRecorder {
		form := url.Values{}
		form.Set("src", src.TCPAddr)
		form.Set("dest", dst.TCPAddr)
		form.Set("shard", strconv.FormatUint(shardID, 10))
		r := httptest.NewRequest("POST", "/copy-shard", strings.NewReader(form.Encode()))
		r.Header.Set("Content-Type", "application/x-www-form-urlencoded")
		w := httptest.NewRecorder()
		h.serveCopyShard(w, r)
		return w
	}

	newHandlerC18c := func(d *Data, rpc *demoC18cRPC) *handler {
		return &handler{
			config:    NewConfig(),
			logger:    zap.NewNop(),
			closing:   make(chan struct{}),
			store:     &demoC18cStore{data: d},
			rpcClient: rpc,
		}
	}

	t.Run("copy succeeds: destination becomes an owner", func(t *testing.T) {
		d, shardID, src, dst := setup(t)
		rpc := &demoC18cRPC{}
		w := post(newHandlerC18c(d, rpc), src, dst, shardID)
		if w.Code != http.StatusNoContent {
			t.Fatalf("status = %d, body %q", w.Code, w.Body.String())
		}
		if rpc.calls != 1 {
			t.Fatalf("CopyShard rpc called %d times", rpc.calls)
		}
		owners := demoC18cOwners(d, shardID)
		if len(owners) != 2 {
			t.Fatalf("owners after a successful copy = %v, want source %d and destination %d", owners, src.ID, dst.ID)
		}
	})

	t.Run("copy fails part-way: destination must not be advertised", func(t *testing.T) {
		d, shardID, src, dst := setup(t)
		rpc := &demoC18cRPC{copyErr: errors.New("unexpected EOF")}
		w := post(newHandlerC18c(d, rpc), src, dst, shardID)
		if rpc.calls != 1 {
			t.Fatalf("CopyShard rpc called %d times", rpc.calls)
		}
		if w.Code != http.StatusInternalServerError {
			t.Errorf("status = %d, want 500 for a failed copy", w.Code)
		}
		owners := demoC18cOwners(d, shardID)
		for _, id := range owners {
			if id == dst.ID {
				t.Fatalf("the copy of shard %d to node %d failed (%v) but the metadata lists the node as an owner: owners = %v",
					shardID, dst.ID, rpc.copyErr, owners)
			}
		}
		if len(owners) != 1 || owners[0] != src.ID {
			t.Fatalf("owners after a failed copy = %v, want only the source %d", owners, src.ID)
		}
	})
}

// Witness for (*handler).serveCopyShard/typestate:advertised_only_after_a_successful_copy (model: the copy RPC failed
// and store.copyShard is reached). The scenario above (written by the seeding sub-agent for seed C18c, kept verbatim)
// calls the real handler with an RPC client whose CopyShard fails and a store backed by a real meta.Data.
func TestGovcReplay(t *testing.T) {
	if !t.Run("failed-copy-is-not-advertised", TestDemoC18c) {
		fmt.Println("GOVC-REPLAY-ENSURES-FALSE: the copy failed but the destination was added as an owner of the shard (see the subtest output above)")
		return
	}
	fmt.Println("GOVC-REPLAY-RETURNED")
}
