package coordinator

import (
	"context"
	"fmt"
	"testing"
	"time"

	"github.com/influxdata/influxdb/models"
	"github.com/influxdata/influxdb/services/meta"
)

type govcMeta struct{}

func (govcMeta) NodeID() uint64                        { return 1 }
func (govcMeta) Database(string) *meta.DatabaseInfo    { return nil }
func (govcMeta) RetentionPolicy(string, string) (*meta.RetentionPolicyInfo, error) { return nil, nil }
func (govcMeta) CreateShardGroup(string, string, time.Time) (*meta.ShardGroupInfo, error) {
	return nil, nil
}

type govcHH struct{ accepted int }

func (h *govcHH) WriteShard(shardID, ownerID uint64, points []models.Point) error {
	h.accepted++
	return nil // durably queued
}
func (h *govcHH) Empty(shardID, ownerID uint64) bool { return true } // nothing queued

type govcSW struct{}

func (govcSW) WriteShard(shardID, ownerID uint64, points []models.Point) error {
	return fmt.Errorf("field type conflict") // permanent, not retryable: never offered to hinted handoff
}

type govcStore struct{}

func (govcStore) CreateShard(string, string, uint64, bool) error  { return nil }
func (govcStore) WriteToShard(uint64, []models.Point) error      { return nil }

// Witness for writeToShardWithContext$2/ensures:remote_success_needs_a_copy (model: a remote owner rejects the write
// with a non-retryable error, so nothing is stored and nothing is queued) for every consistency level.
func TestGovcReplay(t *testing.T) {
	defer func() {
		if r := recover(); r != nil {
			fmt.Printf("GOVC-REPLAY-PANIC: %v\n", r)
		}
	}()
	w := NewPointsWriter()
	hh := &govcHH{}
	w.MetaClient, w.HintedHandoff, w.ShardWriter, w.TSDBStore = govcMeta{}, hh, govcSW{}, govcStore{}
	w.WriteTimeout = 2 * time.Second
	shard := &meta.ShardInfo{ID: 7, Owners: []meta.ShardOwner{{NodeID: 2}, {NodeID: 3}}} // coordinator (node 1) is not an owner
	pt := models.MustNewPoint("cpu", models.NewTags(map[string]string{"h": "a"}), models.Fields{"v": 1.0}, time.Unix(1, 0))
	for _, level := range []models.ConsistencyLevel{models.ConsistencyLevelAny, models.ConsistencyLevelOne, models.ConsistencyLevelQuorum, models.ConsistencyLevelAll} {
		err := w.writeToShardWithContext(context.Background(), shard, "db", "rp", level, []models.Point{pt})
		if err == nil && hh.accepted == 0 {
			fmt.Printf("GOVC-REPLAY-ENSURES-FALSE: consistency level %v: every owner rejected the write permanently and nothing was queued, yet the write reports success\n", level)
			return
		}
	}
	fmt.Println("GOVC-REPLAY-RETURNED")
}
