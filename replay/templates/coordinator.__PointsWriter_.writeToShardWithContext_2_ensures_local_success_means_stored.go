package coordinator_test

import (
	"fmt"
	"errors"
	"strings"
	"sync"
	"testing"
	"time"

	"github.com/influxdata/influxdb/coordinator"
	"github.com/influxdata/influxdb/models"
	"github.com/influxdata/influxdb/services/meta"
	"github.com/influxdata/influxdb/tsdb"
)

// --- self-contained fakes (names prefixed to avoid clashes with the package's own test helpers) ---

type demoC03cMeta struct {
	nodeID uint64
	rp     *meta.RetentionPolicyInfo
}

func (m *demoC03cMeta) NodeID() uint64                            { return m.nodeID }
func (m *demoC03cMeta) Database(name string) *meta.DatabaseInfo { return nil }
func (m *demoC03cMeta) RetentionPolicy(database, policy string) (*meta.RetentionPolicyInfo, error) {
	return m.rp, nil
}
func (m *demoC03cMeta) CreateShardGroup(database, policy string, ts time.Time) (*meta.ShardGroupInfo, error) {
	for i := range m.rp.ShardGroups {
		if m.rp.ShardGroups[i].Contains(ts) {
			return &m.rp.ShardGroups[i], nil
		}
	}
	return nil, errors.New("no shard group for time")
}

type demoC03cStore struct {
	mu       sync.Mutex
	writes   int // number of WriteToShard calls
	stored   int // number of WriteToShard calls that stored the points
	created  int
	writeFn  func(call int) error
	createFn func() error
}

func (s *demoC03cStore) WriteToShard(shardID uint64, points []models.Point) error {
	s.mu.Lock()
	defer s.mu.Unlock()
	s.writes++
	err := s.writeFn(s.writes)
	if err == nil {
		s.stored++
	}
	return err
}

func (s *demoC03cStore) CreateShard(database, retentionPolicy string, shardID uint64, enabled bool) error {
	s.mu.Lock()
	defer s.mu.Unlock()
	s.created++
	if s.createFn != nil {
		return s.createFn()
	}
	return nil
}

type demoC03cShardWriter struct {
	mu     sync.Mutex
	stored map[uint64]int
	fn     func(nodeID uint64) error
}

func (w *demoC03cShardWriter) WriteShard(shardID, ownerID uint64, points []models.Point) error {
	err := w.fn(ownerID)
	if err == nil {
		w.mu.Lock()
		w.stored[ownerID]++
		w.mu.Unlock()
	}
	return err
}

type demoC03cHH struct {
	mu     sync.Mutex
	queued map[uint64]int
	fn     func(nodeID uint64) error
}

func (h *demoC03cHH) WriteShard(shardID, ownerID uint64, points []models.Point) error {
	err := h.fn(ownerID)
	if err == nil {
		h.mu.Lock()
		h.queued[ownerID]++
		h.mu.Unlock()
	}
	return err
}

func (h *demoC03cHH) Empty(shardID, ownerID uint64) bool { return true }

func demoC03cSetup(nodeID uint64, owners []uint64) (*demoC03cMeta, []models.Point) {
	so := make([]meta.ShardOwner, 0, len(owners))
	for _, id := range owners {
		so = append(so, meta.ShardOwner{NodeID: id})
	}
	start := time.Now().Add(-time.Minute).UTC()
	rp := &meta.RetentionPolicyInfo{
		Name:               "myrp",
		ReplicaN:           len(owners),
		Duration:           time.Hour,
		ShardGroupDuration: time.Hour,
		ShardGroups: []meta.ShardGroupInfo{{
			ID:        100,
			StartTime: start,
			EndTime:   start.Add(time.Hour),
			Shards:    []meta.ShardInfo{{ID: 101, Owners: so}},
		}},
	}
	pr := &coordinator.WritePointsRequest{Database: "mydb", RetentionPolicy: "myrp"}
	pr.AddPoint("cpu", 1.0, time.Now(), nil)
	return &demoC03cMeta{nodeID: nodeID, rp: rp}, pr.Points
}

// TestDemoC03c: the coordinator is an owner whose local store does not have the shard yet
// (ErrShardNotFound -> CreateShard -> retry). The retried local write is rejected, and no other
// owner stores the points either. No owner stored the points, so no consistency level is met and
// the write must not be reported as a success.
func TestDemoC03c(t *testing.T) {
	diskFull := errors.New("engine: no space left on device")
	unreachable := errors.New("dial tcp: connection refused")

	cases := []struct {
		name   string
		owners []uint64
		level  models.ConsistencyLevel
		// remote owners' direct write result
		remote func(nodeID uint64) error
		// hinted handoff result
		hh func(nodeID uint64) error
	}{
		{
			name:   "single owner (local), one",
			owners: []uint64{1},
			level:  models.ConsistencyLevelOne,
		},
		{
			name:   "single owner (local), all",
			owners: []uint64{1},
			level:  models.ConsistencyLevelAll,
		},
		{
			name:   "three owners, remotes unreachable and queued, one",
			owners: []uint64{1, 2, 3},
			level:  models.ConsistencyLevelOne,
			remote: func(uint64) error { return unreachable },
			hh:     func(uint64) error { return nil },
		},
		{
			name:   "three owners, remotes unreachable and handoff refused, any",
			owners: []uint64{1, 2, 3},
			level:  models.ConsistencyLevelAny,
			remote: func(uint64) error { return unreachable },
			hh:     func(uint64) error { return errors.New("hinted handoff queue full") },
		},
	}

	for _, tc := range cases {
		tc := tc
		t.Run(tc.name, func(t *testing.T) {
			mc, points := demoC03cSetup(1, tc.owners)

			store := &demoC03cStore{
				writeFn: func(call int) error {
					if call == 1 {
						return tsdb.ErrShardNotFound
					}
					return diskFull // the retry after CreateShard is rejected
				},
			}
			sw := &demoC03cShardWriter{stored: map[uint64]int{}, fn: tc.remote}
			hq := &demoC03cHH{queued: map[uint64]int{}, fn: tc.hh}

			w := coordinator.NewPointsWriter()
			w.MetaClient = mc
			w.TSDBStore = store
			w.ShardWriter = sw
			w.HintedHandoff = hq
			w.WriteTimeout = 5 * time.Second
			if err := w.Open(); err != nil {
				t.Fatal(err)
			}
			defer w.Close()

			err := w.WritePointsPrivileged("mydb", "myrp", tc.level, points)

			if store.created != 1 || store.writes != 2 {
				t.Fatalf("expected ErrShardNotFound -> CreateShard -> retry: created=%d writes=%d", store.created, store.writes)
			}
			storedAnywhere := store.stored
			for _, n := range sw.stored {
				storedAnywhere += n
			}
			if storedAnywhere != 0 {
				t.Fatalf("test set-up broken: some owner stored the points")
			}
			if err == nil {
				t.Fatalf("write reported success under consistency %v although no owner stored the points "+
					"(local retry after CreateShard was rejected with %q)", tc.level, diskFull)
			}
			if !strings.Contains(err.Error(), "write failed") {
				t.Fatalf("expected a write failure, got %v", err)
			}
		})
	}
}

// Witness for (*PointsWriter).writeToShardWithContext$2/ensures:local_success_means_stored (model: success is reported for the local owner although the store rejected the write). The scenario above (written by the seeding sub-agent for seed C03c, kept verbatim) is run as is.
func TestGovcReplay(t *testing.T) {
	ok := true
	for _, f := range []struct {
		n string
		f func(*testing.T)
	}{{"local-retry", TestDemoC03c}} {
		ok = t.Run(f.n, f.f) && ok
	}
	if !ok {
		fmt.Println("GOVC-REPLAY-ENSURES-FALSE: a write reports success although no owner stored the points (see the subtest output above)")
		return
	}
	fmt.Println("GOVC-REPLAY-RETURNED")
}
