package tsm1_test

// Demo for seeded defect C01c.
//
// History exercised (property C01, "acknowledged writes survive any crash and
// restart"):
//
//   1. write W1 (acknowledged)
//   2. a cache snapshot starts (Engine.WriteSnapshot); the process crashes in
//      the middle of it: the WAL has been rolled (W1 is in the closed segment
//      _00001.wal, the new current segment _00002.wal is still empty) and the
//      snapshot file is still a .tsm.tmp
//   3. restart; W1 is recovered from the WAL; write W2 (acknowledged)
//   4. crash again before any further snapshot
//   5. restart; both W1 and W2 must be readable.
//
// Crashes are simulated by copying the whole shard tree (data + wal + series
// file) while the engine is still running and never closing that engine before
// the copy is re-opened.

import (
	"context"
	"fmt"
	"io"
	"os"
	"path/filepath"
	"sort"
	"testing"

	"github.com/influxdata/influxdb/models"
	"github.com/influxdata/influxdb/query"
	"github.com/influxdata/influxdb/tsdb"
	"github.com/influxdata/influxdb/tsdb/engine/tsm1"
	"github.com/influxdata/influxdb/tsdb/index/inmem"
	"github.com/influxdata/influxql"
)

type demoC01cIDSets []*tsdb.SeriesIDSet

func (a demoC01cIDSets) ForEach(f func(ids *tsdb.SeriesIDSet)) error {
	for _, v := range a {
		f(v)
	}
	return nil
}

// demoC01cObserver lets the test take a crash image from inside
// FileStore.replace (called by Engine.writeSnapshotAndCommit just before the
// snapshot's .tsm.tmp file is renamed).
type demoC01cObserver struct {
	finishing func(path string)
}

func (o *demoC01cObserver) FileFinishing(path string) error {
	if o.finishing != nil {
		o.finishing(path)
	}
	return nil
}
func (o *demoC01cObserver) FileUnlinking(path string) error { return nil }

type demoC01cEngine struct {
	*tsm1.Engine
	sfile *tsdb.SeriesFile
	index tsdb.Index
}

// abandon releases the resources of an engine whose directory has already been
// copied as a crash image. Nothing it does can reach the copy.
func (e *demoC01cEngine) abandon() {
	e.Engine.Close()
	e.index.Close()
	e.sfile.Close()
}

func demoC01cOpen(t *testing.T, root string, obs tsdb.FileStoreObserver) *demoC01cEngine {
	t.Helper()
	const db = "db0"

	sfile := tsdb.NewSeriesFile(filepath.Join(root, "series"))
	if err := sfile.Open(); err != nil {
		t.Fatalf("open series file: %v", err)
	}

	opt := tsdb.NewEngineOptions()
	opt.IndexVersion = tsdb.InmemIndexName
	opt.InmemIndex = inmem.NewIndex(db, sfile)
	opt.FileStoreObserver = obs
	ids := tsdb.NewSeriesIDSet()
	opt.SeriesIDSets = demoC01cIDSets([]*tsdb.SeriesIDSet{ids})

	idx := tsdb.MustOpenIndex(1, db, filepath.Join(root, "index"), ids, sfile, opt)

	e := tsm1.NewEngine(1, idx, filepath.Join(root, "data"), filepath.Join(root, "wal"), sfile, opt).(*tsm1.Engine)
	if err := e.Open(); err != nil {
		t.Fatalf("open engine at %s: %v", root, err)
	}
	// Same as tsdb.Shard does when it opens a shard.
	if err := e.LoadMetadataIndex(1, idx); err != nil {
		t.Fatalf("load metadata index: %v", err)
	}
	// Background compactions stay enabled as in production; with the default
	// thresholds (25MB cache / 10 minutes idle) none is triggered by this test,
	// the one snapshot that matters is started explicitly.
	return &demoC01cEngine{Engine: e, sfile: sfile, index: idx}
}

func (e *demoC01cEngine) write(t *testing.T, lines string) {
	t.Helper()
	points, err := models.ParsePointsString(lines)
	if err != nil {
		t.Fatal(err)
	}
	for _, p := range points {
		if err := e.CreateSeriesIfNotExists(p.Key(), p.Name(), p.Tags()); err != nil {
			t.Fatal(err)
		}
		itr := p.FieldIterator()
		for itr.Next() {
			if err := e.MeasurementFields(p.Name()).CreateFieldIfNotExists(itr.FieldKey(), influxql.Float); err != nil {
				t.Fatal(err)
			}
		}
	}
	if err := e.WritePoints(points); err != nil {
		t.Fatalf("write not acknowledged: %v", err)
	}
}

// read returns "host@time" -> value for every point of cpu.value.
func (e *demoC01cEngine) read(t *testing.T) map[string]float64 {
	t.Helper()
	got := map[string]float64{}
	itr, err := e.CreateIterator(context.Background(), "cpu", query.IteratorOptions{
		Expr:       influxql.MustParseExpr(`value`),
		Dimensions: []string{"host"},
		StartTime:  influxql.MinTime,
		EndTime:    influxql.MaxTime,
		Ascending:  true,
	})
	if err != nil {
		t.Fatalf("create iterator: %v", err)
	}
	if itr == nil {
		return got
	}
	defer itr.Close()
	fitr, ok := itr.(query.FloatIterator)
	if !ok {
		t.Fatalf("unexpected iterator type %T", itr)
	}
	for {
		p, err := fitr.Next()
		if err != nil {
			t.Fatalf("iterate: %v", err)
		}
		if p == nil {
			break
		}
		got[fmt.Sprintf("%s@%d", p.Tags.Value("host"), p.Time)] = p.Value
	}
	return got
}

func demoC01cCopyTree(t *testing.T, src, dst string) {
	t.Helper()
	err := filepath.Walk(src, func(path string, info os.FileInfo, err error) error {
		if err != nil {
			return err
		}
		rel, err := filepath.Rel(src, path)
		if err != nil {
			return err
		}
		target := filepath.Join(dst, rel)
		if info.IsDir() {
			return os.MkdirAll(target, 0777)
		}
		in, err := os.Open(path)
		if err != nil {
			return err
		}
		defer in.Close()
		out, err := os.Create(target)
		if err != nil {
			return err
		}
		if _, err := io.Copy(out, in); err != nil {
			out.Close()
			return err
		}
		return out.Close()
	})
	if err != nil {
		t.Fatalf("copy crash image: %v", err)
	}
}

func demoC01cListing(dir string) string {
	var s []string
	entries, _ := os.ReadDir(dir)
	for _, de := range entries {
		if info, err := de.Info(); err == nil && !de.IsDir() {
			s = append(s, fmt.Sprintf("%s(%d)", de.Name(), info.Size()))
		}
	}
	sort.Strings(s)
	return fmt.Sprint(s)
}

func demoC01cCheck(t *testing.T, when string, got, want map[string]float64) {
	t.Helper()
	missing, wrong := 0, 0
	for k, v := range want {
		g, ok := got[k]
		if !ok {
			missing++
		} else if g != v {
			wrong++
		}
	}
	if missing > 0 || wrong > 0 {
		t.Fatalf("%s: %d of %d acknowledged points missing, %d with a wrong value (read %d points)",
			when, missing, len(want), wrong, len(got))
	}
}

func TestDemoC01c_AckedWritesSurviveCrashDuringSnapshotThenSecondCrash(t *testing.T) {
	base, err := os.MkdirTemp("", "demo-c01c-")
	if err != nil {
		t.Fatal(err)
	}
	defer os.RemoveAll(base)
	rootA, rootB, rootC := filepath.Join(base, "a"), filepath.Join(base, "b"), filepath.Join(base, "c")

	want := map[string]float64{}

	// ---- first run: W1, then a crash in the middle of the cache snapshot ----
	imaged := false
	obs := &demoC01cObserver{}
	obs.finishing = func(string) {
		if !imaged {
			imaged = true
			demoC01cCopyTree(t, rootA, rootB) // crash image #1
		}
	}
	e1 := demoC01cOpen(t, rootA, obs)

	var w1 string
	for i := 1; i <= 50; i++ {
		w1 += fmt.Sprintf("cpu,host=A value=%d.5 %d\n", i, int64(i)*1000000000)
		want[fmt.Sprintf("A@%d", int64(i)*1000000000)] = float64(i) + 0.5
	}
	e1.write(t, w1) // acknowledged

	if err := e1.WriteSnapshot(); err != nil {
		t.Fatalf("snapshot: %v", err)
	}
	if !imaged {
		t.Fatal("no crash image was taken during the snapshot")
	}
	e1.abandon()
	t.Logf("crash image #1: wal=%s data=%s", demoC01cListing(filepath.Join(rootB, "wal")), demoC01cListing(filepath.Join(rootB, "data")))

	// ---- restart #1 on the crash image: W1 is there; write W2; crash ----
	e2 := demoC01cOpen(t, rootB, nil)
	demoC01cCheck(t, "after restart #1", e2.read(t), want)

	e2.write(t, "cpu,host=B value=1000.5 1000000000000\n") // acknowledged
	want["B@1000000000000"] = 1000.5
	demoC01cCheck(t, "before crash #2", e2.read(t), want)

	demoC01cCopyTree(t, rootB, rootC) // crash image #2 (engine never closed before the copy)
	e2.abandon()
	t.Logf("crash image #2: wal=%s data=%s", demoC01cListing(filepath.Join(rootC, "wal")), demoC01cListing(filepath.Join(rootC, "data")))

	// ---- restart #2: every acknowledged point must still be readable ----
	e3 := demoC01cOpen(t, rootC, nil)
	defer e3.abandon()
	demoC01cCheck(t, "after restart #2", e3.read(t), want)
}

// Witness for tsdb_engine_tsm1.__WAL_.Open_ensures_continues_after_the_newest_segment. The scenario above was written by the seeding sub-agent for seed C01c and is kept verbatim;
// it runs the real code.
func TestGovcReplay(t *testing.T) {
	if !t.Run("scenario", TestDemoC01c_AckedWritesSurviveCrashDuringSnapshotThenSecondCrash) {
		fmt.Println("GOVC-REPLAY-ENSURES-FALSE: acknowledged writes were lost: the WAL reopened with a segment id not after the newest segment on disk (see the subtest output above)")
		return
	}
	fmt.Println("GOVC-REPLAY-RETURNED")
}
