package coordinator

import (
	"fmt"
	"bytes"
	"encoding/binary"
	"net"
	"sync"
	"testing"
	"time"

	"github.com/influxdata/influxdb/models"
)

// demoC15eStore implements only the store method reached by a write request;
// any other call would hit the nil embedded interface.
type demoC15eStore struct {
	TSDBStore
	writeToShard func(shardID uint64, points []models.Point) error
}

func (s *demoC15eStore) WriteToShard(shardID uint64, points []models.Point) error {
	return s.writeToShard(shardID, points)
}

// TestDemoC15e_TruncatedFrame checks that a TLV frame whose payload is shorter
// than its announced length is rejected, both by the frame reader itself and
// by a live handleConn loop (no store call, no success reply).
func TestDemoC15e_TruncatedFrame(t *testing.T) {
	// --- 1. frame helper: announced 10 bytes, only 4 follow -----------------
	{
		var frame bytes.Buffer
		binary.Write(&frame, binary.BigEndian, int64(10))
		frame.Write([]byte{1, 2, 3, 4})
		buf, err := ReadLV(&frame)
		if err == nil {
			t.Errorf("ReadLV accepted a truncated frame: announced 10 bytes, returned %d bytes and no error", len(buf))
		}
	}
	{
		// Same through ReadTLV / DecodeLV.
		var frame bytes.Buffer
		frame.WriteByte(writeShardRequestMessage)
		binary.Write(&frame, binary.BigEndian, int64(64))
		frame.Write([]byte{0x08, 0x01}) // ShardID = 1, then nothing
		if _, buf, err := ReadTLV(&frame); err == nil {
			t.Errorf("ReadTLV accepted a truncated frame: announced 64 bytes, returned %d bytes and no error", len(buf))
		}
	}
	{
		var frame bytes.Buffer
		binary.Write(&frame, binary.BigEndian, int64(64))
		frame.Write([]byte{0x08, 0x07}) // RemoveShardRequest{ShardID: 7}, then nothing
		var req RemoveShardRequest
		if err := DecodeLV(&frame, &req); err == nil {
			t.Errorf("DecodeLV decoded a truncated frame into %+v without error", req)
		}
	}

	// --- 2. live service: truncated write request ----------------------------
	pt := func(i int) models.Point {
		return models.MustNewPoint("cpu", models.NewTags(map[string]string{"host": "server"}),
			map[string]interface{}{"value": int64(i)}, time.Unix(int64(i), 0))
	}

	var full WriteShardRequest
	full.SetShardID(1)
	full.AddPoints([]models.Point{pt(1), pt(2), pt(3)})
	fullBuf, err := full.MarshalBinary()
	if err != nil {
		t.Fatal(err)
	}

	// The encoding of the same request with only the first two points is a
	// strict prefix of the full encoding, i.e. a cut between two points.
	var part WriteShardRequest
	part.SetShardID(1)
	part.AddPoints([]models.Point{pt(1), pt(2)})
	partBuf, err := part.MarshalBinary()
	if err != nil {
		t.Fatal(err)
	}
	if len(partBuf) >= len(fullBuf) || !bytes.Equal(fullBuf[:len(partBuf)], partBuf) {
		t.Fatalf("test setup: two-point encoding is not a prefix of the three-point encoding")
	}

	var mu sync.Mutex
	var written [][]models.Point
	var store demoC15eStore
	store.writeToShard = func(shardID uint64, points []models.Point) error {
		mu.Lock()
		written = append(written, points)
		mu.Unlock()
		return nil
	}

	svc := NewService(Config{})
	svc.TSDBStore = &store

	ln, err := net.Listen("tcp", "127.0.0.1:0")
	if err != nil {
		t.Fatal(err)
	}
	defer ln.Close()
	done := make(chan struct{})
	go func() {
		defer close(done)
		c, err := ln.Accept()
		if err != nil {
			return
		}
		svc.handleConn(c)
	}()

	conn, err := net.Dial("tcp", ln.Addr().String())
	if err != nil {
		t.Fatal(err)
	}
	defer conn.Close()

	// type, announced length of the full request, but only the prefix follows.
	var out bytes.Buffer
	out.WriteByte(writeShardRequestMessage)
	binary.Write(&out, binary.BigEndian, int64(len(fullBuf)))
	out.Write(partBuf)
	if _, err := conn.Write(out.Bytes()); err != nil {
		t.Fatal(err)
	}
	// Sender goes away mid-frame (half close: we can still read a reply).
	if err := conn.(*net.TCPConn).CloseWrite(); err != nil {
		t.Fatal(err)
	}

	conn.SetReadDeadline(time.Now().Add(10 * time.Second))
	typ, respBuf, rerr := ReadTLV(conn)
	if rerr == nil {
		var resp WriteShardResponse
		if err := resp.UnmarshalBinary(respBuf); err != nil {
			t.Fatalf("reply to truncated frame: type=%d, undecodable: %v", typ, err)
		}
		if resp.Code() == 0 {
			t.Errorf("truncated write request (announced %d bytes, sent %d) was answered with success (type=%d code=0)",
				len(fullBuf), len(partBuf), typ)
		}
	}

	select {
	case <-done:
	case <-time.After(10 * time.Second):
		t.Fatal("handleConn did not return after the peer closed the connection")
	}

	mu.Lock()
	defer mu.Unlock()
	if len(written) != 0 {
		t.Errorf("truncated write request reached the store: %d call(s), first with %d point(s)", len(written), len(written[0]))
	}
}

// Witness for coordinator.ReadLV_ensures_bounded_frame. The scenario above was written by the seeding sub-agent for seed C15e and is kept verbatim;
// it runs the real code.
func TestGovcReplay(t *testing.T) {
	if !t.Run("scenario", TestDemoC15e_TruncatedFrame) {
		fmt.Println("GOVC-REPLAY-ENSURES-FALSE: a truncated frame was accepted as a complete, shorter message (see the subtest output above)")
		return
	}
	fmt.Println("GOVC-REPLAY-RETURNED")
}
