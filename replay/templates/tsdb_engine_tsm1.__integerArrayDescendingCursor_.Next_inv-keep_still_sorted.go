package tsm1

import (
	"context"
	"fmt"
	"os"
	"path/filepath"
	"testing"
)

// Witness for the array cursor overlay contracts (<type>Array{Ascending,Descending}Cursor.Next, model: after a
// point was emitted one of the two heads is not strictly beyond it). Two TSM blocks {1,2,3} and {5,6,7} and cache
// values {2,4,6,9} of the same key are read through the real cursors of all five types in both directions: the
// result must have one point per timestamp, strictly monotone, with the cache value at the shared timestamps 2, 6.
func TestGovcReplay(t *testing.T) {
	defer func() {
		if r := recover(); r != nil {
			fmt.Printf("GOVC-REPLAY-PANIC: %v\n", r)
		}
	}()
	type mk func(ts int64, fromCache bool) Value
	kinds := []struct {
		name string
		mk   mk
	}{
		{"integer", func(ts int64, c bool) Value {
			if c {
				return NewValue(ts, ts+100)
			}
			return NewValue(ts, ts)
		}},
		{"float", func(ts int64, c bool) Value {
			if c {
				return NewValue(ts, float64(ts)+100)
			}
			return NewValue(ts, float64(ts))
		}},
		{"unsigned", func(ts int64, c bool) Value {
			if c {
				return NewValue(ts, uint64(ts)+100)
			}
			return NewValue(ts, uint64(ts))
		}},
		{"string", func(ts int64, c bool) Value {
			if c {
				return NewValue(ts, fmt.Sprint(ts+100))
			}
			return NewValue(ts, fmt.Sprint(ts))
		}},
		{"boolean", func(ts int64, c bool) Value { return NewValue(ts, c) }},
	}
	want := []int64{1, 2, 3, 4, 5, 6, 7, 9}
	inCache := map[int64]bool{2: true, 4: true, 6: true, 9: true}
	for _, k := range kinds {
		dir, err := os.MkdirTemp("", "govc-cursor")
		if err != nil {
			fmt.Println("GOVC-REPLAY-RETURNED", err)
			return
		}
		defer os.RemoveAll(dir)
		key := []byte("cpu,host=a#!~#v")
		for id, block := range [][]int64{{1, 2, 3}, {5, 6, 7}} {
			f, err := os.Create(filepath.Join(dir, DefaultFormatFileName(id+1, 1)+".tsm"))
			if err != nil {
				fmt.Println("GOVC-REPLAY-RETURNED", err)
				return
			}
			w, err := NewTSMWriter(f)
			if err != nil {
				fmt.Println("GOVC-REPLAY-RETURNED", err)
				return
			}
			var vs []Value
			for _, ts := range block {
				vs = append(vs, k.mk(ts, false))
			}
			if err := w.Write(key, vs); err != nil {
				fmt.Println("GOVC-REPLAY-RETURNED", err)
				return
			}
			if err := w.WriteIndex(); err != nil {
				fmt.Println("GOVC-REPLAY-RETURNED", err)
				return
			}
			w.Close()
		}
		fs := NewFileStore(dir)
		if err := fs.Open(); err != nil {
			fmt.Println("GOVC-REPLAY-RETURNED", err)
			return
		}
		defer fs.Close()
		var cvals Values
		for _, ts := range []int64{2, 4, 6, 9} {
			cvals = append(cvals, k.mk(ts, true))
		}
		for _, asc := range []bool{true, false} {
			var ts []int64
			var vals []string
			add := func(t []int64, n int, at func(i int) interface{}) {
				for i := 0; i < n; i++ {
					ts = append(ts, t[i])
					vals = append(vals, fmt.Sprint(at(i)))
				}
			}
			seek, end := int64(0), int64(100)
			if !asc {
				seek, end = 100, 0
			}
			kc := fs.KeyCursor(context.Background(), key, seek, asc)
			for rounds := 0; rounds < 10; rounds++ {
				n := 0
				switch k.name {
				case "integer":
					if asc {
						c := newIntegerArrayAscendingCursor()
						if rounds == 0 {
							c.reset(seek, end, cvals, kc)
							intAsc = c
						}
						a := intAsc.Next()
						n = a.Len()
						add(a.Timestamps, n, func(i int) interface{} { return a.Values[i] })
					} else {
						c := newIntegerArrayDescendingCursor()
						if rounds == 0 {
							c.reset(seek, end, cvals, kc)
							intDesc = c
						}
						a := intDesc.Next()
						n = a.Len()
						add(a.Timestamps, n, func(i int) interface{} { return a.Values[i] })
					}
				case "float":
					if asc {
						c := newFloatArrayAscendingCursor()
						if rounds == 0 {
							c.reset(seek, end, cvals, kc)
							floatAsc = c
						}
						a := floatAsc.Next()
						n = a.Len()
						add(a.Timestamps, n, func(i int) interface{} { return a.Values[i] })
					} else {
						c := newFloatArrayDescendingCursor()
						if rounds == 0 {
							c.reset(seek, end, cvals, kc)
							floatDesc = c
						}
						a := floatDesc.Next()
						n = a.Len()
						add(a.Timestamps, n, func(i int) interface{} { return a.Values[i] })
					}
				case "unsigned":
					if asc {
						c := newUnsignedArrayAscendingCursor()
						if rounds == 0 {
							c.reset(seek, end, cvals, kc)
							unsAsc = c
						}
						a := unsAsc.Next()
						n = a.Len()
						add(a.Timestamps, n, func(i int) interface{} { return a.Values[i] })
					} else {
						c := newUnsignedArrayDescendingCursor()
						if rounds == 0 {
							c.reset(seek, end, cvals, kc)
							unsDesc = c
						}
						a := unsDesc.Next()
						n = a.Len()
						add(a.Timestamps, n, func(i int) interface{} { return a.Values[i] })
					}
				case "string":
					if asc {
						c := newStringArrayAscendingCursor()
						if rounds == 0 {
							c.reset(seek, end, cvals, kc)
							strAsc = c
						}
						a := strAsc.Next()
						n = a.Len()
						add(a.Timestamps, n, func(i int) interface{} { return a.Values[i] })
					} else {
						c := newStringArrayDescendingCursor()
						if rounds == 0 {
							c.reset(seek, end, cvals, kc)
							strDesc = c
						}
						a := strDesc.Next()
						n = a.Len()
						add(a.Timestamps, n, func(i int) interface{} { return a.Values[i] })
					}
				case "boolean":
					if asc {
						c := newBooleanArrayAscendingCursor()
						if rounds == 0 {
							c.reset(seek, end, cvals, kc)
							boolAsc = c
						}
						a := boolAsc.Next()
						n = a.Len()
						add(a.Timestamps, n, func(i int) interface{} { return a.Values[i] })
					} else {
						c := newBooleanArrayDescendingCursor()
						if rounds == 0 {
							c.reset(seek, end, cvals, kc)
							boolDesc = c
						}
						a := boolDesc.Next()
						n = a.Len()
						add(a.Timestamps, n, func(i int) interface{} { return a.Values[i] })
					}
				}
				if n == 0 {
					break
				}
			}
			kc.Close()
			exp := append([]int64(nil), want...)
			if !asc {
				for i, j := 0, len(exp)-1; i < j; i, j = i+1, j-1 {
					exp[i], exp[j] = exp[j], exp[i]
				}
			}
			ok := len(ts) == len(exp)
			for i := 0; ok && i < len(exp); i++ {
				if ts[i] != exp[i] || vals[i] != fmt.Sprint(k.mk(exp[i], inCache[exp[i]]).Value()) {
					ok = false
				}
			}
			if !ok {
				fmt.Printf("GOVC-REPLAY-ENSURES-FALSE: %s cursor ascending=%v over TSM {1,2,3},{5,6,7} and cache {2,4,6,9} returns timestamps %v values %v, want one point per timestamp %v with the cache values at 2,4,6,9\n", k.name, asc, ts, vals, exp)
				return
			}
		}
	}
	fmt.Println("GOVC-REPLAY-RETURNED")
}

var (
	intAsc    *integerArrayAscendingCursor
	intDesc   *integerArrayDescendingCursor
	floatAsc  *floatArrayAscendingCursor
	floatDesc *floatArrayDescendingCursor
	unsAsc    *unsignedArrayAscendingCursor
	unsDesc   *unsignedArrayDescendingCursor
	strAsc    *stringArrayAscendingCursor
	strDesc   *stringArrayDescendingCursor
	boolAsc   *booleanArrayAscendingCursor
	boolDesc  *booleanArrayDescendingCursor
)
