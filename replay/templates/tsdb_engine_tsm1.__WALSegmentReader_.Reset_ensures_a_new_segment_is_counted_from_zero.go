package tsm1_test

// Demo for seed C01d: acknowledged writes made after a torn-tail recovery must
// survive the next crash and restart, also when the WAL holds more than one
// segment at the time of the first crash.
//
// History:
//   1. write A                        -> _00001.wal
//   2. the current segment is closed (first step of a cache snapshot; the
//      snapshot itself is not committed before the crash)
//   3. write B, write C               -> _00002.wal
//   4. write D, crash while D is only partly on disk (torn tail of _00002.wal,
//      D was never acknowledged in this world)
//   5. restart #1: A, B, C must be there; write E (acknowledged)
//   6. crash (engine abandoned, no clean close), restart #2:
//      A, B, C and E must be there.

import (
	"fmt"
	"io"
	"os"
	"path/filepath"
	"sort"
	"testing"

	"github.com/influxdata/influxdb/models"
	"github.com/influxdata/influxdb/tsdb"
	"github.com/influxdata/influxdb/tsdb/engine/tsm1"
	"github.com/influxdata/influxdb/tsdb/index/inmem"
)

type seedC01dIDSets []*tsdb.SeriesIDSet

func (a seedC01dIDSets) ForEach(f func(ids *tsdb.SeriesIDSet)) error {
	for _, v := range a {
		f(v)
	}
	return nil
}

// seedC01dOpen opens an engine on the shard directories below root, the way a
// starting process does.
func seedC01dOpen(t *testing.T, root string) *tsm1.Engine {
	t.Helper()
	db := "db0"
	dbPath := filepath.Join(root, "data", db)
	if err := os.MkdirAll(dbPath, 0777); err != nil {
		t.Fatal(err)
	}

	sfile := tsdb.NewSeriesFile(filepath.Join(dbPath, tsdb.SeriesFileDirectory))
	if err := sfile.Open(); err != nil {
		t.Fatal(err)
	}

	opt := tsdb.NewEngineOptions()
	opt.IndexVersion = tsdb.InmemIndexName
	opt.InmemIndex = inmem.NewIndex(db, sfile)
	ids := tsdb.NewSeriesIDSet()
	opt.SeriesIDSets = seedC01dIDSets([]*tsdb.SeriesIDSet{ids})

	idx := tsdb.MustOpenIndex(1, db, filepath.Join(dbPath, "index"), ids, sfile, opt)

	e := tsm1.NewEngine(1, idx, filepath.Join(root, "data"), filepath.Join(root, "wal"), sfile, opt).(*tsm1.Engine)
	if err := e.Open(); err != nil {
		t.Fatalf("open engine on %s: %v", root, err)
	}
	if err := e.LoadMetadataIndex(1, idx); err != nil {
		t.Fatalf("load metadata index: %v", err)
	}

	// Release the resources at the end of the test only: during the test an
	// engine is abandoned, never closed, to model a crash.
	t.Cleanup(func() {
		e.Close()
		idx.Close()
		sfile.Close()
	})
	return e
}

func seedC01dWrite(t *testing.T, e *tsm1.Engine, line string) {
	t.Helper()
	pts, err := models.ParsePointsString(line)
	if err != nil {
		t.Fatal(err)
	}
	for _, p := range pts {
		if err := e.CreateSeriesIfNotExists(p.Key(), p.Name(), p.Tags()); err != nil {
			t.Fatal(err)
		}
	}
	if err := e.WritePoints(pts); err != nil {
		t.Fatalf("write %q: %v", line, err)
	}
}

// seedC01dCopyTree copies the directory tree src to dst: the crash image.
func seedC01dCopyTree(t *testing.T, src, dst string) {
	t.Helper()
	err := filepath.Walk(src, func(p string, info os.FileInfo, err error) error {
		if err != nil {
			return err
		}
		rel, err := filepath.Rel(src, p)
		if err != nil {
			return err
		}
		target := filepath.Join(dst, rel)
		if info.IsDir() {
			return os.MkdirAll(target, 0777)
		}
		in, err := os.Open(p)
		if err != nil {
			return err
		}
		defer in.Close()
		out, err := os.Create(target)
		if err != nil {
			return err
		}
		if _, err := io.Copy(out, in); err != nil {
			out.Close()
			return err
		}
		return out.Close()
	})
	if err != nil {
		t.Fatal(err)
	}
}

func seedC01dSegments(t *testing.T, root string) []string {
	t.Helper()
	names, err := filepath.Glob(filepath.Join(root, "wal", "_*.wal"))
	if err != nil {
		t.Fatal(err)
	}
	sort.Strings(names)
	return names
}

func seedC01dSize(t *testing.T, name string) int64 {
	t.Helper()
	st, err := os.Stat(name)
	if err != nil {
		t.Fatal(err)
	}
	return st.Size()
}

// seedC01dCheck reads every expected point back from the engine.
func seedC01dCheck(t *testing.T, when string, e *tsm1.Engine, want map[string]float64) {
	t.Helper()
	for series, exp := range want {
		key := tsm1.SeriesFieldKeyBytes(series, "value")
		var got []tsm1.Value
		// Nothing was snapshotted in this history, so all data is served from
		// the cache that was rebuilt from the WAL; look into the TSM files too.
		got = append(got, e.Cache.Values(key)...)
		if vs, err := e.FileStore.Read(key, exp2ts(series)); err == nil {
			got = append(got, vs...)
		}
		found := false
		for _, v := range got {
			if v.UnixNano() == exp2ts(series) && v.Value() == exp {
				found = true
			}
		}
		if !found {
			t.Errorf("%s: acknowledged point %s value=%v is not returned (got %v)", when, series, exp, got)
		}
	}
}

// every series of this test has exactly one point; its timestamp is fixed here.
func exp2ts(series string) int64 {
	switch series {
	case "cpu,host=A":
		return 1000000000
	case "cpu,host=B":
		return 2000000000
	case "cpu,host=C":
		return 3000000000
	case "cpu,host=D":
		return 4000000000
	case "cpu,host=E":
		return 5000000000
	}
	return 0
}

func TestDemoC01d_WritesAfterTornTailRecoverySurviveSecondRestart(t *testing.T) {
	root1 := t.TempDir()

	// ---- first process life -------------------------------------------------
	e1 := seedC01dOpen(t, root1)
	seedC01dWrite(t, e1, `cpu,host=A value=1.1 1000000000`)

	// A cache snapshot starts by closing the current WAL segment. The crash
	// below happens before such a snapshot is committed, so both segments are
	// still there when the process restarts.
	if err := e1.WAL.CloseSegment(); err != nil {
		t.Fatal(err)
	}

	seedC01dWrite(t, e1, `cpu,host=B value=2.2 2000000000`)
	seedC01dWrite(t, e1, `cpu,host=C value=3.3 3000000000`)

	segs := seedC01dSegments(t, root1)
	if len(segs) != 2 {
		t.Fatalf("expected 2 WAL segments, got %v", segs)
	}
	synced := seedC01dSize(t, segs[1]) // everything up to here was acknowledged

	// D is being written when the machine dies: only a part of its entry made
	// it to disk, so in the crash image D was never acknowledged.
	seedC01dWrite(t, e1, `cpu,host=D value=4.4 4000000000`)
	full := seedC01dSize(t, segs[1])
	if full <= synced+5 {
		t.Fatalf("unexpected segment sizes %d, %d", synced, full)
	}

	// ---- crash #1: copy the files, tear the unsynced tail ----------------------
	root2 := t.TempDir()
	seedC01dCopyTree(t, root1, root2)
	segs2 := seedC01dSegments(t, root2)
	torn := synced + (full-synced)/2
	if err := os.Truncate(segs2[1], torn); err != nil {
		t.Fatal(err)
	}

	// ---- restart #1 -----------------------------------------------------------
	e2 := seedC01dOpen(t, root2)
	acked := map[string]float64{
		"cpu,host=A": 1.1,
		"cpu,host=B": 2.2,
		"cpu,host=C": 3.3,
	}
	seedC01dCheck(t, "after restart #1", e2, acked)

	// A further write, acknowledged by the recovered process.
	seedC01dWrite(t, e2, `cpu,host=E value=5.5 5000000000`)
	acked["cpu,host=E"] = 5.5
	seedC01dCheck(t, "before crash #2", e2, acked)

	// ---- crash #2: the engine is abandoned without a clean close ---------------
	root3 := t.TempDir()
	seedC01dCopyTree(t, root2, root3)

	// ---- restart #2 -----------------------------------------------------------
	e3 := seedC01dOpen(t, root3)
	seedC01dCheck(t, "after restart #2", e3, acked)

	// The recovered WAL must be readable from its first to its last byte: no
	// hole and no left-over garbage between the entries.
	for _, seg := range seedC01dSegments(t, root3) {
		f, err := os.Open(seg)
		if err != nil {
			t.Fatal(err)
		}
		r := tsm1.NewWALSegmentReader(f)
		for r.Next() {
			if _, err := r.Read(); err != nil {
				t.Errorf("after restart #2: %s is not clean: %v (valid up to %d of %d bytes)",
					filepath.Base(seg), err, r.Count(), seedC01dSize(t, seg))
				break
			}
		}
		r.Close()
	}
}

// Witness for tsdb_engine_tsm1.__WALSegmentReader_.Reset_ensures_a_new_segment_is_counted_from_zero. The scenario above was written by the seeding sub-agent for seed C01d and is kept verbatim;
// it runs the real code.
func TestGovcReplay(t *testing.T) {
	if !t.Run("scenario", TestDemoC01d_WritesAfterTornTailRecoverySurviveSecondRestart) {
		fmt.Println("GOVC-REPLAY-ENSURES-FALSE: acknowledged writes were lost: a later WAL segment was truncated at an offset counted from the start of the first segment (see the subtest output above)")
		return
	}
	fmt.Println("GOVC-REPLAY-RETURNED")
}
