package query_test

import (
	"fmt"
	"testing"

	"github.com/influxdata/influxdb/query"
	"github.com/influxdata/influxql"
)

// TestDemoC15c checks that the time bounds of IteratorOptions survive the
// binary round trip used by the inter-node CreateIterator / IteratorCost
// requests, in particular when a bound is exactly the epoch (0), which is a
// legitimate value (e.g. "WHERE time < 0" or "WHERE time >= 0 AND time <= 0").
func TestDemoC15c(t *testing.T) {
	for _, tt := range []struct {
		name       string
		start, end int64
	}{
		{"both set", 1000, 2000},
		{"pre-epoch range ending at epoch", -3600 * 1000000000, 0},
		{"range starting at epoch", 0, 3600 * 1000000000},
		{"epoch only", 0, 0},
		{"full range", influxql.MinTime, influxql.MaxTime},
	} {
		opt := &query.IteratorOptions{
			Expr:      MustParseExpr("value"),
			StartTime: tt.start,
			EndTime:   tt.end,
			Ascending: true,
			Ordered:   true,
		}

		buf, err := opt.MarshalBinary()
		if err != nil {
			t.Fatalf("%s: marshal: %v", tt.name, err)
		}

		var other query.IteratorOptions
		if err := other.UnmarshalBinary(buf); err != nil {
			t.Fatalf("%s: unmarshal: %v", tt.name, err)
		}

		if other.StartTime != tt.start {
			t.Errorf("%s: StartTime changed over the wire: sent %d, decoded %d", tt.name, tt.start, other.StartTime)
		}
		if other.EndTime != tt.end {
			t.Errorf("%s: EndTime changed over the wire: sent %d, decoded %d", tt.name, tt.end, other.EndTime)
		}
	}
}

// Witness for decodeIteratorOptions/ensures:restores_the_time_range (and the sibling clauses of the iterator options
// codec; model: a scalar option decodes to something else than the message carries). The scenario above (written by
// the seeding sub-agent for seed C15c, kept verbatim) sends IteratorOptions whose time bounds are exactly the epoch
// through MarshalBinary / UnmarshalBinary, as a CreateIteratorRequest does.
func TestGovcReplay(t *testing.T) {
	if !t.Run("options-round-trip", TestDemoC15c) {
		fmt.Println("GOVC-REPLAY-ENSURES-FALSE: iterator options do not decode to what was encoded (see the subtest output above)")
		return
	}
	fmt.Println("GOVC-REPLAY-RETURNED")
}
