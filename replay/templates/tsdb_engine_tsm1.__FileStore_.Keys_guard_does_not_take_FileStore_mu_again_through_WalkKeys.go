package tsm1_test

// govc-replay: schedule-point tsdb/engine/tsm1/file_store.go Keys <<defer f.mu.RUnlock()>>

import (
	"fmt"
	"os"
	"testing"
	"time"

	"github.com/influxdata/influxdb/tsdb/engine/tsm1"
)

// Witness for (*FileStore).Keys/guard:does_not_take_FileStore_mu_again_through_WalkKeys. Keys holds the file store's
// read lock and calls WalkKeys, which takes it again; a writer in between (Replace after a compaction, Close) blocks
// both. Schedule: Close arrives while Keys holds the read lock.
func TestGovcReplay(t *testing.T) {
	dir, err := os.MkdirTemp("", "govc-keys")
	if err != nil {
		t.Fatal(err)
	}
	defer os.RemoveAll(dir)
	fs := tsm1.NewFileStore(dir)
	if err := fs.Open(); err != nil {
		t.Fatal(err)
	}
	paused, goOn := make(chan struct{}), make(chan struct{})
	tsm1.GovcSchedulePoint = func(fn string) {
		if fn == "Keys" {
			close(paused)
			<-goOn
		}
	}
	defer func() { tsm1.GovcSchedulePoint = func(string) {} }()

	done := make(chan struct{})
	go func() { fs.Keys(); close(done) }()
	<-paused
	go fs.Close()
	time.Sleep(200 * time.Millisecond)
	close(goOn)
	select {
	case <-done:
		fmt.Println("GOVC-REPLAY-RETURNED")
	case <-time.After(5 * time.Second):
		fmt.Println("GOVC-REPLAY-ENSURES-FALSE: Keys did not return: it holds the file store's read lock and waits for it again (in WalkKeys) behind Close, which waits for Keys")
	}
}
