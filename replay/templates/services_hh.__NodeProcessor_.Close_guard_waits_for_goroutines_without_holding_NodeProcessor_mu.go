package hh

import (
	"fmt"
	"os"
	"sync"
	"sync/atomic"
	"testing"
	"time"

	"github.com/influxdata/influxdb/models"
	"github.com/influxdata/influxdb/services/meta"
)

// demoC19eWriter is a shard writer whose first delivery blocks until released,
// so that the test can line up Close() with a delivery that is in flight.
type demoC19eWriter struct {
	once    sync.Once
	entered chan struct{}
	release chan struct{}
	calls   int64
}

func (w *demoC19eWriter) WriteShardBinary(shardID, nodeID uint64, points [][]byte) error {
	atomic.AddInt64(&w.calls, 1)
	w.once.Do(func() {
		close(w.entered)
		<-w.release
	})
	return nil
}

type demoC19eMeta struct{}

func (demoC19eMeta) DataNode(nodeID uint64) (*meta.NodeInfo, error) {
	return &meta.NodeInfo{ID: nodeID}, nil
}

// TestDemoC19e_NodeProcessorCloseWhileDraining closes a node processor while its
// background goroutine is in the middle of draining a queue that holds several
// blocks. Close must come back (the property says "no deadlock").
func TestDemoC19e_NodeProcessorCloseWhileDraining(t *testing.T) {
	dir, err := os.MkdirTemp("", "demo_c19e")
	if err != nil {
		t.Fatal(err)
	}
	defer os.RemoveAll(dir)

	w := &demoC19eWriter{entered: make(chan struct{}), release: make(chan struct{})}

	n := NewNodeProcessor(NewConfig(), 200, 100, dir, w, demoC19eMeta{})
	n.RetryInterval = 5 * time.Millisecond
	n.RetryMaxInterval = 5 * time.Millisecond
	if err := n.Open(); err != nil {
		t.Fatalf("open: %v", err)
	}

	// Queue several blocks so that the drain loop has more than one to send.
	pt := models.MustNewPoint("cpu", models.NewTags(map[string]string{"foo": "bar"}), models.Fields{"value": 1.0}, time.Unix(0, 0))
	for i := 0; i < 4; i++ {
		if err := n.WriteShard([]models.Point{pt}); err != nil {
			t.Fatalf("write %d: %v", i, err)
		}
	}

	// Wait until the processor goroutine is delivering the first block.
	select {
	case <-w.entered:
	case <-time.After(10 * time.Second):
		t.Fatal("the processor never tried to deliver the queued block")
	}

	// Close concurrently with the delivery.
	closed := make(chan error, 1)
	go func() { closed <- n.Close() }()

	// Give Close time to queue up behind the delivery, then let the delivery finish.
	time.Sleep(100 * time.Millisecond)
	close(w.release)

	select {
	case err := <-closed:
		if err != nil {
			t.Fatalf("close: %v", err)
		}
	case <-time.After(10 * time.Second):
		t.Fatalf("deadlock: NodeProcessor.Close did not return within 10s of the in-flight delivery finishing (deliveries so far: %d)", atomic.LoadInt64(&w.calls))
	}

	// A second Close is a no-op and must not block either.
	again := make(chan error, 1)
	go func() { again <- n.Close() }()
	select {
	case <-again:
	case <-time.After(5 * time.Second):
		t.Fatal("deadlock: second Close blocked")
	}
}

// Witness for (*NodeProcessor).Close/guard:waits_for_goroutines_without_holding_NodeProcessor_mu. The scenario above was
// written by the seeding sub-agent for seed C19e and is kept verbatim; it runs the real processor.
func TestGovcReplay(t *testing.T) {
	if !t.Run("scenario", TestDemoC19e_NodeProcessorCloseWhileDraining) {
		fmt.Println("GOVC-REPLAY-ENSURES-FALSE: NodeProcessor.Close did not return: it waits for the run loop while holding n.mu, which the loop's SendWrite needs (see the subtest output above)")
		return
	}
	fmt.Println("GOVC-REPLAY-RETURNED")
}
