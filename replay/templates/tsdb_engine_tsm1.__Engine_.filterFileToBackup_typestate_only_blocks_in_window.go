package tsm1_test

import (
	"bytes"
	"context"
	"fmt"
	"math"
	"testing"
	"time"

	"github.com/influxdata/influxdb/models"
	"github.com/influxdata/influxdb/query"
	"github.com/influxdata/influxdb/tsdb"
	"github.com/influxdata/influxql"
)

// Witness for (*Engine).filterFileToBackup (inv-keep:no_block_in_window_dropped / typestate:only_blocks_in_window):
// one series per way a block's [min,max] can lie relative to the export window [2s,4s] - wider on both sides,
// inside, overlapping the left edge, overlapping the right edge, touching an edge, and disjoint on either side.
// After Export + Restore the destination must return, inside the window, exactly what the source returns, and
// must not contain the series whose only block lies outside the window.
func TestGovcReplay(t *testing.T) {
	defer func() {
		if r := recover(); r != nil {
			fmt.Printf("GOVC-REPLAY-PANIC: %v\n", r)
		}
	}()
	const sec = int64(time.Second)
	src := MustOpenEngine(tsdb.InmemIndexName)
	defer src.Close()
	src.MeasurementFields([]byte("cpu")).CreateFieldIfNotExists([]byte("value"), influxql.Float)
	series := map[string][]int64{
		"wider":   {1, 3, 5},
		"inside":  {3},
		"left":    {1, 2},
		"right":   {4, 6},
		"touchlo": {1, 2},
		"touchhi": {4, 9},
		"before":  {1},
		"after":   {7, 8},
	}
	var lines []string
	for h, ts := range series {
		src.CreateSeriesIfNotExists([]byte("cpu,host="+h), []byte("cpu"), models.NewTags(map[string]string{"host": h}))
		for _, s := range ts {
			lines = append(lines, fmt.Sprintf("cpu,host=%s value=%d %d", h, s, s*sec))
		}
	}
	if err := src.WritePointsString(lines...); err != nil {
		fmt.Println("GOVC-REPLAY-RETURNED write:", err)
		return
	}
	if err := src.WriteSnapshot(); err != nil {
		fmt.Println("GOVC-REPLAY-RETURNED snapshot:", err)
		return
	}
	start, end := time.Unix(0, 2*sec), time.Unix(0, 4*sec)
	var buf bytes.Buffer
	if err := src.Export(&buf, "", start, end); err != nil {
		fmt.Println("GOVC-REPLAY-RETURNED export:", err)
		return
	}
	dst := MustOpenEngine(tsdb.InmemIndexName)
	defer dst.Close()
	if err := dst.Restore(&buf, ""); err != nil {
		fmt.Println("GOVC-REPLAY-RETURNED restore:", err)
		return
	}
	read := func(e *Engine, lo, hi int64) []string {
		itr, err := e.CreateIterator(context.Background(), "cpu", query.IteratorOptions{
			Expr: influxql.MustParseExpr(`value`), Dimensions: []string{"host"}, StartTime: lo, EndTime: hi, Ascending: true})
		if err != nil || itr == nil {
			return nil
		}
		defer itr.Close()
		var out []string
		for {
			p, err := itr.(query.FloatIterator).Next()
			if err != nil || p == nil {
				break
			}
			out = append(out, fmt.Sprintf("%s@%d=%v", p.Tags.ID(), p.Time/sec, p.Value))
		}
		return out
	}
	want, got := fmt.Sprint(read(src, start.UnixNano(), end.UnixNano())), fmt.Sprint(read(dst, start.UnixNano(), end.UnixNano()))
	if want != got {
		fmt.Printf("GOVC-REPLAY-ENSURES-FALSE: inside the export window the restored shard differs from the source: source %s restored %s\n", want, got)
		return
	}
	for _, p := range read(dst, math.MinInt64, math.MaxInt64) {
		if bytes.Contains([]byte(p), []byte("before")) || bytes.Contains([]byte(p), []byte("after")) {
			fmt.Printf("GOVC-REPLAY-ENSURES-FALSE: a block wholly outside the window was exported: %s\n", p)
			return
		}
	}
	fmt.Println("GOVC-REPLAY-RETURNED")
}
