package tsm1_test

import (
	"context"
	"fmt"
	"os"
	"path/filepath"
	"testing"
	"time"

	"github.com/influxdata/influxdb/models"
	"github.com/influxdata/influxdb/query"
	"github.com/influxdata/influxdb/tsdb"
	"github.com/influxdata/influxdb/tsdb/engine/tsm1"
	"github.com/influxdata/influxdb/tsdb/index/inmem"
	"github.com/influxdata/influxql"
)

// govcLeakSets exposes the series id set of the (single) shard to the engine, the
// way tsdb.Store's shardSet does.
type govcLeakSets struct {
	indexes []tsdb.Index
}

func (a *govcLeakSets) ForEach(f func(ids *tsdb.SeriesIDSet)) error {
	for _, idx := range a.indexes {
		f(idx.SeriesIDSet())
	}
	return nil
}

type govcLeakElem struct {
	name []byte
	tags models.Tags
}

func (s govcLeakElem) Name() []byte        { return s.name }
func (s govcLeakElem) Tags() models.Tags   { return s.tags }
func (s govcLeakElem) Deleted() bool       { return false }
func (s govcLeakElem) Expr() influxql.Expr { return nil }

type govcLeakSeriesIterator struct {
	keys [][]byte
}

func (itr *govcLeakSeriesIterator) Close() error { return nil }
func (itr *govcLeakSeriesIterator) Next() (tsdb.SeriesElem, error) {
	if len(itr.keys) == 0 {
		return nil, nil
	}
	name, tags := models.ParseKeyBytes(itr.keys[0])
	itr.keys = itr.keys[1:]
	return govcLeakElem{name: name, tags: tags}, nil
}

// govcLeakPlanner never plans a compaction.
type govcLeakPlanner struct{}

func (m *govcLeakPlanner) Plan(lastWrite time.Time) []tsm1.CompactionGroup { return nil }
func (m *govcLeakPlanner) PlanLevel(level int) []tsm1.CompactionGroup      { return nil }
func (m *govcLeakPlanner) PlanOptimize() []tsm1.CompactionGroup            { return nil }
func (m *govcLeakPlanner) Release(groups []tsm1.CompactionGroup)           {}
func (m *govcLeakPlanner) FullyCompacted() bool                            { return false }
func (m *govcLeakPlanner) ForceFull()                                      {}
func (m *govcLeakPlanner) SetFileStore(fs *tsm1.FileStore)                 {}

type govcLeakShard struct {
	*tsm1.Engine
	index tsdb.Index
	sfile *tsdb.SeriesFile
	root  string
}

func govcLeakOpenShard(t *testing.T, indexType string, root string) *govcLeakShard {
	t.Helper()
	var err error
	if root == "" {
		root, err = os.MkdirTemp("", "govc-leak-")
		if err != nil {
			t.Fatal(err)
		}
	}
	shardPath := filepath.Join(root, "data", "db0", "rp0", "1")
	walPath := filepath.Join(root, "wal", "db0", "rp0", "1")
	if err := os.MkdirAll(shardPath, 0777); err != nil {
		t.Fatal(err)
	}

	sfile := tsdb.NewSeriesFile(filepath.Join(root, "data", "db0", tsdb.SeriesFileDirectory))
	if err := sfile.Open(); err != nil {
		t.Fatal(err)
	}

	sets := &govcLeakSets{}
	opt := tsdb.NewEngineOptions()
	opt.IndexVersion = indexType
	if indexType == tsdb.InmemIndexName {
		opt.InmemIndex = inmem.NewIndex("db0", sfile)
	}
	opt.SeriesIDSets = sets

	idx := tsdb.MustOpenIndex(1, "db0", filepath.Join(shardPath, "index"), tsdb.NewSeriesIDSet(), sfile, opt)
	sets.indexes = append(sets.indexes, idx)

	e := tsm1.NewEngine(1, idx, shardPath, walPath, sfile, opt).(*tsm1.Engine)
	// No level/full compactions during the test: only explicit snapshots.
	e.CompactionPlan = &govcLeakPlanner{}
	if err := e.Open(); err != nil {
		t.Fatal(err)
	}
	return &govcLeakShard{Engine: e, index: idx, sfile: sfile, root: root}
}

func (s *govcLeakShard) close() {
	s.Engine.Close()
	s.index.Close()
	s.sfile.Close()
}

func (s *govcLeakShard) mustWrite(t *testing.T, lines string) {
	t.Helper()
	points, err := models.ParsePointsString(lines)
	if err != nil {
		t.Fatal(err)
	}
	for _, p := range points {
		if err := s.CreateSeriesIfNotExists(p.Key(), p.Name(), p.Tags()); err != nil {
			t.Fatal(err)
		}
	}
	if err := s.WritePoints(points); err != nil {
		t.Fatal(err)
	}
}

// mustRead returns "time=value" for every point of cpu.value with host=<host>.
func (s *govcLeakShard) mustRead(t *testing.T, host string) string {
	t.Helper()
	itr, err := s.CreateIterator(context.Background(), "cpu", query.IteratorOptions{
		Expr:       influxql.MustParseExpr(`value`),
		Condition:  influxql.MustParseExpr(fmt.Sprintf(`host = '%s'`, host)),
		Dimensions: []string{"host"},
		StartTime:  influxql.MinTime,
		EndTime:    influxql.MaxTime,
		Ascending:  true,
	})
	if err != nil {
		t.Fatal(err)
	}
	if itr == nil {
		return "[]"
	}
	defer itr.Close()

	got := []string{}
	fitr := itr.(query.FloatIterator)
	for {
		p, err := fitr.Next()
		if err != nil {
			t.Fatal(err)
		} else if p == nil {
			break
		}
		got = append(got, fmt.Sprintf("%ds=%v", p.Time/1000000000, p.Value))
	}
	return fmt.Sprint(got)
}



func TestGovcLeakScenario(t *testing.T) {
	for round := 0; round < 10; round++ {
		sh := govcLeakOpenShard(t, "inmem", "")
		root := sh.root
		if err := sh.MeasurementFields([]byte("cpu")).CreateFieldIfNotExists([]byte("value"), influxql.Float); err != nil {
			t.Fatal(err)
		}
		for i := 0; i < 6; i++ {
			if i%2 == 0 {
				sh.mustWrite(t, fmt.Sprintf("cpu,host=A value=1 %d000000000\ncpu,host=A value=1 %d000000000", 10*i+1, 1000+i))
			} else {
				sh.mustWrite(t, fmt.Sprintf("cpu,host=B value=1 %d000000000", 10*i+1))
			}
			if err := sh.WriteSnapshot(); err != nil {
				t.Fatal(err)
			}
		}
		done := make(chan error, 1)
		go func() {
			itr := &govcLeakSeriesIterator{keys: [][]byte{[]byte("cpu,host=A")}}
			// one point of A in every file that holds A stays
			done <- sh.DeleteSeriesRangeWithPredicate(itr, func(name []byte, tags models.Tags) (int64, int64, bool) {
				return 0, 1000000000 * 500, true
			})
		}()
		_ = done
		itr := &govcLeakSeriesIterator{keys: [][]byte{[]byte("cpu,host=A")}}
		_ = itr
		select {
		case err := <-done:
			if err != nil {
				t.Fatal(err)
			}
		case <-time.After(5 * time.Second):
			t.Fatalf("round %d: the delete did not return within 5s (deadlock)", round)
		}
		sh.close()
		os.RemoveAll(root)
	}
}


// Witness for (*Engine).deleteSeriesRange$6/guard:returns_with_var_seriesKeysLock_as_on_entry (the pass that
// crosses out series which still have data returns from inside its read-locked section when a file only holds
// keys beyond the last deleted series). Real engine, six TSM files, three of them without the deleted series;
// a delete of part of the series' time range must return.
func TestGovcReplay(t *testing.T) {
	if !t.Run("partial-delete-returns", TestGovcLeakScenario) {
		fmt.Println("GOVC-REPLAY-ENSURES-FALSE: a delete did not return: a goroutine of FileStore.Apply left seriesKeysLock read-locked and another one waits for the write lock for ever (see the subtest output above)")
		return
	}
	fmt.Println("GOVC-REPLAY-RETURNED")
}
