// govc-replay: race
package tsm1_test

// Demo for seed C19c. Goes into tsdb/engine/tsm1/ (package tsm1_test, uses only
// the exported API). Run with:
//   go test -race -vet=off -count=1 -run 'Demo' ./tsdb/engine/tsm1/

import (
	"fmt"
	"os"
	"path/filepath"
	"sync"
	"testing"

	"github.com/influxdata/influxdb/tsdb/engine/tsm1"
)

// demoC19cWriteTSM writes one small TSM file with the given generation and
// returns its path.
func demoC19cWriteTSM(t *testing.T, dir string, gen int, key string, ts int64) string {
	t.Helper()
	name := filepath.Join(dir, fmt.Sprintf("%09d-%09d.%s", gen, 1, tsm1.TSMFileExtension))
	fd, err := os.OpenFile(name, os.O_CREATE|os.O_RDWR|os.O_EXCL, 0666)
	if err != nil {
		t.Fatalf("create tsm file: %v", err)
	}
	w, err := tsm1.NewTSMWriter(fd)
	if err != nil {
		t.Fatalf("new tsm writer: %v", err)
	}
	if err := w.Write([]byte(key), []tsm1.Value{tsm1.NewValue(ts, float64(ts))}); err != nil {
		t.Fatalf("write: %v", err)
	}
	if err := w.WriteIndex(); err != nil {
		t.Fatalf("write index: %v", err)
	}
	if err := w.Close(); err != nil {
		t.Fatalf("close: %v", err)
	}
	return name
}

// TestDemoC19c_ConcurrentCreateSnapshot takes snapshots (what a backup of a shard
// does) of one file store from several goroutines at once. Every call must
// succeed and every call must be handed its own, distinct temporary directory
// holding a hard link for every TSM file: the directory counter is only ever
// advanced inside the file store's exclusive lock.
func TestDemoC19c_ConcurrentCreateSnapshot(t *testing.T) {
	dir, err := os.MkdirTemp("", "demo-c19c-")
	if err != nil {
		t.Fatal(err)
	}
	defer os.RemoveAll(dir)

	fs := tsm1.NewFileStore(dir)
	files := []string{
		demoC19cWriteTSM(t, dir, 1, "cpu,host=a#!~#value", 1),
		demoC19cWriteTSM(t, dir, 2, "cpu,host=b#!~#value", 2),
	}
	if err := fs.Replace(nil, files); err != nil {
		t.Fatalf("replace: %v", err)
	}
	defer fs.Close()

	const (
		workers = 8
		rounds  = 60
	)

	var (
		mu    sync.Mutex
		seen  = make(map[string]int)
		errs  []error
		wg    sync.WaitGroup
		start = make(chan struct{})
	)

	for w := 0; w < workers; w++ {
		wg.Add(1)
		go func() {
			defer wg.Done()
			<-start
			for i := 0; i < rounds; i++ {
				p, err := fs.CreateSnapshot()
				mu.Lock()
				if err != nil {
					errs = append(errs, err)
				} else {
					seen[p]++
				}
				mu.Unlock()
			}
		}()
	}
	close(start)
	wg.Wait()

	for _, err := range errs {
		t.Errorf("CreateSnapshot failed under concurrency: %v", err)
	}
	for p, n := range seen {
		if n > 1 {
			t.Errorf("snapshot directory %s was handed to %d callers", p, n)
		}
		for _, f := range files {
			if _, err := os.Stat(filepath.Join(p, filepath.Base(f))); err != nil {
				t.Errorf("snapshot %s is incomplete: %v", p, err)
			}
		}
	}
	if got, want := len(seen)+len(errs), workers*rounds; got != want && len(errs) == 0 {
		t.Errorf("got %d distinct snapshot directories for %d calls", len(seen), want)
	}
}

// Witness for tsdb_engine_tsm1.__FileStore_.CreateSnapshot_guard_write_of_FileStore.currentTempDirID_holds_mu. The scenario above was written by the seeding sub-agent for seed C19c and is kept verbatim;
// it runs the real code.
func TestGovcReplay(t *testing.T) {
	if !t.Run("scenario", TestDemoC19c_ConcurrentCreateSnapshot) {
		fmt.Println("GOVC-REPLAY-ENSURES-FALSE: concurrent CreateSnapshot calls raced on FileStore.currentTempDirID (see the subtest output above)")
		return
	}
	fmt.Println("GOVC-REPLAY-RETURNED")
}
