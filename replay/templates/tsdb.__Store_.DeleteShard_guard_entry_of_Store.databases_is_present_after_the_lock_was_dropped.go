package tsdb_test

// govc-replay: schedule-point tsdb/store.go DeleteShard <<guards, gen := epoch.StartWrite()>>

import (
	"fmt"
	"testing"
	"time"

	"github.com/influxdata/influxdb/tsdb"
)

// Witness for (*Store).DeleteShard/guard:entry_of_Store.databases_is_present_after_the_lock_was_dropped. DeleteShard
// drops the store's lock while it removes the shard's files and afterwards calls a method on s.databases[db]
// without checking that the entry is still there. Schedule: the delete of a shard has left its first critical
// section; DROP DATABASE runs to completion (the shard is pending and not part of it); the delete goes on. The
// schedule point (see the header; inserted into a copy of the real file by the runner) only decides when the
// deleting goroutine goes on.
func TestGovcReplay(t *testing.T) {
	s := MustOpenStore("inmem")
	// both shards hold the same series, so the shard delete has no series of its own to remove
	s.MustCreateShardWithData("db0", "rp0", 1, "cpu,host=a value=1 1")
	s.MustCreateShardWithData("db0", "rp0", 2, "cpu,host=a value=1 2")

	paused := make(chan struct{})
	goOn := make(chan struct{})
	tsdb.GovcSchedulePoint = func(fn string) {
		if fn == "DeleteShard" {
			close(paused)
			<-goOn
		}
	}
	defer func() { tsdb.GovcSchedulePoint = func(string) {} }()

	res := make(chan string, 1)
	go func() {
		defer func() {
			if r := recover(); r != nil {
				res <- fmt.Sprintf("PANIC in DeleteShard: %v", r)
			}
		}()
		res <- fmt.Sprintf("DeleteShard: %v", s.DeleteShard(2))
	}()
	<-paused
	if err := s.DeleteDatabase("db0"); err != nil {
		fmt.Printf("GOVC-REPLAY-RETURNED (DeleteDatabase failed: %v)\n", err)
		return
	}
	close(goOn)
	select {
	case r := <-res:
		if len(r) > 5 && r[:5] == "PANIC" {
			fmt.Printf("GOVC-REPLAY-PANIC: %s (the database's entry had been removed by DROP DATABASE; the store's lock is held by the panicking goroutine)\n", r)
			return
		}
		fmt.Printf("GOVC-REPLAY-RETURNED %s\n", r)
	case <-time.After(10 * time.Second):
		// the nil dereference happened with s.mu held; while the panic unwinds, DeleteShard's own deferred
		// clean-up asks for s.mu again: the goroutine blocks for ever and so does everyone else
		wedged := make(chan struct{})
		go func() { s.ShardN(); close(wedged) }()
		select {
		case <-wedged:
			fmt.Println("GOVC-REPLAY-RETURNED (DeleteShard did not return, but the store still answers)")
		case <-time.After(3 * time.Second):
			fmt.Println("GOVC-REPLAY-ENSURES-FALSE: DeleteShard dereferenced the removed database entry with the store's lock held and never returned; the store is wedged (ShardN does not return either)")
		}
	}
}
