package hh

import (
	"bytes"
	"fmt"
	"io"
	"os"
	"testing"
	"time"

	"github.com/influxdata/influxdb/models"
	"github.com/influxdata/influxdb/services/meta"
)

// TestDemoC04d_QueueAppendBetweenCurrentAndAdvance: a block is appended to the queue after the
// reader fetched the head block (Current) and before it acknowledged it (Advance). This is the
// normal situation while a send is in flight. Every accepted block must still come out, in order,
// both from the live queue and after a close/reopen.
func TestDemoC04d_QueueAppendBetweenCurrentAndAdvance(t *testing.T) {
	dir, err := os.MkdirTemp("", "hh_demo_c04d")
	if err != nil {
		t.Fatal(err)
	}
	defer os.RemoveAll(dir)

	q, err := newQueue(dir, 1<<20, 100)
	if err != nil {
		t.Fatal(err)
	}
	if err := q.Open(); err != nil {
		t.Fatal(err)
	}

	blockA := []byte("aaaaa")               // 5 bytes
	blockB := bytes.Repeat([]byte("b"), 40) // 40 bytes
	blockC := []byte("cc")                  // 2 bytes
	blockD := bytes.Repeat([]byte("d"), 17) // 17 bytes
	want := [][]byte{blockA, blockB, blockC, blockD}

	if err := q.Append(blockA); err != nil {
		t.Fatal(err)
	}

	var got [][]byte
	read := func() []byte {
		t.Helper()
		b, err := q.Current()
		if err != nil {
			t.Fatalf("Current() after %d delivered blocks: %v", len(got), err)
		}
		return append([]byte(nil), b...)
	}

	// Reader picks up A ...
	got = append(got, read())
	// ... while it is being sent, two more blocks are accepted ...
	if err := q.Append(blockB); err != nil {
		t.Fatal(err)
	}
	if err := q.Append(blockC); err != nil {
		t.Fatal(err)
	}
	// ... and then A is acknowledged.
	if err := q.Advance(); err != nil {
		t.Fatal(err)
	}

	if q.Empty() {
		t.Fatalf("queue reports empty with blocks B and C pending")
	}

	// B is read; D is accepted while B is in flight; B is acknowledged.
	got = append(got, read())
	if err := q.Append(blockD); err != nil {
		t.Fatal(err)
	}
	if err := q.Advance(); err != nil {
		t.Fatal(err)
	}

	// Clean restart with C and D pending.
	if err := q.Close(); err != nil {
		t.Fatal(err)
	}
	q, err = newQueue(dir, 1<<20, 100)
	if err != nil {
		t.Fatal(err)
	}
	if err := q.Open(); err != nil {
		t.Fatal(err)
	}
	defer q.Close()

	for i := 0; i < 2; i++ {
		got = append(got, read())
		if err := q.Advance(); err != nil {
			t.Fatal(err)
		}
	}
	if _, err := q.Current(); err != io.EOF {
		t.Fatalf("expected io.EOF after the last block, got %v", err)
	}
	if !q.Empty() {
		t.Fatalf("queue not empty after everything was delivered")
	}

	if len(got) != len(want) {
		t.Fatalf("delivered %d blocks, want %d", len(got), len(want))
	}
	for i := range want {
		if !bytes.Equal(got[i], want[i]) {
			t.Fatalf("block %d: got %q, want %q", i, got[i], want[i])
		}
	}
}

type demoC04dWriter struct {
	fn func(shardID, nodeID uint64, points [][]byte) error
}

func (w *demoC04dWriter) WriteShardBinary(shardID, nodeID uint64, points [][]byte) error {
	return w.fn(shardID, nodeID, points)
}

type demoC04dMeta struct{}

func (demoC04dMeta) DataNode(id uint64) (*meta.NodeInfo, error) { return &meta.NodeInfo{ID: id}, nil }

// TestDemoC04d_NodeProcessorWriteDuringSend drives the same history through the real
// NodeProcessor: hinted writes for the node keep arriving while a block is being sent to it.
// The target must receive every accepted point, in the order accepted.
func TestDemoC04d_NodeProcessorWriteDuringSend(t *testing.T) {
	dir, err := os.MkdirTemp("", "hh_demo_c04d_np")
	if err != nil {
		t.Fatal(err)
	}
	defer os.RemoveAll(dir)

	mkPoints := func(batch, n int) []models.Point {
		pts := make([]models.Point, 0, n)
		for i := 0; i < n; i++ {
			pts = append(pts, models.MustNewPoint("cpu",
				models.NewTags(map[string]string{"batch": fmt.Sprintf("%d", batch)}),
				models.Fields{"value": float64(i)}, time.Unix(int64(batch), int64(i))))
		}
		return pts
	}
	// Batches of different sizes, so blocks have different lengths.
	batches := [][]models.Point{mkPoints(0, 1), mkPoints(1, 7), mkPoints(2, 3), mkPoints(3, 12), mkPoints(4, 2)}

	var want, got []string
	for _, b := range batches {
		for _, p := range b {
			want = append(want, p.String())
		}
	}

	var n *NodeProcessor
	next := 1
	w := &demoC04dWriter{fn: func(shardID, nodeID uint64, points [][]byte) error {
		// A new hinted write is accepted while this block is in flight.
		if next < len(batches) {
			if err := n.WriteShard(batches[next]); err != nil {
				t.Fatalf("WriteShard during send: %v", err)
			}
			next++
		}
		for _, pb := range points {
			p, err := models.NewPointFromBytes(pb)
			if err != nil {
				t.Fatalf("target received an undecodable point: %v", err)
			}
			got = append(got, p.String())
		}
		return nil
	}}

	cfg := NewConfig()
	n = NewNodeProcessor(cfg, 2, 1, dir, w, demoC04dMeta{})
	// Keep the background sender out of the way: the test drives SendWrite itself.
	n.RetryInterval = time.Hour
	n.RetryMaxInterval = time.Hour
	n.PurgeInterval = time.Hour
	if err := n.Open(); err != nil {
		t.Fatal(err)
	}
	defer n.Close()

	if err := n.WriteShard(batches[0]); err != nil {
		t.Fatal(err)
	}

	for i := 0; i < 4*len(batches); i++ {
		if _, err := n.SendWrite(); err == io.EOF && n.Empty() {
			break
		}
	}

	if !n.Empty() {
		t.Fatalf("processor queue not drained")
	}
	if len(got) != len(want) {
		t.Fatalf("target received %d points, %d were accepted", len(got), len(want))
	}
	for i := range want {
		if got[i] != want[i] {
			t.Fatalf("point %d: target received %q, accepted %q", i, got[i], want[i])
		}
	}
}

// Witness for (*segment).flush/ensures:the_length_of_the_block_being_read_is_kept. The scenarios above were written by the
// seeding sub-agent for seed C04d and are kept verbatim; they run the real queue and node processor.
func TestGovcReplay(t *testing.T) {
	ok1 := t.Run("append-between-current-and-advance", TestDemoC04d_QueueAppendBetweenCurrentAndAdvance)
	ok2 := t.Run("write-during-send", TestDemoC04d_NodeProcessorWriteDuringSend)
	if !ok1 || !ok2 {
		fmt.Println("GOVC-REPLAY-ENSURES-FALSE: an append while a block was being read replaced the remembered length of that block; Advance then moved to a wrong offset and accepted blocks were lost (see the subtest output above)")
		return
	}
	fmt.Println("GOVC-REPLAY-RETURNED")
}
