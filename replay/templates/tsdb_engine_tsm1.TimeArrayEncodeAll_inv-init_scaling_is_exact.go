package tsm1

import (
	"fmt"
	"testing"
)

// Witness for TimeArrayEncodeAll's divisor obligations (divisor_divides_all_seen / scaling_is_exact /
// rle_scaling_is_exact): timestamp sequences in which exactly one delta - at each position in turn - is not a
// multiple of the power of ten that all the others share, encoded and decoded with the real functions.
func TestGovcReplay(t *testing.T) {
	defer func() {
		if r := recover(); r != nil {
			fmt.Printf("GOVC-REPLAY-PANIC: %v\n", r)
		}
	}()
	for _, scale := range []int64{10, 1000, 1000000000, 1000000000000} {
		for n := 2; n <= 6; n++ {
			for odd := 1; odd < n; odd++ {
				for _, uniform := range []bool{true, false} {
					ts := make([]int64, n)
					for i := 1; i < n; i++ {
						d := scale
						if !uniform {
							d = scale * int64(i)
						}
						if i == odd {
							d += 3
						}
						ts[i] = ts[i-1] + d
					}
					want := append([]int64(nil), ts...)
					enc, err := TimeArrayEncodeAll(append([]int64(nil), ts...), nil)
					if err != nil {
						continue
					}
					got, err := TimeArrayDecodeAll(enc, nil)
					if err != nil || fmt.Sprint(got) != fmt.Sprint(want) {
						fmt.Printf("GOVC-REPLAY-ENSURES-FALSE: decode(encode(%v)) = %v (%v)\n", want, got, err)
						return
					}
				}
			}
		}
	}
	fmt.Println("GOVC-REPLAY-RETURNED")
}
