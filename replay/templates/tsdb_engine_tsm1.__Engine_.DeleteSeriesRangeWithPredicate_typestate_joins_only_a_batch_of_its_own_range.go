package tsm1_test

import (
	"bytes"
	"context"
	"fmt"
	"os"
	"path/filepath"
	"testing"
	"time"

	"github.com/influxdata/influxdb/models"
	"github.com/influxdata/influxdb/query"
	"github.com/influxdata/influxdb/tsdb"
	"github.com/influxdata/influxdb/tsdb/engine/tsm1"
	"github.com/influxdata/influxdb/tsdb/index/inmem"
	"github.com/influxdata/influxql"
)

// demoC10dSets exposes the series id set of the (single) shard to the engine, the
// way tsdb.Store's shardSet does.
type demoC10dSets struct {
	indexes []tsdb.Index
}

func (a *demoC10dSets) ForEach(f func(ids *tsdb.SeriesIDSet)) error {
	for _, idx := range a.indexes {
		f(idx.SeriesIDSet())
	}
	return nil
}

type demoC10dElem struct {
	name []byte
	tags models.Tags
}

func (s demoC10dElem) Name() []byte        { return s.name }
func (s demoC10dElem) Tags() models.Tags   { return s.tags }
func (s demoC10dElem) Deleted() bool       { return false }
func (s demoC10dElem) Expr() influxql.Expr { return nil }

type demoC10dSeriesIterator struct {
	keys [][]byte
}

func (itr *demoC10dSeriesIterator) Close() error { return nil }
func (itr *demoC10dSeriesIterator) Next() (tsdb.SeriesElem, error) {
	if len(itr.keys) == 0 {
		return nil, nil
	}
	name, tags := models.ParseKeyBytes(itr.keys[0])
	itr.keys = itr.keys[1:]
	return demoC10dElem{name: name, tags: tags}, nil
}

// demoC10dPlanner never plans a compaction.
type demoC10dPlanner struct{}

func (m *demoC10dPlanner) Plan(lastWrite time.Time) []tsm1.CompactionGroup { return nil }
func (m *demoC10dPlanner) PlanLevel(level int) []tsm1.CompactionGroup      { return nil }
func (m *demoC10dPlanner) PlanOptimize() []tsm1.CompactionGroup            { return nil }
func (m *demoC10dPlanner) Release(groups []tsm1.CompactionGroup)           {}
func (m *demoC10dPlanner) FullyCompacted() bool                            { return false }
func (m *demoC10dPlanner) ForceFull()                                      {}
func (m *demoC10dPlanner) SetFileStore(fs *tsm1.FileStore)                 {}

type demoC10dShard struct {
	*tsm1.Engine
	index tsdb.Index
	sfile *tsdb.SeriesFile
	root  string
}

func demoC10dOpenShard(t *testing.T, indexType string) *demoC10dShard {
	t.Helper()

	root, err := os.MkdirTemp("", "demo-c10d-")
	if err != nil {
		t.Fatal(err)
	}
	shardPath := filepath.Join(root, "data", "db0", "rp0", "1")
	walPath := filepath.Join(root, "wal", "db0", "rp0", "1")
	if err := os.MkdirAll(shardPath, 0777); err != nil {
		t.Fatal(err)
	}

	sfile := tsdb.NewSeriesFile(filepath.Join(root, "data", "db0", tsdb.SeriesFileDirectory))
	if err := sfile.Open(); err != nil {
		t.Fatal(err)
	}

	sets := &demoC10dSets{}
	opt := tsdb.NewEngineOptions()
	opt.IndexVersion = indexType
	if indexType == tsdb.InmemIndexName {
		opt.InmemIndex = inmem.NewIndex("db0", sfile)
	}
	opt.SeriesIDSets = sets

	idx := tsdb.MustOpenIndex(1, "db0", filepath.Join(shardPath, "index"), tsdb.NewSeriesIDSet(), sfile, opt)
	sets.indexes = append(sets.indexes, idx)

	e := tsm1.NewEngine(1, idx, shardPath, walPath, sfile, opt).(*tsm1.Engine)
	// No level/full compactions during the test: only explicit snapshots.
	e.CompactionPlan = &demoC10dPlanner{}
	if err := e.Open(); err != nil {
		t.Fatal(err)
	}
	return &demoC10dShard{Engine: e, index: idx, sfile: sfile, root: root}
}

func (s *demoC10dShard) close() {
	s.Engine.Close()
	s.index.Close()
	s.sfile.Close()
	os.RemoveAll(s.root)
}

func (s *demoC10dShard) mustWrite(t *testing.T, lines string) {
	t.Helper()
	points, err := models.ParsePointsString(lines)
	if err != nil {
		t.Fatal(err)
	}
	for _, p := range points {
		if err := s.CreateSeriesIfNotExists(p.Key(), p.Name(), p.Tags()); err != nil {
			t.Fatal(err)
		}
	}
	if err := s.WritePoints(points); err != nil {
		t.Fatal(err)
	}
}

// mustRead returns "time=value" for every point of cpu.value with host=<host>.
func (s *demoC10dShard) mustRead(t *testing.T, host string) string {
	t.Helper()
	itr, err := s.CreateIterator(context.Background(), "cpu", query.IteratorOptions{
		Expr:       influxql.MustParseExpr(`value`),
		Condition:  influxql.MustParseExpr(fmt.Sprintf(`host = '%s'`, host)),
		Dimensions: []string{"host"},
		StartTime:  influxql.MinTime,
		EndTime:    influxql.MaxTime,
		Ascending:  true,
	})
	if err != nil {
		t.Fatal(err)
	}
	if itr == nil {
		return "[]"
	}
	defer itr.Close()

	got := []string{}
	fitr := itr.(query.FloatIterator)
	for {
		p, err := fitr.Next()
		if err != nil {
			t.Fatal(err)
		} else if p == nil {
			break
		}
		got = append(got, fmt.Sprintf("%ds=%v", p.Time/1000000000, p.Value))
	}
	return fmt.Sprint(got)
}

const demoC10dPoints = `cpu,host=A value=1 1000000000
cpu,host=A value=2 2000000000
cpu,host=A value=3 3000000000
cpu,host=A value=4 4000000000
cpu,host=A value=5 5000000000
cpu,host=B value=1 1000000000
cpu,host=B value=2 2000000000
cpu,host=B value=3 3000000000
cpu,host=B value=4 4000000000
cpu,host=B value=5 5000000000
cpu,host=C value=1 1000000000
cpu,host=C value=5 5000000000`

// One delete selects two series, each with its own (inclusive) time range:
//
//	cpu,host=A  [1s,2s]
//	cpu,host=B  [1s,4s]     (same lower bound, different upper bound)
//
// Exactly the points of each series that lie in that series' own range must be
// removed and nothing else, whether the points live in a TSM file or in the cache.
func TestDemoC10d_DeleteWithPerSeriesRanges(t *testing.T) {
	predicate := func(name []byte, tags models.Tags) (int64, int64, bool) {
		if !bytes.Equal(name, []byte("cpu")) {
			return 0, 0, false
		}
		switch tags.GetString("host") {
		case "A":
			return 1000000000, 2000000000, true
		case "B":
			return 1000000000, 4000000000, true
		}
		return 0, 0, false
	}

	for _, indexType := range tsdb.RegisteredIndexes() {
		for _, where := range []string{"tsm", "cache"} {
			t.Run(indexType+"/"+where, func(t *testing.T) {
				sh := demoC10dOpenShard(t, indexType)
				defer sh.close()

				if err := sh.MeasurementFields([]byte("cpu")).CreateFieldIfNotExists([]byte("value"), influxql.Float); err != nil {
					t.Fatal(err)
				}
				sh.mustWrite(t, demoC10dPoints)
				if where == "tsm" {
					if err := sh.WriteSnapshot(); err != nil {
						t.Fatal(err)
					}
				}

				itr := &demoC10dSeriesIterator{keys: [][]byte{
					[]byte("cpu,host=A"), []byte("cpu,host=B"), []byte("cpu,host=C"),
				}}
				if err := sh.DeleteSeriesRangeWithPredicate(itr, predicate); err != nil {
					t.Fatalf("delete failed: %v", err)
				}

				check := func(stage string) {
					t.Helper()
					if got, exp := sh.mustRead(t, "A"), "[3s=3 4s=4 5s=5]"; got != exp {
						t.Errorf("%s: cpu,host=A (deleted [1s,2s]): got %v, exp %v", stage, got, exp)
					}
					if got, exp := sh.mustRead(t, "B"), "[5s=5]"; got != exp {
						t.Errorf("%s: cpu,host=B (deleted [1s,4s]): got %v, exp %v", stage, got, exp)
					}
					if got, exp := sh.mustRead(t, "C"), "[1s=1 5s=5]"; got != exp {
						t.Errorf("%s: cpu,host=C (not selected): got %v, exp %v", stage, got, exp)
					}
				}
				check("after delete")

				// The outcome must be the same once the cache has been snapshotted.
				if err := sh.WriteSnapshot(); err != nil {
					t.Fatal(err)
				}
				check("after snapshot")
			})
		}
	}
}

// Witness for tsdb_engine_tsm1.__Engine_.DeleteSeriesRangeWithPredicate_typestate_joins_only_a_batch_of_its_own_range. The scenario above was written by the seeding sub-agent for seed C10d and is kept verbatim;
// it runs the real code.
func TestGovcReplay(t *testing.T) {
	if !t.Run("scenario", TestDemoC10d_DeleteWithPerSeriesRanges) {
		fmt.Println("GOVC-REPLAY-ENSURES-FALSE: a series was deleted over a range other than the one the predicate returned for it (see the subtest output above)")
		return
	}
	fmt.Println("GOVC-REPLAY-RETURNED")
}
