package hh

import (
	"fmt"
	"os"
	"testing"
)

// Witness for (*segment).close/ensures:accepted_blocks_reach_the_file (model: the segment is closed while its write
// buffer holds accepted blocks). Eleven writers are in flight (each holds a limiter token): one small block is
// accepted on the buffered path - Append returns nil - and the ten others are refused with ErrQueueFull, so
// nobody flushes. Then the queue is closed cleanly and reopened: the accepted block must still be there.
func TestGovcReplay(t *testing.T) {
	defer func() {
		if r := recover(); r != nil {
			fmt.Printf("GOVC-REPLAY-PANIC: %v\n", r)
		}
	}()
	dir, _ := os.MkdirTemp("", "govc-hh")
	defer os.RemoveAll(dir)
	q, err := newQueue(dir, 1000, 64)
	if err != nil {
		fmt.Println("GOVC-REPLAY-RETURNED", err)
		return
	}
	if err := q.Open(); err != nil {
		fmt.Println("GOVC-REPLAY-RETURNED", err)
		return
	}
	// ten writers have taken their token and are about to take the queue lock
	for i := 0; i < 10; i++ {
		if !q.limiter.TryTake() {
			fmt.Println("GOVC-REPLAY-RETURNED: limiter refused")
			return
		}
	}
	if err := q.Append([]byte("accepted on the buffered path")); err != nil {
		fmt.Println("GOVC-REPLAY-RETURNED", err)
		return
	}
	// the ten others now run one after the other; their blocks do not fit: ErrQueueFull, no flush
	big := make([]byte, 2000)
	for i := 0; i < 10; i++ {
		q.limiter.Release()
		if err := q.Append(big); err != ErrQueueFull {
			fmt.Println("GOVC-REPLAY-RETURNED: expected ErrQueueFull, got", err)
			return
		}
	}
	if err := q.Close(); err != nil {
		fmt.Println("GOVC-REPLAY-RETURNED", err)
		return
	}
	q2, err := newQueue(dir, 1000, 64)
	if err != nil {
		fmt.Println("GOVC-REPLAY-RETURNED", err)
		return
	}
	if err := q2.Open(); err != nil {
		fmt.Println("GOVC-REPLAY-RETURNED", err)
		return
	}
	defer q2.Close()
	b, err := q2.Current()
	if err != nil || string(b) != "accepted on the buffered path" {
		fmt.Printf("GOVC-REPLAY-ENSURES-FALSE: a block accepted by Append (buffered path) is gone after a clean Close and reopen: Current() = %q, %v\n", b, err)
		return
	}
	fmt.Println("GOVC-REPLAY-RETURNED")
}
