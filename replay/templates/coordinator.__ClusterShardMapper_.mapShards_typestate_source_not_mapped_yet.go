package coordinator

import (
	"fmt"
	"testing"
	"time"

	"github.com/influxdata/influxdb/query"
	"github.com/influxdata/influxdb/services/meta"
	"github.com/influxdata/influxdb/tsdb"
	"github.com/influxdata/influxql"
)

type govcMapMC struct {
	MetaClient // only the methods below are used by MapShards
	local  uint64
	groups []meta.ShardGroupInfo
}

func (m *govcMapMC) NodeID() uint64 { return m.local }
func (m *govcMapMC) DataNode(id uint64) (*meta.NodeInfo, error) {
	return &meta.NodeInfo{ID: id}, nil
}
func (m *govcMapMC) ShardGroupsByTimeRange(database, policy string, min, max time.Time) ([]meta.ShardGroupInfo, error) {
	return m.groups, nil
}

type govcMapStore struct{}

func (govcMapStore) ShardGroup(ids []uint64) tsdb.ShardGroup { return nil }

// Witness for (*ClusterShardMapper).mapShards/typestate:source_not_mapped_yet (model: the mapping of a source is
// rebuilt although it already has remote shard groups). A statement with several measurements of one database
// and retention policy is mapped for three cluster layouts - the coordinator owns none, some, or all of the
// shards; every remote shard must end up in exactly one remote shard group.
func TestGovcReplay(t *testing.T) {
	defer func() {
		if r := recover(); r != nil {
			fmt.Printf("GOVC-REPLAY-PANIC: %v\n", r)
		}
	}()
	layouts := map[string][]meta.ShardGroupInfo{
		"coordinator owns none": {{ID: 1, Shards: []meta.ShardInfo{{ID: 11, Owners: []meta.ShardOwner{{NodeID: 2}}}, {ID: 12, Owners: []meta.ShardOwner{{NodeID: 3}}}}}},
		"coordinator owns some": {{ID: 1, Shards: []meta.ShardInfo{{ID: 11, Owners: []meta.ShardOwner{{NodeID: 1}}}, {ID: 12, Owners: []meta.ShardOwner{{NodeID: 3}}}}}},
		"coordinator owns all":  {{ID: 1, Shards: []meta.ShardInfo{{ID: 11, Owners: []meta.ShardOwner{{NodeID: 1}}}, {ID: 12, Owners: []meta.ShardOwner{{NodeID: 1}}}}}},
	}
	sources := influxql.Sources{
		&influxql.Measurement{Database: "db", RetentionPolicy: "rp", Name: "cpu"},
		&influxql.Measurement{Database: "db", RetentionPolicy: "rp", Name: "mem"},
		&influxql.Measurement{Database: "db", RetentionPolicy: "rp", Name: "disk"},
	}
	for name, groups := range layouts {
		m := &ClusterShardMapper{MetaClient: &govcMapMC{local: 1, groups: groups}, TSDBStore: govcMapStore{}, MetaExecutor: NewMetaExecutor(time.Second, time.Second, time.Second, 2)}
		sg, err := m.MapShards(sources, influxql.TimeRange{Min: time.Unix(0, 0), Max: time.Unix(3600, 0)}, query.SelectOptions{})
		if err != nil {
			fmt.Println("GOVC-REPLAY-RETURNED", err)
			return
		}
		a := sg.(*ClusterShardMapping)
		reads := map[uint64]int{}
		for _, rgs := range a.RemoteShardMapping {
			for _, rg := range rgs {
				for _, si := range rg.shards {
					reads[si.ID]++
				}
			}
		}
		for id, n := range reads {
			if n != 1 {
				fmt.Printf("GOVC-REPLAY-ENSURES-FALSE: layout %q, 3 measurements of one db/rp: remote shard %d is mapped %d times (it would be read %d times)\n", name, id, n, n)
				return
			}
		}
	}
	fmt.Println("GOVC-REPLAY-RETURNED")
}
