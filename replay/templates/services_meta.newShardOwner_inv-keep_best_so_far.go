package meta

import (
	"fmt"
	"testing"
	"time"
)

// Witness for newShardOwner/inv-keep:best_so_far (model: two candidate nodes own equally few shards of the group
// and the one with the larger id is produced first by the map range). The same DeleteDataNode command is
// applied to identical copies of the metadata, as every replica does; the copies must stay identical.
func TestGovcReplay(t *testing.T) {
	defer func() {
		if r := recover(); r != nil {
			fmt.Printf("GOVC-REPLAY-PANIC: %v\n", r)
		}
	}()
	base := &Data{
		DataNodes: []NodeInfo{{ID: 1}, {ID: 2}, {ID: 3}, {ID: 4}},
		Databases: []DatabaseInfo{{Name: "db", RetentionPolicies: []RetentionPolicyInfo{{Name: "rp", ReplicaN: 1, ShardGroupDuration: time.Hour,
			ShardGroups: []ShardGroupInfo{{ID: 1, StartTime: time.Unix(0, 0), EndTime: time.Unix(3600, 0), Shards: []ShardInfo{
				{ID: 1, Owners: []ShardOwner{{NodeID: 1}}},
				{ID: 2, Owners: []ShardOwner{{NodeID: 2}}},
				{ID: 3, Owners: []ShardOwner{{NodeID: 3}}},
				{ID: 4, Owners: []ShardOwner{{NodeID: 4}}},
			}}}}}}},
	}
	seen := map[uint64]bool{}
	for i := 0; i < 400; i++ {
		replica := base.Clone()
		if err := replica.DeleteDataNode(1); err != nil {
			fmt.Println("GOVC-REPLAY-RETURNED", err)
			return
		}
		owners := replica.Databases[0].RetentionPolicies[0].ShardGroups[0].Shards[0].Owners
		if len(owners) != 1 {
			fmt.Println("GOVC-REPLAY-RETURNED unexpected owners", owners)
			return
		}
		seen[owners[0].NodeID] = true
	}
	if len(seen) > 1 {
		fmt.Printf("GOVC-REPLAY-ENSURES-FALSE: the same DeleteDataNode(1) on identical metadata reassigns shard 1 to different nodes on different replicas: %v\n", seen)
		return
	}
	fmt.Println("GOVC-REPLAY-RETURNED")
}
