// govc-replay: race
package tsdb_test

import (
	"fmt"
	"sync"
	"testing"
)

// Witness for (*Store).IndexBytes/guard:callee_needs_s.mu@Store.shardIDs#1 and (*Store).DeleteShard/guard:
// read_of_Store.databases_holds_mu (model: the store's maps are read while the store's lock is not held). Runs under
// the race detector: shards are created and deleted (retention does the latter, the first write into a new shard
// group the former) while IndexBytes is polled (SHOW STATS) - all three are public operations of the store.
func TestGovcReplay(t *testing.T) {
	defer func() {
		if r := recover(); r != nil {
			fmt.Printf("GOVC-REPLAY-PANIC: %v\n", r)
		}
	}()
	s := MustOpenStore("inmem")
	defer s.Close()
	var wg sync.WaitGroup
	created := make(chan uint64, 64)
	done := make(chan struct{})
	wg.Add(2)
	go func() {
		defer wg.Done()
		defer close(created)
		for i := 1; i <= 40; i++ {
			if err := s.CreateShard(fmt.Sprintf("db%d", i%3), "rp", uint64(i), true); err == nil {
				created <- uint64(i)
			}
		}
	}()
	go func() {
		defer wg.Done()
		defer close(done)
		for id := range created {
			s.DeleteShard(id) // runs while the next shards are being created
		}
	}()
	for polling := true; polling; {
		select {
		case <-done:
			polling = false
		default:
			s.IndexBytes()
		}
	}
	wg.Wait()
	fmt.Println("GOVC-REPLAY-RETURNED")
}
