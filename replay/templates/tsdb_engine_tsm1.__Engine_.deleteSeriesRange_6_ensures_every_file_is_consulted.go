package tsm1_test

// Demo for seeded defect C10c.
//
// History: a series is written and snapshotted twice, so that it owns points in
// two TSM files whose time ranges do not overlap.  A range delete then removes
// exactly the points held by the older file.  The points in the newer file are
// outside of the deleted range, so the series still has data: it must stay
// listed in the shard's index (and series file) and its remaining points must
// still be readable, immediately and after a restart.

import (
	"fmt"
	"context"
	"os"
	"path/filepath"
	"sort"
	"testing"
	"time"

	"github.com/influxdata/influxdb/models"
	"github.com/influxdata/influxdb/query"
	"github.com/influxdata/influxdb/tsdb"
	"github.com/influxdata/influxdb/tsdb/engine/tsm1"
	"github.com/influxdata/influxdb/tsdb/index/inmem"
	"github.com/influxdata/influxql"
)

type demoC10cIDSets []*tsdb.SeriesIDSet

func (a demoC10cIDSets) ForEach(f func(ids *tsdb.SeriesIDSet)) error {
	for _, v := range a {
		f(v)
	}
	return nil
}

type demoC10cPlanner struct{}

func (demoC10cPlanner) Plan(lastWrite time.Time) []tsm1.CompactionGroup { return nil }
func (demoC10cPlanner) PlanLevel(level int) []tsm1.CompactionGroup      { return nil }
func (demoC10cPlanner) PlanOptimize() []tsm1.CompactionGroup            { return nil }
func (demoC10cPlanner) Release(groups []tsm1.CompactionGroup)           {}
func (demoC10cPlanner) FullyCompacted() bool                            { return false }
func (demoC10cPlanner) ForceFull()                                      {}
func (demoC10cPlanner) SetFileStore(fs *tsm1.FileStore)                 {}

type demoC10cElem struct {
	name []byte
	tags models.Tags
}

func (s demoC10cElem) Name() []byte        { return s.name }
func (s demoC10cElem) Tags() models.Tags   { return s.tags }
func (s demoC10cElem) Deleted() bool       { return false }
func (s demoC10cElem) Expr() influxql.Expr { return nil }

type demoC10cSeriesIterator struct{ keys [][]byte }

func (itr *demoC10cSeriesIterator) Close() error { return nil }
func (itr *demoC10cSeriesIterator) Next() (tsdb.SeriesElem, error) {
	if len(itr.keys) == 0 {
		return nil, nil
	}
	name, tags := models.ParseKeyBytes(itr.keys[0])
	itr.keys = itr.keys[1:]
	return demoC10cElem{name: name, tags: tags}, nil
}

// demoC10cShard bundles an engine with the index and series file it uses.
type demoC10cShard struct {
	root  string
	index tsdb.Index
	sfile *tsdb.SeriesFile
	e     *tsm1.Engine
}

func demoC10cOpen(t *testing.T, root, indexType string) *demoC10cShard {
	t.Helper()
	db := "db0"
	dbPath := filepath.Join(root, "data", db)
	if err := os.MkdirAll(dbPath, 0777); err != nil {
		t.Fatal(err)
	}

	sfile := tsdb.NewSeriesFile(filepath.Join(dbPath, tsdb.SeriesFileDirectory))
	if err := sfile.Open(); err != nil {
		t.Fatal(err)
	}

	opt := tsdb.NewEngineOptions()
	opt.IndexVersion = indexType
	if indexType == tsdb.InmemIndexName {
		opt.InmemIndex = inmem.NewIndex(db, sfile)
	}
	ids := tsdb.NewSeriesIDSet()
	opt.SeriesIDSets = demoC10cIDSets{ids}

	idx := tsdb.MustOpenIndex(1, db, filepath.Join(dbPath, "index"), ids, sfile, opt)
	e := tsm1.NewEngine(1, idx, filepath.Join(root, "data"), filepath.Join(root, "wal"), sfile, opt).(*tsm1.Engine)
	// No background level compactions: the test drives every step itself.
	e.CompactionPlan = demoC10cPlanner{}
	if err := e.Open(); err != nil {
		t.Fatal(err)
	}
	if err := e.LoadMetadataIndex(1, idx); err != nil {
		t.Fatal(err)
	}
	return &demoC10cShard{root: root, index: idx, sfile: sfile, e: e}
}

func (s *demoC10cShard) close(t *testing.T) {
	t.Helper()
	s.index.Close()
	s.sfile.Close()
	if err := s.e.Close(); err != nil {
		t.Fatal(err)
	}
}

func (s *demoC10cShard) write(t *testing.T, lines string) {
	t.Helper()
	points, err := models.ParsePointsString(lines)
	if err != nil {
		t.Fatal(err)
	}
	// Do what tsdb.Shard does ahead of an engine write: register the field,
	// persist the field set and create the series in the index.
	for _, p := range points {
		mf := s.e.MeasurementFields(p.Name())
		if err := mf.CreateFieldIfNotExists([]byte("value"), influxql.Float); err != nil {
			t.Fatal(err)
		}
		if err := s.e.CreateSeriesIfNotExists(p.Key(), p.Name(), p.Tags()); err != nil {
			t.Fatal(err)
		}
	}
	if err := s.e.MeasurementFieldSet().Save(); err != nil {
		t.Fatal(err)
	}
	if err := s.e.WritePoints(points); err != nil {
		t.Fatal(err)
	}
}

// listed returns the sorted series keys the index lists for a measurement.
func (s *demoC10cShard) listed(t *testing.T, measurement string) []string {
	t.Helper()
	is := tsdb.IndexSet{Indexes: []tsdb.Index{s.index}, SeriesFile: s.sfile}
	itr, err := is.MeasurementSeriesIDIterator([]byte(measurement))
	if err != nil {
		t.Fatal(err)
	}
	if itr == nil {
		return nil
	}
	defer itr.Close()

	var out []string
	for {
		elem, err := itr.Next()
		if err != nil {
			t.Fatal(err)
		}
		if elem.SeriesID == 0 {
			break
		}
		if s.sfile.IsDeleted(elem.SeriesID) {
			continue
		}
		name, tags := s.sfile.Series(elem.SeriesID)
		out = append(out, string(models.MakeKey(name, tags)))
	}
	sort.Strings(out)
	return out
}

// read returns the timestamps of all float points of cpu.value, keyed by host.
func (s *demoC10cShard) read(t *testing.T) map[string][]int64 {
	t.Helper()
	out := map[string][]int64{}
	itr, err := s.e.CreateIterator(context.Background(), "cpu", query.IteratorOptions{
		Expr:       influxql.MustParseExpr(`value`),
		Dimensions: []string{"host"},
		StartTime:  influxql.MinTime,
		EndTime:    influxql.MaxTime,
		Ascending:  true,
	})
	if err != nil {
		t.Fatal(err)
	}
	if itr == nil {
		return out
	}
	defer itr.Close()
	fitr, ok := itr.(query.FloatIterator)
	if !ok {
		t.Fatalf("unexpected iterator type %T", itr)
	}
	for {
		p, err := fitr.Next()
		if err != nil {
			t.Fatal(err)
		}
		if p == nil {
			break
		}
		host := p.Tags.Value("host")
		out[host] = append(out[host], p.Time)
	}
	return out
}

func demoC10cEqualTimes(a, b []int64) bool {
	if len(a) != len(b) {
		return false
	}
	for i := range a {
		if a[i] != b[i] {
			return false
		}
	}
	return true
}

func TestDemoC10c_RangeDeleteKeepsSeriesWithPointsInOtherFile(t *testing.T) {
	const sec = int64(1000000000)

	for _, indexType := range tsdb.RegisteredIndexes() {
		indexType := indexType
		t.Run(indexType, func(t *testing.T) {
			root, err := os.MkdirTemp("", "demo-c10c-")
			if err != nil {
				t.Fatal(err)
			}
			defer os.RemoveAll(root)

			s := demoC10cOpen(t, root, indexType)
			closed := false
			defer func() {
				if !closed {
					s.close(t)
				}
			}()

			// Old points -> first TSM file, time range [1s, 2s].
			s.write(t, "cpu,host=A value=1.1 1000000000\ncpu,host=A value=1.2 2000000000\ncpu,host=B value=2.1 1000000000")
			if err := s.e.WriteSnapshot(); err != nil {
				t.Fatal(err)
			}
			// Newer points -> second TSM file, time range [10s, 11s].
			s.write(t, "cpu,host=A value=1.3 10000000000\ncpu,host=A value=1.4 11000000000\ncpu,host=B value=2.2 10000000000")
			if err := s.e.WriteSnapshot(); err != nil {
				t.Fatal(err)
			}
			if got := s.e.FileStore.Count(); got != 2 {
				t.Fatalf("expected 2 TSM files, got %d", got)
			}

			// DELETE FROM cpu WHERE host = 'A' AND time >= 0 AND time <= 5s
			itr := &demoC10cSeriesIterator{keys: [][]byte{[]byte("cpu,host=A")}}
			if err := s.e.DeleteSeriesRange(itr, 0, 5*sec); err != nil {
				t.Fatalf("delete failed: %v", err)
			}

			wantA := []int64{10 * sec, 11 * sec}
			wantB := []int64{1 * sec, 10 * sec}

			check := func(when string) {
				t.Helper()
				listed := s.listed(t, "cpu")
				if len(listed) != 2 || listed[0] != "cpu,host=A" || listed[1] != "cpu,host=B" {
					t.Errorf("%s: series listing = %v, want [cpu,host=A cpu,host=B]: cpu,host=A still has points at 10s and 11s", when, listed)
				}
				got := s.read(t)
				if !demoC10cEqualTimes(got["A"], wantA) {
					t.Errorf("%s: points of cpu,host=A = %v, want %v (only [0s,5s] was deleted)", when, got["A"], wantA)
				}
				if !demoC10cEqualTimes(got["B"], wantB) {
					t.Errorf("%s: points of cpu,host=B = %v, want %v (series was not selected)", when, got["B"], wantB)
				}
			}

			check("after delete")

			// The outcome must also survive a restart of the shard.
			s.close(t)
			closed = true
			s = demoC10cOpen(t, root, indexType)
			closed = false
			check("after restart")
		})
	}
}

// Witness for (*Engine).deleteSeriesRange$6/ensures:every_file_is_consulted (model: the cross-out pass returns
// without consulting a file's keys). The scenario above (written by the seeding sub-agent for seed C10c, kept
// verbatim) writes a series into two files with disjoint time ranges, range-deletes over the first file's range
// and checks the series is still listed and its remaining points readable (both index types, also after restart).
func TestGovcReplay(t *testing.T) {
	if !t.Run("range-delete-keeps-series", TestDemoC10c_RangeDeleteKeepsSeriesWithPointsInOtherFile) {
		fmt.Println("GOVC-REPLAY-ENSURES-FALSE: a range delete removed a series from the index although a file outside the deleted range still holds its points (see the subtest output above)")
		return
	}
	fmt.Println("GOVC-REPLAY-RETURNED")
}
