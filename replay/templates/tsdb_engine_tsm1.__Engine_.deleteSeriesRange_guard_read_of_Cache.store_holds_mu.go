// govc-replay: race
package tsm1_test

import (
	"fmt"
	"sync"
	"testing"

	"github.com/influxdata/influxdb/models"
	"github.com/influxdata/influxql"
)

// Witness for (*Engine).deleteSeriesRange/guard:read_of_Cache.store_holds_mu (model: the cache's store is read while
// the cache's lock is not held). Runs under the race detector: cache snapshots (which swap Cache.store under the write
// lock) run concurrently with range deletes of another series (which look at the cache's store to decide whether
// anything can overlap the deleted range).
func TestGovcReplay(t *testing.T) {
	defer func() {
		if r := recover(); r != nil {
			fmt.Printf("GOVC-REPLAY-PANIC: %v\n", r)
		}
	}()
	e := MustOpenEngine("inmem")
	defer e.Close()
	for _, h := range []string{"A", "B"} {
		e.CreateSeriesIfNotExists([]byte("cpu,host="+h), []byte("cpu"), models.NewTags(map[string]string{"host": h}))
	}
	e.MeasurementFields([]byte("cpu")).CreateFieldIfNotExists([]byte("value"), influxql.Float)
	var wg sync.WaitGroup
	wg.Add(2)
	go func() {
		defer wg.Done()
		for i := 0; i < 200; i++ {
			e.WritePointsString(fmt.Sprintf("cpu,host=A value=1 %d", 1000+i))
			e.WriteSnapshot()
		}
	}()
	go func() {
		defer wg.Done()
		for i := 0; i < 200; i++ {
			e.DeleteSeriesRange(&seriesIterator{keys: [][]byte{[]byte("cpu,host=B")}}, 0, 10)
		}
	}()
	wg.Wait()
	fmt.Println("GOVC-REPLAY-RETURNED")
}
