package meta_test

import (
	"fmt"
	"testing"
	"time"

	"github.com/influxdata/influxdb/services/meta"
)

// TestDemoC06e applies a short sequence of metadata commands to a fresh
// meta.Data value and checks, after every command, two of the invariants of
// the cluster metadata:
//
//   - the IDs of the data nodes are pairwise distinct, and
//   - every shard of every shard group is owned by
//     min(replication factor, number of data nodes) pairwise distinct
//     data nodes that exist.
//
// The sequence registers a meta node and a data node that share one TCP
// address (so they share one node ID, by design) and then registers a second
// data node that announces the same TCP address with another HTTP address.
func TestDemoC06e(t *testing.T) {
	data := &meta.Data{}

	check := func(step string) {
		t.Helper()
		seen := map[uint64]bool{}
		for _, n := range data.DataNodes {
			if seen[n.ID] {
				t.Fatalf("after %s: two data nodes carry ID %d: %+v", step, n.ID, data.DataNodes)
			}
			seen[n.ID] = true
		}
		for _, db := range data.Databases {
			for _, rp := range db.RetentionPolicies {
				want := rp.ReplicaN
				if want > len(data.DataNodes) {
					want = len(data.DataNodes)
				}
				for _, sg := range rp.ShardGroups {
					if sg.Deleted() {
						continue
					}
					for _, sh := range sg.Shards {
						owners := map[uint64]bool{}
						for _, o := range sh.Owners {
							if !seen[o.NodeID] {
								t.Fatalf("after %s: shard %d owned by unknown node %d", step, sh.ID, o.NodeID)
							}
							if owners[o.NodeID] {
								t.Fatalf("after %s: shard %d lists node %d twice as owner: %+v", step, sh.ID, o.NodeID, sh.Owners)
							}
							owners[o.NodeID] = true
						}
						if len(owners) != want {
							t.Fatalf("after %s: shard %d has %d distinct owners, want %d: %+v", step, sh.ID, len(owners), want, sh.Owners)
						}
					}
				}
			}
		}
	}

	if err := data.CreateMetaNode("meta0:8091", "host0:8088"); err != nil {
		t.Fatal(err)
	}
	check("CreateMetaNode")

	// Same TCP address as the meta node: the data node re-uses its ID.
	if err := data.CreateDataNode("host0:8086", "host0:8088"); err != nil {
		t.Fatal(err)
	}
	check("CreateDataNode #1")

	// A second registration of the same TCP address under another HTTP address.
	err := data.CreateDataNode("host0-alias:8086", "host0:8088")
	t.Logf("second CreateDataNode with the same TCP address: err=%v, data nodes=%+v", err, data.DataNodes)
	check("CreateDataNode #2")

	if err := data.CreateDatabase("db0"); err != nil {
		t.Fatal(err)
	}
	rpi := meta.NewRetentionPolicyInfo("rp0")
	rpi.ReplicaN = 2
	rpi.ShardGroupDuration = time.Hour
	if err := data.CreateRetentionPolicy("db0", rpi, true); err != nil {
		t.Fatal(err)
	}
	check("CreateRetentionPolicy")

	if err := data.CreateShardGroup("db0", "rp0", time.Unix(3600, 0)); err != nil {
		t.Fatal(err)
	}
	check("CreateShardGroup")

	// Removing "the" node must leave no shard owned by a removed node and
	// must remove exactly one data node.
	before := len(data.DataNodes)
	if err := data.DeleteDataNode(data.DataNodes[0].ID); err != nil {
		t.Fatal(err)
	}
	if got := before - len(data.DataNodes); got != 1 {
		t.Fatalf("DeleteDataNode removed %d data nodes, want 1", got)
	}
	check("DeleteDataNode")
}

// Witness for services_meta.__Data_.CreateDataNode_inv-keep_no_data_node_with_this_tcp_address_so_far. The scenario above was written by the seeding sub-agent for seed C06e and is kept verbatim;
// it runs the real code.
func TestGovcReplay(t *testing.T) {
	if !t.Run("scenario", TestDemoC06e) {
		fmt.Println("GOVC-REPLAY-ENSURES-FALSE: a second data node was created under a TCP address already in use and shares the id of the first (see the subtest output above)")
		return
	}
	fmt.Println("GOVC-REPLAY-RETURNED")
}
