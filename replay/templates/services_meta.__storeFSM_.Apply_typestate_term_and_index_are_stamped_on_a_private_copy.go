// govc-replay: race
package meta

import (
	"fmt"
	"sync"
	"testing"

	"github.com/gogo/protobuf/proto"
	"github.com/hashicorp/raft"
	internal "github.com/influxdata/influxdb/services/meta/internal"
)

type govcSink struct{ n int }

func (s *govcSink) Write(p []byte) (int, error) { s.n += len(p); return len(p), nil }
func (s *govcSink) Close() error                { return nil }
func (s *govcSink) ID() string                  { return "govc" }
func (s *govcSink) Cancel() error               { return nil }

// Witness for (*storeFSM).Apply/ensures:published_metadata_is_never_written (model: the command is rejected, so
// store.data is still the object that was published before, and Apply stamps Term and Index into it). raft takes a
// snapshot (storeFSM.Snapshot hands out the published *Data) and persists it on its own goroutine, without the
// store's lock, while the next log entry - a DropUser for a user that does not exist - is applied. Under the race
// detector the snapshot's read of the metadata races with Apply's write.
func TestGovcReplay(t *testing.T) {
	defer func() {
		if r := recover(); r != nil {
			fmt.Printf("GOVC-REPLAY-PANIC: %v\n", r)
		}
	}()
	s := &store{data: &Data{Index: 1, Users: []UserInfo{{Name: "u", Hash: "h"}}}, dataChanged: make(chan struct{})}
	fsm := (*storeFSM)(s)
	cmd := &internal.Command{Type: internal.Command_DropUserCommand.Enum()}
	if err := proto.SetExtension(cmd, internal.E_DropUserCommand_Command, &internal.DropUserCommand{Name: proto.String("nobody")}); err != nil {
		fmt.Println("GOVC-REPLAY-RETURNED", err)
		return
	}
	b, _ := proto.Marshal(cmd)
	for i := 0; i < 200; i++ {
		snap, err := fsm.Snapshot()
		if err != nil {
			fmt.Println("GOVC-REPLAY-RETURNED", err)
			return
		}
		published := snap.(*storeFSMSnapshot).Data
		idx := published.Index
		var wg sync.WaitGroup
		wg.Add(1)
		go func() {
			defer wg.Done()
			snap.Persist(&govcSink{})
		}()
		res := fsm.Apply(&raft.Log{Index: uint64(10 + i), Term: 1, Data: b})
		wg.Wait()
		if res == nil {
			fmt.Println("GOVC-REPLAY-RETURNED: the command was not rejected")
			return
		}
		if published.Index != idx {
			fmt.Printf("GOVC-REPLAY-ENSURES-FALSE: the metadata object handed to a snapshot was written by a later, rejected command: Index %d -> %d\n", idx, published.Index)
			return
		}
	}
	fmt.Println("GOVC-REPLAY-RETURNED")
}
