package tsm1_test

import (
	"fmt"
	"os"
	"testing"

	"github.com/influxdata/influxdb/tsdb/engine/tsm1"
)

// Witness for merge<T>/none_tombstoned_so_far and tombstoned_blocks_take_the_decode_path (model: a block other
// than the first carries tombstones and dedup stays false). Three files hold consecutive, non-overlapping blocks
// of one key; a delete leaves a tombstone on exactly one of them - the first, the middle or the last - and the
// files are compacted (full and fast), for a float, an integer, an unsigned, a string and a boolean field. The
// compacted file must return what the three files returned together before.
func TestGovcReplay(t *testing.T) {
	defer func() {
		if r := recover(); r != nil {
			fmt.Printf("GOVC-REPLAY-PANIC: %v\n", r)
		}
	}()
	mk := map[string]func(ts int64) tsm1.Value{
		"float":    func(ts int64) tsm1.Value { return tsm1.NewValue(ts, float64(ts)+0.5) },
		"integer":  func(ts int64) tsm1.Value { return tsm1.NewValue(ts, ts) },
		"unsigned": func(ts int64) tsm1.Value { return tsm1.NewValue(ts, uint64(ts)) },
		"string":   func(ts int64) tsm1.Value { return tsm1.NewValue(ts, fmt.Sprint(ts)) },
		"boolean":  func(ts int64) tsm1.Value { return tsm1.NewValue(ts, ts%2 == 0) },
	}
	for kind, val := range mk {
		for tomb := 0; tomb < 3; tomb++ {
			for _, fast := range []bool{false, true} {
				dir := MustTempDir()
				key := "cpu,host=A#!~#value"
				var files []string
				for f := 0; f < 3; f++ {
					files = append(files, MustWriteTSM(dir, f+1, map[string][]tsm1.Value{key: {val(int64(2*f + 1)), val(int64(2*f + 2))}}))
				}
				del := int64(2*tomb + 2) // the second point of the chosen file
				r := MustOpenTSMReader(files[tomb])
				err := r.DeleteRange([][]byte{[]byte(key)}, del, del)
				r.Close()
				if err != nil {
					os.RemoveAll(dir)
					fmt.Println("GOVC-REPLAY-RETURNED delete:", err)
					return
				}
				var want []int64
				for ts := int64(1); ts <= 6; ts++ {
					if ts != del {
						want = append(want, ts)
					}
				}
				fs := &fakeFileStore{}
				c := tsm1.NewCompactor()
				c.Dir, c.FileStore, c.Size = dir, fs, 2
				c.Open()
				var out []string
				if fast {
					out, err = c.CompactFast(files)
				} else {
					out, err = c.CompactFull(files)
				}
				if err != nil || len(out) != 1 {
					fs.Close()
					os.RemoveAll(dir)
					fmt.Println("GOVC-REPLAY-RETURNED compaction:", err, out)
					return
				}
				rr := MustOpenTSMReader(out[0])
				vals, _ := rr.ReadAll([]byte(key))
				rr.Close()
				fs.Close()
				os.RemoveAll(dir)
				var got []int64
				for _, v := range vals {
					got = append(got, v.UnixNano())
				}
				if fmt.Sprint(got) != fmt.Sprint(want) {
					fmt.Printf("GOVC-REPLAY-ENSURES-FALSE: %s field, tombstone on file %d, fast=%v: before compaction the reads returned %v, after it %v (a deleted point reappeared)\n", kind, tomb+1, fast, want, got)
					return
				}
			}
		}
	}
	fmt.Println("GOVC-REPLAY-RETURNED")
}
