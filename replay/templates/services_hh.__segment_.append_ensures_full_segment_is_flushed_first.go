package hh

import (
	"fmt"
	"io"
	"os"
	"testing"
)

// Witness for (*segment).append/ensures:full_segment_is_flushed_first (model: append reports ErrSegmentFull while
// earlier appends are still in the segment's memory buffer). With k = 10..12 writers in flight appends take the
// buffered path; blocks of several sizes fill a small segment, the next one rolls over, the writers finish, and
// the queue is drained the way SendWrite drains it: every accepted block must come out, in order.
func TestGovcReplay(t *testing.T) {
	defer func() {
		if r := recover(); r != nil {
			fmt.Printf("GOVC-REPLAY-PANIC: %v\n", r)
		}
	}()
	for inflight := 10; inflight <= 12; inflight++ {
		for size := 4; size <= 12; size += 4 {
			dir, err := os.MkdirTemp("", "govc-hh-queue")
			if err != nil {
				fmt.Println("GOVC-REPLAY-RETURNED", err)
				return
			}
			bad := func() string {
				defer os.RemoveAll(dir)
				q, err := newQueue(dir, 1<<20, 64)
				if err != nil {
					return ""
				}
				if err := q.Open(); err != nil {
					return ""
				}
				defer q.Close()
				q.SetMaxSegmentSize(int64(8 + 2*(8+size))) // footer + two blocks
				for i := 0; i < inflight; i++ {
					q.limiter.TryTake()
				}
				var want []string
				for i := 0; i < 5; i++ { // two fill segment 1, the third rolls over, ...
					b := make([]byte, size)
					for j := range b {
						b[j] = byte('a' + i)
					}
					if err := q.Append(b); err != nil {
						return ""
					}
					want = append(want, string(b))
				}
				for i := 0; i < inflight; i++ {
					q.limiter.Release()
				}
				last := make([]byte, size)
				if err := q.Append(last); err != nil {
					return ""
				}
				want = append(want, string(last))
				var got []string
				for i := 0; i < 100 && !q.Empty(); i++ {
					b, err := q.Current()
					if err == io.EOF {
						if q.Advance() != nil {
							break
						}
						continue
					}
					if err != nil {
						break
					}
					got = append(got, string(b))
					if q.Advance() != nil {
						break
					}
				}
				if fmt.Sprint(got) != fmt.Sprint(want) {
					return fmt.Sprintf("%d writers in flight, %d-byte blocks: accepted %q, delivered %q", inflight, size, want, got)
				}
				return ""
			}()
			if bad != "" {
				fmt.Println("GOVC-REPLAY-ENSURES-FALSE:", bad)
				return
			}
		}
	}
	fmt.Println("GOVC-REPLAY-RETURNED")
}
