package meta

import (
	"fmt"
	"testing"
)

// Witness for (*Data).Clone/ensures:fresh_meta_nodes (model: non-empty DataNodes; the clone's slice has the
// original's backing array). The FSM's update command mutates the clone in place.
func TestGovcReplay(t *testing.T) {
	defer func() {
		if r := recover(); r != nil {
			fmt.Printf("GOVC-REPLAY-PANIC: %v\n", r)
		}
	}()
	published := &Data{DataNodes: []NodeInfo{{ID: 1, Addr: "old:8086", TCPAddr: "old:8088"}}, MetaNodes: []NodeInfo{{ID: 1, Addr: "m:8091"}}}
	other := published.Clone()
	// what applyUpdateDataNodeCommand does with its private copy before installing it:
	node := &other.MetaNodes[0]
	node.Addr, node.TCPAddr = "new:8086", "new:8088"
	if published.MetaNodes[0].Addr != "m:8091" {
		fmt.Printf("GOVC-REPLAY-ENSURES-FALSE: the published metadata was changed through its clone: MetaNodes[0].Addr = %q\n", published.MetaNodes[0].Addr)
		return
	}
	fmt.Println("GOVC-REPLAY-RETURNED")
}
