package coordinator

// Demo for seed C03d.  Package directory: coordinator/  (package coordinator).
//
// Property C03: a cluster write DOES report success whenever the requested
// consistency level was met within the timeout - for every combination of
// per-owner outcomes and every ARRIVAL ORDER of those outcomes - and too few
// successful owners is reported as a partial write, none as a failure.
//
// The test drives the real PointsWriter.writeToShard with fakes for the local
// store, the remote shard writer and hinted handoff.  Each owner has a fixed
// outcome and a fixed answer delay, so the arrival order of the per-owner
// results is controlled.  All delays are far below the write timeout.

import (
	"fmt"
	"errors"
	"sync"
	"testing"
	"time"

	"github.com/influxdata/influxdb/models"
	"github.com/influxdata/influxdb/services/meta"
)

type demoC03dMeta struct{ id uint64 }

func (m demoC03dMeta) NodeID() uint64                     { return m.id }
func (m demoC03dMeta) Database(string) *meta.DatabaseInfo { return nil }
func (m demoC03dMeta) RetentionPolicy(string, string) (*meta.RetentionPolicyInfo, error) {
	return nil, nil
}
func (m demoC03dMeta) CreateShardGroup(string, string, time.Time) (*meta.ShardGroupInfo, error) {
	return nil, nil
}

// demoC03dOwner is the scripted behaviour of one owner.
type demoC03dOwner struct {
	id    uint64
	delay time.Duration // time after which the owner answers
	err   error         // nil = stored
}

// demoC03dCluster answers writes according to the script and records, per node
// id, how often the points were stored and how often they were queued in
// hinted handoff.
type demoC03dCluster struct {
	mu     sync.Mutex
	self   uint64
	script map[uint64]demoC03dOwner
	stored map[uint64]int
	queued map[uint64]int
}

func (c *demoC03dCluster) write(id uint64) error {
	o := c.script[id]
	time.Sleep(o.delay)
	c.mu.Lock()
	defer c.mu.Unlock()
	if o.err != nil {
		return o.err
	}
	c.stored[id]++
	return nil
}

type demoC03dStore struct{ c *demoC03dCluster }

func (s demoC03dStore) CreateShard(string, string, uint64, bool) error { return nil }
func (s demoC03dStore) WriteToShard(shardID uint64, pts []models.Point) error {
	return s.c.write(s.c.self)
}

type demoC03dShardWriter struct{ c *demoC03dCluster }

func (s demoC03dShardWriter) WriteShard(shardID, ownerID uint64, pts []models.Point) error {
	return s.c.write(ownerID)
}

type demoC03dHH struct{ c *demoC03dCluster }

func (h demoC03dHH) WriteShard(shardID, ownerID uint64, pts []models.Point) error {
	h.c.mu.Lock()
	defer h.c.mu.Unlock()
	h.c.queued[ownerID]++
	return nil
}
func (h demoC03dHH) Empty(shardID, ownerID uint64) bool { return true }

func demoC03dRun(t *testing.T, self uint64, level models.ConsistencyLevel, owners ...demoC03dOwner) (*demoC03dCluster, error) {
	c := &demoC03dCluster{self: self, script: map[uint64]demoC03dOwner{}, stored: map[uint64]int{}, queued: map[uint64]int{}}
	w := NewPointsWriter()
	w.WriteTimeout = 30 * time.Second
	w.MetaClient = demoC03dMeta{id: self}
	w.TSDBStore = demoC03dStore{c}
	w.ShardWriter = demoC03dShardWriter{c}
	w.HintedHandoff = demoC03dHH{c}
	w.Open()
	defer w.Close()

	sh := &meta.ShardInfo{ID: 7}
	for _, o := range owners {
		c.script[o.id] = o
		sh.Owners = append(sh.Owners, meta.ShardOwner{NodeID: o.id})
	}
	pt, err := models.NewPoint("cpu", models.NewTags(nil), map[string]interface{}{"value": 1.0}, time.Unix(1, 0))
	if err != nil {
		t.Fatal(err)
	}
	err = w.writeToShard(sh, "db", "rp", level, []models.Point{pt})
	// let the owners that were still in flight when writeToShard returned finish
	time.Sleep(700 * time.Millisecond)
	c.mu.Lock()
	defer c.mu.Unlock()
	snap := &demoC03dCluster{stored: map[uint64]int{}, queued: map[uint64]int{}}
	for k, v := range c.stored {
		snap.stored[k] = v
	}
	for k, v := range c.queued {
		snap.queued[k] = v
	}
	return snap, err
}

func TestDemoC03d_LevelMetAfterAnEarlyFailureIsStillSuccess(t *testing.T) {
	const (
		now   = 0
		later = 300 * time.Millisecond
		last  = 600 * time.Millisecond
	)
	rejected := errors.New("error code 1: write shard 7: field type conflict: input field \"value\" on measurement \"cpu\" is type float, already exists as type integer") // permanent, not retryable
	refused := errors.New("dial tcp 10.0.0.1:8088: connect: connection refused")                                                                                           // retryable

	// 1. RF=3, QUORUM, coordinator is not an owner.  Owner 1 rejects at once,
	//    owners 2 and 3 store a little later: 2 of 3 stored => quorum met.
	c, err := demoC03dRun(t, 99, models.ConsistencyLevelQuorum,
		demoC03dOwner{1, now, rejected}, demoC03dOwner{2, later, nil}, demoC03dOwner{3, later, nil})
	if err != nil {
		t.Errorf("rf=3 quorum, arrival order [reject, stored, stored]: got %q, want success (stored per node %v)", err, c.stored)
	}

	// 1b. same outcomes, other arrival order: stored, rejected, stored.
	c, err = demoC03dRun(t, 99, models.ConsistencyLevelQuorum,
		demoC03dOwner{1, later, rejected}, demoC03dOwner{2, now, nil}, demoC03dOwner{3, last, nil})
	if err != nil {
		t.Errorf("rf=3 quorum, arrival order [stored, reject, stored]: got %q, want success (stored per node %v)", err, c.stored)
	}

	// 1c. same outcomes, both successes first (control: order in which the
	//     early return is reached before the failure is seen).
	c, err = demoC03dRun(t, 99, models.ConsistencyLevelQuorum,
		demoC03dOwner{1, last, rejected}, demoC03dOwner{2, now, nil}, demoC03dOwner{3, now, nil})
	if err != nil {
		t.Errorf("rf=3 quorum, arrival order [stored, stored, reject]: got %q, want success (stored per node %v)", err, c.stored)
	}

	// 2. RF=2, ONE, coordinator is owner 2.  Remote owner 1 is unreachable
	//    (retryable, handoff accepts), the local store answers a little later:
	//    one owner stored => level one met; owner 1 queued exactly once.
	c, err = demoC03dRun(t, 2, models.ConsistencyLevelOne,
		demoC03dOwner{1, now, refused}, demoC03dOwner{2, later, nil})
	if err != nil {
		t.Errorf("rf=2 one, arrival order [unreachable+queued, stored]: got %q, want success (stored per node %v)", err, c.stored)
	}
	if c.queued[1] != 1 || len(c.queued) != 1 {
		t.Errorf("rf=2 one: handoff entries per node = %v, want map[1:1]", c.queued)
	}

	// 3. RF=3, ONE, two owners reject at once, the third stores later.
	c, err = demoC03dRun(t, 99, models.ConsistencyLevelOne,
		demoC03dOwner{1, now, rejected}, demoC03dOwner{2, now, rejected}, demoC03dOwner{3, later, nil})
	if err != nil {
		t.Errorf("rf=3 one, arrival order [reject, reject, stored]: got %q, want success (stored per node %v)", err, c.stored)
	}

	// 4. Classification (control, same before and after): RF=3 ALL with one
	//    rejection arriving LAST is a partial write; RF=2 ALL where both
	//    reject is a failure.
	_, err = demoC03dRun(t, 99, models.ConsistencyLevelAll,
		demoC03dOwner{1, later, rejected}, demoC03dOwner{2, now, nil}, demoC03dOwner{3, now, nil})
	if err != ErrPartialWrite {
		t.Errorf("rf=3 all, [stored, stored, reject]: got %v, want %v", err, ErrPartialWrite)
	}
	_, err = demoC03dRun(t, 99, models.ConsistencyLevelAll,
		demoC03dOwner{1, now, rejected}, demoC03dOwner{2, now, rejected})
	if err == nil || err == ErrPartialWrite {
		t.Errorf("rf=2 all, [reject, reject]: got %v, want a write failure", err)
	}
}

// Witness for coordinator.__PointsWriter_.writeToShardWithContext_ensures_a_failure_is_reported_only_when_the_level_is_out_of_reach. The scenario above was written by the seeding sub-agent for seed C03d and is kept verbatim;
// it runs the real code.
func TestGovcReplay(t *testing.T) {
	if !t.Run("scenario", TestDemoC03d_LevelMetAfterAnEarlyFailureIsStillSuccess) {
		fmt.Println("GOVC-REPLAY-ENSURES-FALSE: a write whose consistency level was still going to be met was reported as failed or partial (see the subtest output above)")
		return
	}
	fmt.Println("GOVC-REPLAY-RETURNED")
}
