package tsm1_test

import (
	"fmt"
	"os"
	"path"
	"path/filepath"
	"sort"
	"testing"

	"github.com/influxdata/influxdb/tsdb"
	"github.com/influxdata/influxdb/tsdb/engine/tsm1"
	"github.com/influxdata/influxdb/tsdb/index/inmem"
)

// reopenClosed is the second half of the test helper Engine.Reopen: open a new engine on the files of a closed one.
func reopenClosed(e *Engine) error {
	e.sfile = tsdb.NewSeriesFile(e.sfile.Path())
	if err := e.sfile.Open(); err != nil {
		return err
	}
	db := path.Base(e.root)
	opt := tsdb.NewEngineOptions()
	opt.InmemIndex = inmem.NewIndex(db, e.sfile)
	seriesIDSet := tsdb.NewSeriesIDSet()
	opt.SeriesIDSets = seriesIDSets([]*tsdb.SeriesIDSet{seriesIDSet})
	e.index = tsdb.MustOpenIndex(1, db, e.indexPath, seriesIDSet, e.sfile, opt)
	e.Engine = tsm1.NewEngine(1, e.index, filepath.Join(e.root, "data"), filepath.Join(e.root, "wal"), e.sfile, opt).(*tsm1.Engine)
	if err := e.Engine.Open(); err != nil {
		return err
	}
	return e.LoadMetadataIndex(1, e.index)
}

// Witness for (*Engine).Open/ensures:append_position_at_end_of_log. A crash tears the tail of the newest WAL
// segment (here: the last 3 bytes of the last entry are cut, as an unsynced suffix may be). The engine is
// opened, a further write is ACKNOWLEDGED, the engine is restarted once more, and the acknowledged point is read.
func TestGovcReplay(t *testing.T) {
	defer func() {
		if r := recover(); r != nil {
			fmt.Printf("GOVC-REPLAY-PANIC: %v\n", r)
		}
	}()
	e := MustOpenEngine(tsdb.InmemIndexName)
	defer e.Close()
	if err := e.WritePointsString(`cpu,host=A value=1 1000000000`, `cpu,host=A value=2 2000000000`); err != nil {
		fmt.Println("GOVC-REPLAY-RETURNED write:", err)
		return
	}
	if err := e.WritePointsString(`cpu,host=A value=3 3000000000`); err != nil {
		fmt.Println("GOVC-REPLAY-RETURNED write:", err)
		return
	}
	walDir := e.WAL.Path()
	if err := e.close(false); err != nil {
		fmt.Println("GOVC-REPLAY-RETURNED close:", err)
		return
	}
	segs, _ := filepath.Glob(filepath.Join(walDir, "*.wal"))
	sort.Strings(segs)
	if len(segs) == 0 {
		fmt.Println("GOVC-REPLAY-RETURNED no wal segment")
		return
	}
	last := segs[len(segs)-1]
	st, err := os.Stat(last)
	if err != nil || st.Size() < 8 {
		fmt.Println("GOVC-REPLAY-RETURNED stat:", err)
		return
	}
	if err := os.Truncate(last, st.Size()-3); err != nil { // the torn, never-synced tail
		fmt.Println("GOVC-REPLAY-RETURNED truncate:", err)
		return
	}
	if err := reopenClosed(e); err != nil {
		fmt.Println("GOVC-REPLAY-RETURNED reopen:", err)
		return
	}
	// acknowledged after recovery
	if err := e.WritePointsString(`cpu,host=A value=4 4000000000`); err != nil {
		fmt.Println("GOVC-REPLAY-RETURNED write after recovery:", err)
		return
	}
	if err := e.Reopen(); err != nil {
		fmt.Println("GOVC-REPLAY-RETURNED second reopen:", err)
		return
	}
	vals := e.Cache.Values([]byte("cpu,host=A#!~#value"))
	found := false
	for _, v := range vals {
		if v.UnixNano() == 4000000000 {
			found = true
		}
	}
	if !found {
		fmt.Printf("GOVC-REPLAY-ENSURES-FALSE: the write acknowledged after recovering from a torn WAL tail is gone after the next restart; values now %v\n", vals)
		return
	}
	fmt.Println("GOVC-REPLAY-RETURNED")
}
