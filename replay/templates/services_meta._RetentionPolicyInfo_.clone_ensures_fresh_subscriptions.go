package meta

import (
	"fmt"
	"testing"
)

// Witness for (RetentionPolicyInfo).clone/ensures:fresh_subscriptions: dropping a subscription on the clone
// (what applyDropSubscriptionCommand does) shifts the elements of the array shared with the published data.
func TestGovcReplay(t *testing.T) {
	defer func() {
		if r := recover(); r != nil {
			fmt.Printf("GOVC-REPLAY-PANIC: %v\n", r)
		}
	}()
	published := &Data{Databases: []DatabaseInfo{{Name: "db", RetentionPolicies: []RetentionPolicyInfo{{Name: "rp", ReplicaN: 1,
		Subscriptions: []SubscriptionInfo{{Name: "s0", Mode: "ALL"}, {Name: "s1", Mode: "ALL"}}}}}}}
	other := published.Clone()
	if err := other.DropSubscription("db", "rp", "s0"); err != nil {
		fmt.Println("GOVC-REPLAY-RETURNED", err)
		return
	}
	got := published.Databases[0].RetentionPolicies[0].Subscriptions
	if len(got) != 2 || got[0].Name != "s0" || got[1].Name != "s1" {
		fmt.Printf("GOVC-REPLAY-ENSURES-FALSE: the published metadata was changed through its clone: subscriptions now %v\n", got)
		return
	}
	fmt.Println("GOVC-REPLAY-RETURNED")
}
