package tsm1_test

// Demo for seeded defect C09c.
//
// Property (C09): compacting any set of TSM files never changes what a read
// returns: per series field, the latest written value per timestamp is
// identical before and after the compaction.
//
// History used here: an older generation holds a block [5..10] for a key, a
// newer generation holds a block [3..7] for the same key (a late, partially
// overlapping rewrite that starts earlier than the older block).  The newer
// generation must win for timestamps 5, 6 and 7, both when read through the
// FileStore before compaction and after the compacted file replaced the inputs.
//
// External test package (package tsm1_test); goes into tsdb/engine/tsm1/.

import (
	"context"
	"fmt"
	"os"
	"path/filepath"
	"testing"

	"github.com/influxdata/influxdb/tsdb/engine/tsm1"
)

func demoC09cWriteTSM(t *testing.T, dir string, gen int, data map[string][]tsm1.Value, order []string) string {
	t.Helper()
	name := filepath.Join(dir, tsm1.DefaultFormatFileName(gen, 1)+"."+tsm1.TSMFileExtension)
	fd, err := os.OpenFile(name, os.O_CREATE|os.O_RDWR|os.O_EXCL, 0666)
	if err != nil {
		t.Fatalf("create %s: %v", name, err)
	}
	w, err := tsm1.NewTSMWriter(fd)
	if err != nil {
		t.Fatalf("new writer: %v", err)
	}
	for _, k := range order {
		if err := w.Write([]byte(k), data[k]); err != nil {
			t.Fatalf("write %s: %v", k, err)
		}
	}
	if err := w.WriteIndex(); err != nil {
		t.Fatalf("write index: %v", err)
	}
	if err := w.Close(); err != nil {
		t.Fatalf("close: %v", err)
	}
	return name
}

// demoC09cReadAll reads every value of key through a FileStore KeyCursor, the same
// way the query engine does, and renders them as "t=v" strings.
func demoC09cReadAll(t *testing.T, fs *tsm1.FileStore, key string, typ string) []string {
	t.Helper()
	var out []string
	c := fs.KeyCursor(context.Background(), []byte(key), 0, true)
	defer c.Close()
	for {
		n := 0
		switch typ {
		case "float":
			vals, err := c.ReadFloatBlock(&[]tsm1.FloatValue{})
			if err != nil {
				t.Fatalf("read %s: %v", key, err)
			}
			for _, v := range vals {
				out = append(out, fmt.Sprintf("%d=%v", v.UnixNano(), v.Value()))
			}
			n = len(vals)
		case "integer":
			vals, err := c.ReadIntegerBlock(&[]tsm1.IntegerValue{})
			if err != nil {
				t.Fatalf("read %s: %v", key, err)
			}
			for _, v := range vals {
				out = append(out, fmt.Sprintf("%d=%v", v.UnixNano(), v.Value()))
			}
			n = len(vals)
		}
		if n == 0 {
			break
		}
		c.Next()
	}
	return out
}

func demoC09cRange(from, to int64, val interface{}) []tsm1.Value {
	var vs []tsm1.Value
	for ts := from; ts <= to; ts++ {
		vs = append(vs, tsm1.NewValue(ts, val))
	}
	return vs
}

func TestDemoC09c_CompactionKeepsNewestValue(t *testing.T) {
	const (
		fkey = "cpu,host=A#!~#fval"
		ikey = "cpu,host=A#!~#ival"
	)
	order := []string{fkey, ikey}

	for _, mode := range []string{"full", "fast"} {
		t.Run(mode, func(t *testing.T) {
			dir, err := os.MkdirTemp("", "demo-c09c")
			if err != nil {
				t.Fatal(err)
			}
			defer os.RemoveAll(dir)

			// Older generation: block [5..10], value 1.
			f1 := demoC09cWriteTSM(t, dir, 1, map[string][]tsm1.Value{
				fkey: demoC09cRange(5, 10, float64(1)),
				ikey: demoC09cRange(5, 10, int64(1)),
			}, order)
			// Newer generation: block [3..7], value 2 (overwrites 5, 6, 7).
			f2 := demoC09cWriteTSM(t, dir, 2, map[string][]tsm1.Value{
				fkey: demoC09cRange(3, 7, float64(2)),
				ikey: demoC09cRange(3, 7, int64(2)),
			}, order)

			fs := tsm1.NewFileStore(dir)
			if err := fs.Open(); err != nil {
				t.Fatalf("open file store: %v", err)
			}
			defer fs.Close()

			wantF := []string{"3=2", "4=2", "5=2", "6=2", "7=2", "8=1", "9=1", "10=1"}
			wantI := wantF

			beforeF := demoC09cReadAll(t, fs, fkey, "float")
			beforeI := demoC09cReadAll(t, fs, ikey, "integer")
			if fmt.Sprint(beforeF) != fmt.Sprint(wantF) || fmt.Sprint(beforeI) != fmt.Sprint(wantI) {
				t.Fatalf("unexpected content before compaction:\n float   %v\n integer %v\n want    %v", beforeF, beforeI, wantF)
			}

			compactor := tsm1.NewCompactor()
			compactor.Dir = dir
			compactor.FileStore = fs
			compactor.Open()
			defer compactor.Close()

			var files []string
			if mode == "full" {
				files, err = compactor.CompactFull([]string{f1, f2})
			} else {
				files, err = compactor.CompactFast([]string{f1, f2})
			}
			if err != nil {
				t.Fatalf("compact: %v", err)
			}
			if len(files) != 1 {
				t.Fatalf("expected 1 compacted file, got %v", files)
			}
			if err := fs.Replace([]string{f1, f2}, files); err != nil {
				t.Fatalf("replace: %v", err)
			}

			afterF := demoC09cReadAll(t, fs, fkey, "float")
			afterI := demoC09cReadAll(t, fs, ikey, "integer")
			if fmt.Sprint(afterF) != fmt.Sprint(beforeF) {
				t.Errorf("float read changed by %s compaction:\n before %v\n after  %v", mode, beforeF, afterF)
			}
			if fmt.Sprint(afterI) != fmt.Sprint(beforeI) {
				t.Errorf("integer read changed by %s compaction:\n before %v\n after  %v", mode, beforeI, afterI)
			}
		})
	}
}

// Witness for (blocks).Less/ensures:only_a_block_entirely_before_is_less (model: two blocks of one key overlap
// in time and Less orders the later-starting one behind the other). The scenario above (written by the seeding
// sub-agent for seed C09c, kept verbatim) writes two generations with overlapping blocks where the newer block
// starts earlier, compacts them (full and fast) with the real Compactor and compares what a KeyCursor reads
// before and after.
func TestGovcReplay(t *testing.T) {
	if !t.Run("compaction-keeps-newest", TestDemoC09c_CompactionKeepsNewestValue) {
		fmt.Println("GOVC-REPLAY-ENSURES-FALSE: after compaction a read returns the older value of an overwritten timestamp (see the subtest output above)")
		return
	}
	fmt.Println("GOVC-REPLAY-RETURNED")
}
