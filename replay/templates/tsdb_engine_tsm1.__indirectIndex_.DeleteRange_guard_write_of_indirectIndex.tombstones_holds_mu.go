// govc-replay: race
package tsm1_test

import (
	"fmt"
	"os"
	"path/filepath"
	"sync"
	"testing"

	"github.com/influxdata/influxdb/tsdb/engine/tsm1"
)

// Witness for (*indirectIndex).DeleteRange/guard:write_of_indirectIndex.tombstones_holds_mu (the tombstone ranges
// of a key are read under the read lock, extended with append and then sorted IN PLACE: the backing array is the
// one TombstoneRange handed to readers). Real TSM reader: one goroutine reads the tombstone ranges of a key the
// way a query does, another deletes ranges of that key in descending order, so that every delete re-sorts. Run
// under the race detector; a DATA RACE report is the failure.
func TestGovcReplay(t *testing.T) {
	dir, err := os.MkdirTemp("", "govc-tombrace")
	if err != nil {
		t.Fatal(err)
	}
	defer os.RemoveAll(dir)
	name := filepath.Join(dir, tsm1.DefaultFormatFileName(1, 1)+".tsm")
	f, err := os.OpenFile(name, os.O_CREATE|os.O_RDWR|os.O_EXCL, 0666)
	if err != nil {
		t.Fatal(err)
	}
	w, err := tsm1.NewTSMWriter(f)
	if err != nil {
		t.Fatal(err)
	}
	key := []byte("cpu,host=A#!~#value")
	var vals []tsm1.Value
	for ts := int64(0); ts < 1000; ts++ {
		vals = append(vals, tsm1.NewValue(ts, float64(ts)))
	}
	if err := w.Write(key, vals); err != nil {
		t.Fatal(err)
	}
	if err := w.WriteIndex(); err != nil {
		t.Fatal(err)
	}
	if err := w.Close(); err != nil {
		t.Fatal(err)
	}
	fd, err := os.Open(name)
	if err != nil {
		t.Fatal(err)
	}
	r, err := tsm1.NewTSMReader(fd)
	if err != nil {
		t.Fatal(err)
	}
	defer r.Close()

	var wg sync.WaitGroup
	stop := make(chan struct{})
	wg.Add(1)
	go func() {
		defer wg.Done()
		var sum int64
		for {
			select {
			case <-stop:
				_ = sum
				return
			default:
			}
			for _, tr := range r.TombstoneRange(key) {
				sum += tr.Min + tr.Max
			}
		}
	}()
	for i := int64(400); i > 0; i-- {
		if err := r.DeleteRange([][]byte{key}, i*2, i*2); err != nil {
			t.Fatal(err)
		}
	}
	close(stop)
	wg.Wait()
	fmt.Println("GOVC-REPLAY-RETURNED")
}
