package hh

import (
	"fmt"
	"os"
	"testing"
)

// Witness for (*queue).Append/ensures:durable_when_acknowledged (model: Append returns nil on the buffered path and
// nobody has flushed). Eleven writers are in flight (each holds a limiter token): one small block is accepted on
// the buffered path - Append returns nil - and the ten others are refused with ErrQueueFull, so nobody flushes.
// Then the process dies (the queue object is abandoned, nothing is closed) and the directory is reopened: an
// append that had returned must still be there.
func TestGovcReplay(t *testing.T) {
	defer func() {
		if r := recover(); r != nil {
			fmt.Printf("GOVC-REPLAY-PANIC: %v\n", r)
		}
	}()
	dir, _ := os.MkdirTemp("", "govc-hh")
	defer os.RemoveAll(dir)
	q, err := newQueue(dir, 1000, 64)
	if err != nil {
		fmt.Println("GOVC-REPLAY-RETURNED", err)
		return
	}
	if err := q.Open(); err != nil {
		fmt.Println("GOVC-REPLAY-RETURNED", err)
		return
	}
	// ten writers have taken their token and are about to take the queue lock
	for i := 0; i < 10; i++ {
		if !q.limiter.TryTake() {
			fmt.Println("GOVC-REPLAY-RETURNED: limiter refused")
			return
		}
	}
	if err := q.Append([]byte("accepted on the buffered path")); err != nil {
		fmt.Println("GOVC-REPLAY-RETURNED", err)
		return
	}
	// the ten others now run one after the other; their blocks do not fit: ErrQueueFull, no flush
	big := make([]byte, 2000)
	for i := 0; i < 10; i++ {
		q.limiter.Release()
		if err := q.Append(big); err != ErrQueueFull {
			fmt.Println("GOVC-REPLAY-RETURNED: expected ErrQueueFull, got", err)
			return
		}
	}
	// crash: q is abandoned as it is
	q2, err := newQueue(dir, 1000, 64)
	if err != nil {
		fmt.Println("GOVC-REPLAY-RETURNED", err)
		return
	}
	if err := q2.Open(); err != nil {
		fmt.Println("GOVC-REPLAY-RETURNED", err)
		return
	}
	defer q2.Close()
	b, err := q2.Current()
	if err != nil || string(b) != "accepted on the buffered path" {
		fmt.Printf("GOVC-REPLAY-ENSURES-FALSE: a block accepted by Append (buffered path) is gone after a crash and reopen: Current() = %q, %v\n", b, err)
		return
	}
	fmt.Println("GOVC-REPLAY-RETURNED")
}
