package meta

// govc-replay: race

import (
	"bytes"
	"fmt"
	"io"
	"sync"
	"testing"
)

// Witness for (*storeFSM).Restore/guard:write_of_store.data_holds_mu: a follower installs a raft snapshot
// (FSM.Restore) while HTTP handlers read the store's data under its read lock (snapshot(), index(), ...). Raft
// serialises Restore against Apply, not against these readers. Run under the race detector.
func TestGovcReplay(t *testing.T) {
	s := &store{data: &Data{Index: 1}, dataChanged: make(chan struct{})}
	snap, err := (&Data{Index: 7, ClusterID: 42}).MarshalBinary()
	if err != nil {
		fmt.Println("GOVC-REPLAY-RETURNED marshal:", err)
		return
	}
	var wg sync.WaitGroup
	wg.Add(2)
	go func() {
		defer wg.Done()
		for i := 0; i < 200; i++ {
			(*storeFSM)(s).Restore(io.NopCloser(bytes.NewReader(snap)))
		}
	}()
	go func() {
		defer wg.Done()
		for i := 0; i < 200; i++ {
			s.index()
			s.clusterID()
		}
	}()
	wg.Wait()
	fmt.Println("GOVC-REPLAY-RETURNED")
}
