package meta

import (
	"fmt"
	"testing"
	"time"
)

// Witness for (ShardGroupInfo).clone/ensures:fresh_shards and ensures:deep: every shard group - live, deleted or
// truncated - is cloned, and a command applied to the clone (here: DropShard and RemoveShardOwner, which walk
// every group including deleted ones) is then compared against the published value it was cloned from.
func TestGovcReplay(t *testing.T) {
	defer func() {
		if r := recover(); r != nil {
			fmt.Printf("GOVC-REPLAY-PANIC: %v\n", r)
		}
	}()
	mk := func(deleted, truncated bool) ShardGroupInfo {
		g := ShardGroupInfo{ID: 1, StartTime: time.Unix(0, 0), EndTime: time.Unix(3600, 0),
			Shards: []ShardInfo{{ID: 1, Owners: []ShardOwner{{NodeID: 1}, {NodeID: 2}}}, {ID: 2, Owners: []ShardOwner{{NodeID: 2}}}, {ID: 3, Owners: []ShardOwner{{NodeID: 1}}}}}
		if deleted {
			g.DeletedAt = time.Unix(10, 0)
		}
		if truncated {
			g.TruncatedAt = time.Unix(1800, 0)
		}
		return g
	}
	for _, c := range []struct{ deleted, truncated bool }{{false, false}, {true, false}, {false, true}, {true, true}} {
		published := &Data{DataNodes: []NodeInfo{{ID: 1}, {ID: 2}}, Databases: []DatabaseInfo{{Name: "db", RetentionPolicies: []RetentionPolicyInfo{{Name: "rp", ReplicaN: 2,
			ShardGroups: []ShardGroupInfo{mk(c.deleted, c.truncated)}}}}}}
		other := published.Clone()
		other.DropShard(1)
		other.RemoveShardOwner(2, 2)
		g := published.Databases[0].RetentionPolicies[0].ShardGroups[0]
		if len(g.Shards) != 3 || g.Shards[0].ID != 1 || g.Shards[1].ID != 2 || g.Shards[2].ID != 3 || len(g.Shards[1].Owners) != 1 || len(g.Shards[0].Owners) != 2 {
			fmt.Printf("GOVC-REPLAY-ENSURES-FALSE: the published metadata was changed through its clone (group deleted=%v truncated=%v): shards now %+v\n", c.deleted, c.truncated, g.Shards)
			return
		}
	}
	fmt.Println("GOVC-REPLAY-RETURNED")
}
