package hh

import (
	"errors"
	"fmt"
	"io"
	"os"
	"reflect"
	"testing"
	"time"

	"github.com/influxdata/influxdb/models"
	"github.com/influxdata/influxdb/services/meta"
)

type demoC04cWriter struct {
	fn func(shardID, nodeID uint64, points [][]byte) error
}

func (w *demoC04cWriter) WriteShardBinary(shardID, nodeID uint64, points [][]byte) error {
	return w.fn(shardID, nodeID, points)
}

type demoC04cMeta struct{}

func (demoC04cMeta) DataNode(nodeID uint64) (*meta.NodeInfo, error) {
	return &meta.NodeInfo{ID: nodeID}, nil
}

// TestDemoC04c: a block whose send fails with a transient (retryable) error must
// stay at the head of the hinted-handoff queue and be delivered, in order, once
// the target node accepts writes again.
func TestDemoC04c(t *testing.T) {
	dir, err := os.MkdirTemp("", "hh_demo_c04c")
	if err != nil {
		t.Fatal(err)
	}
	defer os.RemoveAll(dir)

	const shardID, nodeID = uint64(7), uint64(3)

	var (
		attempts  int
		failFirst = 2 // the first two send attempts hit a node that is still down
		delivered []string
	)
	w := &demoC04cWriter{fn: func(sid, nid uint64, points [][]byte) error {
		attempts++
		if attempts <= failFirst {
			return errors.New("dial tcp 10.0.0.3:8088: connect: connection refused")
		}
		for _, b := range points {
			p, err := models.NewPointFromBytes(b)
			if err != nil {
				t.Fatalf("bad point handed to shard writer: %v", err)
			}
			delivered = append(delivered, p.String())
		}
		return nil
	}}

	n := NewNodeProcessor(NewConfig(), nodeID, shardID, dir, w, demoC04cMeta{})
	// Keep the background loop out of the way: the test drives SendWrite itself.
	n.RetryInterval = time.Hour
	n.RetryMaxInterval = time.Hour
	n.PurgeInterval = time.Hour
	if err := n.Open(); err != nil {
		t.Fatalf("open: %v", err)
	}
	defer n.Close()

	var accepted []string
	for i := 0; i < 3; i++ {
		pt := models.MustNewPoint("cpu",
			models.NewTags(map[string]string{"host": fmt.Sprintf("h%d", i)}),
			models.Fields{"value": float64(i)}, time.Unix(int64(i), 0))
		if err := n.WriteShard([]models.Point{pt}); err != nil {
			t.Fatalf("WriteShard %d: %v", i, err)
		}
		accepted = append(accepted, pt.String())
	}

	// Target node is down: the send fails with a retryable error. The block must
	// not be consumed.
	for i := 0; i < failFirst; i++ {
		c, err := n.SendWrite()
		if err == nil {
			t.Errorf("SendWrite #%d: transient send failure reported as success (%d bytes)", i+1, c)
		}
		if n.Empty() {
			t.Fatalf("queue empty after failed sends, nothing was delivered")
		}
	}
	if len(delivered) != 0 {
		t.Fatalf("unexpected deliveries while node down: %v", delivered)
	}

	// Node is back: drain the queue.
	for i := 0; i < 10; i++ {
		if _, err := n.SendWrite(); err == io.EOF {
			break
		} else if err != nil {
			t.Fatalf("SendWrite while draining: %v", err)
		}
	}

	if !reflect.DeepEqual(delivered, accepted) {
		t.Fatalf("blocks lost or reordered after transient send failures:\n accepted:  %q\n delivered: %q", accepted, delivered)
	}
	if !n.Empty() {
		t.Fatalf("queue not empty after draining")
	}
}

// Witness for (*NodeProcessor).SendWrite/typestate:a_block_that_may_be_retried_stays_queued (model: the send failed
// with a retryable error and Advance is reached). The scenario above (written by the seeding sub-agent for seed
// C04c, kept verbatim) queues three blocks, lets the first sends fail with a transient error and checks that every
// block is eventually delivered, in order.
func TestGovcReplay(t *testing.T) {
	if !t.Run("retryable-failure-keeps-the-block", TestDemoC04c) {
		fmt.Println("GOVC-REPLAY-ENSURES-FALSE: a block whose send failed with a retryable error was dropped from the queue without being delivered (see the subtest output above)")
		return
	}
	fmt.Println("GOVC-REPLAY-RETURNED")
}
