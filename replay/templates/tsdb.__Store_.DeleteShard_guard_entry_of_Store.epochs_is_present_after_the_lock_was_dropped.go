package tsdb_test

// govc-replay: schedule-point tsdb/store.go DeleteShard <<sh := s.Shard(shardID)>>

import (
	"fmt"
	"sync/atomic"
	"testing"
	"time"

	"github.com/influxdata/influxdb/tsdb"
)

// Witness for (*Store).DeleteShard/guard:entry_of_Store.epochs_is_present_after_the_lock_was_dropped. DeleteShard
// finds the shard (s.Shard takes and releases the read lock), then takes the write lock and looks up the shard's
// epoch tracker without checking that the shard is still registered. Schedule: two deletes of the same shard; both
// have found it; the first runs to completion (its deferred clean-up removes the epoch tracker and the pending
// mark); then the second proceeds. The schedule point (see the header; inserted into a copy of the real file by the
// runner) only decides when the second goroutine goes on.
func TestGovcReplay(t *testing.T) {
	s := MustOpenStore("inmem")
	s.MustCreateShardWithData("db0", "rp0", 1, "cpu,host=a value=1 1")
	s.MustCreateShardWithData("db0", "rp0", 2, "cpu,host=b value=1 1")

	var n int32
	both := make(chan struct{})
	firstDone := make(chan struct{})
	tsdb.GovcSchedulePoint = func(fn string) {
		if fn != "DeleteShard" {
			return
		}
		if atomic.AddInt32(&n, 1) == 1 {
			<-both // the first delete waits until the second one has found the shard too
			return
		}
		close(both)
		<-firstDone // the second one goes on only after the first has finished entirely
	}
	defer func() { tsdb.GovcSchedulePoint = func(string) {} }()

	res := make(chan string, 2)
	go func() {
		err := s.DeleteShard(2)
		close(firstDone)
		res <- fmt.Sprintf("first delete: %v", err)
	}()
	go func() {
		defer func() {
			if r := recover(); r != nil {
				res <- fmt.Sprintf("PANIC in the second delete: %v", r)
			}
		}()
		for atomic.LoadInt32(&n) == 0 {
			time.Sleep(time.Millisecond) // let the other goroutine arrive first
		}
		err := s.DeleteShard(2)
		res <- fmt.Sprintf("second delete: %v", err)
	}()
	for i := 0; i < 2; i++ {
		select {
		case r := <-res:
			if len(r) > 5 && r[:5] == "PANIC" {
				fmt.Printf("GOVC-REPLAY-PANIC: %s (the epoch tracker of the shard had been removed by the first delete; the store's lock is held by the panicking goroutine)\n", r)
				return
			}
		case <-time.After(30 * time.Second):
			fmt.Println("GOVC-REPLAY-RETURNED (timeout waiting for the deletes)")
			return
		}
	}
	s.Close()
	fmt.Println("GOVC-REPLAY-RETURNED")
}
