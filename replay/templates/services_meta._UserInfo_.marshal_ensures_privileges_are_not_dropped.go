package meta

import (
	"fmt"
	"bytes"
	"io"
	"reflect"
	"testing"

	"github.com/gogo/protobuf/proto"
	"github.com/hashicorp/raft"
	internal "github.com/influxdata/influxdb/services/meta/internal"
	"github.com/influxdata/influxql"
)

// demoC07dSink is an in-memory raft.SnapshotSink.
type demoC07dSink struct {
	bytes.Buffer
	cancelled bool
}

func (s *demoC07dSink) ID() string    { return "demo-c07d" }
func (s *demoC07dSink) Close() error  { return nil }
func (s *demoC07dSink) Cancel() error { s.cancelled = true; return nil }

// demoC07dApply runs one command through the real state machine, the way raft does.
func demoC07dApply(t *testing.T, s *store, index uint64, typ internal.Command_Type, desc *proto.ExtensionDesc, value interface{}) {
	t.Helper()
	cmd := &internal.Command{Type: &typ}
	if err := proto.SetExtension(cmd, desc, value); err != nil {
		t.Fatal(err)
	}
	b, err := proto.Marshal(cmd)
	if err != nil {
		t.Fatal(err)
	}
	if res := (*storeFSM)(s).Apply(&raft.Log{Index: index, Term: 1, Type: raft.LogCommand, Data: b}); res != nil {
		t.Fatalf("command %s at index %d rejected: %v", typ, index, res)
	}
}

// TestDemoC07d: a per-database grant acknowledged for a user must survive a log snapshot
// (FSM Snapshot + Persist + Restore), also when the user has been promoted to admin in the
// meantime; a replica that restored from the snapshot and a replica that replayed the log
// must agree, both right after the restore and after further commands.
func TestDemoC07d(t *testing.T) {
	// Replica A applies the whole log.
	a := newStore(NewConfig(), "", "")

	idx := uint64(2)
	next := func() uint64 { idx++; return idx }

	demoC07dApply(t, a, next(), internal.Command_CreateDatabaseCommand, internal.E_CreateDatabaseCommand_Command,
		&internal.CreateDatabaseCommand{Name: proto.String("db0")})
	demoC07dApply(t, a, next(), internal.Command_CreateUserCommand, internal.E_CreateUserCommand_Command,
		&internal.CreateUserCommand{Name: proto.String("wilma"), Hash: proto.String("hash"), Admin: proto.Bool(false)})
	demoC07dApply(t, a, next(), internal.Command_SetPrivilegeCommand, internal.E_SetPrivilegeCommand_Command,
		&internal.SetPrivilegeCommand{Username: proto.String("wilma"), Database: proto.String("db0"), Privilege: proto.Int32(int32(influxql.WritePrivilege))})
	demoC07dApply(t, a, next(), internal.Command_SetAdminPrivilegeCommand, internal.E_SetAdminPrivilegeCommand_Command,
		&internal.SetAdminPrivilegeCommand{Username: proto.String("wilma"), Admin: proto.Bool(true)})

	// Log snapshot on A ...
	snap, err := (*storeFSM)(a).Snapshot()
	if err != nil {
		t.Fatal(err)
	}
	sink := &demoC07dSink{}
	if err := snap.Persist(sink); err != nil {
		t.Fatal(err)
	}
	snap.Release()
	if sink.cancelled {
		t.Fatal("snapshot cancelled")
	}

	// ... installed on replica B (a restarted or lagging meta node).
	b := newStore(NewConfig(), "", "")
	if err := (*storeFSM)(b).Restore(io.NopCloser(bytes.NewReader(sink.Bytes()))); err != nil {
		t.Fatal(err)
	}

	// Restore(Persist(x)) == x for the users.
	if !reflect.DeepEqual(a.data.Users, b.data.Users) {
		t.Errorf("users differ after snapshot+restore:\n applied:  %#v\n restored: %#v", a.data.Users, b.data.Users)
	}
	if got, _ := b.data.UserPrivileges("wilma"); got["db0"] != influxql.WritePrivilege {
		t.Errorf("restored replica: grant on db0 = %v, want %v (map %v)", got["db0"], influxql.WritePrivilege, got)
	}

	// Both replicas go on applying the same log entry: the admin flag is revoked again.
	i := next()
	for _, s := range []*store{a, b} {
		demoC07dApply(t, s, i, internal.Command_SetAdminPrivilegeCommand, internal.E_SetAdminPrivilegeCommand_Command,
			&internal.SetAdminPrivilegeCommand{Username: proto.String("wilma"), Admin: proto.Bool(false)})
	}

	for name, s := range map[string]*store{"log replica": a, "restored replica": b} {
		p, err := s.data.UserPrivilege("wilma", "db0")
		if err != nil {
			t.Fatal(err)
		}
		if *p != influxql.WritePrivilege {
			t.Errorf("%s: acknowledged grant lost: privilege on db0 = %v, want %v", name, *p, influxql.WritePrivilege)
		}
		if u := s.data.user("wilma"); !u.AuthorizeDatabase(influxql.WritePrivilege, "db0") {
			t.Errorf("%s: wilma is no longer authorized to write to db0", name)
		}
	}

	ba, _ := a.data.MarshalBinary()
	bb, _ := b.data.MarshalBinary()
	if !bytes.Equal(ba, bb) {
		t.Errorf("replicas diverged: snapshots of the two replicas differ")
	}
}

// Witness for (UserInfo).marshal/ensures:privileges_are_not_dropped. The scenario above was written by the seeding
// sub-agent for seed C07d and is kept verbatim; it drives the real state machine through snapshot and restore.
func TestGovcReplay(t *testing.T) {
	if !t.Run("scenario", TestDemoC07d) {
		fmt.Println("GOVC-REPLAY-ENSURES-FALSE: a user's per-database privileges were lost between snapshot and restore (see the subtest output above)")
		return
	}
	fmt.Println("GOVC-REPLAY-RETURNED")
}
