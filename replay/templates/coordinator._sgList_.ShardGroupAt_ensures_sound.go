package coordinator

import (
	"fmt"
	"testing"
	"time"

	"github.com/influxdata/influxdb/services/meta"
)

// Witness for coordinator.(sgList).ShardGroupAt/ensures:sound (model: the list holds a group that
// contains t but was truncated at or before t). The metadata never designates such a group for t.
func TestGovcReplay(t *testing.T) {
	defer func() {
		if r := recover(); r != nil {
			fmt.Printf("GOVC-REPLAY-PANIC: %v\n", r)
		}
	}()
	g := meta.ShardGroupInfo{ID: 1, StartTime: time.Unix(0, 0), EndTime: time.Unix(0, 100), TruncatedAt: time.Unix(0, 50),
		Shards: []meta.ShardInfo{{ID: 1, Owners: []meta.ShardOwner{{NodeID: 1}}}}}
	l := sgList{items: meta.ShardGroupInfos{g}, earliest: g.StartTime, latest: g.EndTime}
	at := time.Unix(0, 70)
	sg := l.ShardGroupAt(at)
	if sg != nil && (sg.Deleted() || (sg.Truncated() && !at.Before(sg.TruncatedAt)) || !sg.Contains(at)) {
		fmt.Printf("GOVC-REPLAY-ENSURES-FALSE: ShardGroupAt(%d) chose group %d truncated at %d\n", at.UnixNano(), sg.ID, sg.TruncatedAt.UnixNano())
		return
	}
	fmt.Println("GOVC-REPLAY-RETURNED")
}
