// govc-replay: race
package hh

// Demo for seed C19b (package directory: services/hh).
//
// Hinted-handoff writes for shards that already have a queue run concurrently
// with writes that create the queue of a new shard / a new node.  The
// Service.processors map must only be touched under Service.mu.  Run with
// the race detector:
//
//	go test -race -vet=off -count=1 -run 'Demo' ./services/hh/

import (
	"fmt"
	"sync"
	"testing"
	"time"

	"github.com/influxdata/influxdb/models"
	"github.com/influxdata/influxdb/services/meta"
)

type demoC19bShardWriter struct{}

func (demoC19bShardWriter) WriteShardBinary(shardID, ownerID uint64, points [][]byte) error {
	return nil
}

type demoC19bMetaClient struct{}

// DataNode reports every node as not (yet) active so the queues keep their data.
func (demoC19bMetaClient) DataNode(id uint64) (*meta.NodeInfo, error) { return nil, nil }

func TestDemoC19b_HintedHandoffConcurrentWriteShard(t *testing.T) {
	cfg := NewConfig()
	cfg.Dir = t.TempDir()

	s := NewService(cfg, demoC19bShardWriter{})
	s.MetaClient = demoC19bMetaClient{}
	if err := s.Open(); err != nil {
		t.Fatalf("open: %v", err)
	}
	defer s.Close()

	pt := models.MustNewPoint("cpu", models.NewTags(map[string]string{"host": "a"}),
		models.Fields{"value": 1.0}, time.Unix(1, 0))
	points := []models.Point{pt}

	// The queue for (node 1, shard 1) exists before the load starts.
	if err := s.WriteShard(1, 1, points); err != nil {
		t.Fatalf("initial write: %v", err)
	}

	const (
		newShards = 24 // new shards on the known node 1
		newNodes  = 8  // new owner nodes
		readers   = 4
	)

	var wg sync.WaitGroup
	stop := make(chan struct{})
	errs := make(chan error, readers+2)

	// Writers to the existing queue, and the write path's emptiness probe.
	var acked [readers]int
	for i := 0; i < readers; i++ {
		wg.Add(1)
		go func(i int) {
			defer wg.Done()
			for {
				select {
				case <-stop:
					return
				default:
				}
				if err := s.WriteShard(1, 1, points); err != nil {
					if err == ErrQueueBlocked {
						continue
					}
					errs <- err
					return
				}
				acked[i]++
				_ = s.Empty(1, 1)
			}
		}(i)
	}

	// Writers that make the service create new queues.
	var cwg sync.WaitGroup
	cwg.Add(2)
	go func() {
		defer cwg.Done()
		for shard := uint64(2); shard < 2+newShards; shard++ {
			if err := s.WriteShard(shard, 1, points); err != nil {
				errs <- err
				return
			}
			time.Sleep(time.Millisecond)
		}
	}()
	go func() {
		defer cwg.Done()
		for node := uint64(2); node < 2+newNodes; node++ {
			if err := s.WriteShard(1, node, points); err != nil {
				errs <- err
				return
			}
			time.Sleep(time.Millisecond)
		}
	}()
	cwg.Wait()
	close(stop)
	wg.Wait()

	select {
	case err := <-errs:
		t.Fatalf("write failed: %v", err)
	default:
	}

	// Every queue that acknowledged a write exists and is not empty.
	for shard := uint64(1); shard < 2+newShards; shard++ {
		if s.Empty(shard, 1) {
			t.Fatalf("queue for node 1 shard %d is empty after an acknowledged write", shard)
		}
	}
	for node := uint64(2); node < 2+newNodes; node++ {
		if s.Empty(1, node) {
			t.Fatalf("queue for node %d shard 1 is empty after an acknowledged write", node)
		}
	}
	total := 0
	for _, n := range acked {
		total += n
	}
	if total == 0 {
		t.Fatalf("no concurrent write to the existing queue was acknowledged")
	}
}

// Witness for (*Service).WriteShard/guard:callee_needs_s.mu@Service.processor#1 (model: the helper that reads the
// processors map is entered without the service lock). Runs under the race detector: the scenario above (written
// by the seeding sub-agent for seed C19b, kept verbatim) overlaps WriteShard calls for an existing queue with
// WriteShard calls that create new queues.
func TestGovcReplay(t *testing.T) {
	if !t.Run("concurrent-writeshard", TestDemoC19b_HintedHandoffConcurrentWriteShard) {
		fmt.Println("GOVC-REPLAY-ENSURES-FALSE: concurrent hinted-handoff writes race on the processors map (see the race report above)")
		return
	}
	fmt.Println("GOVC-REPLAY-RETURNED")
}
