package meta

import (
	"fmt"
	"testing"
	"time"

	"github.com/influxdata/influxql"
)

// Witness for the metadata round trip (Data.marshal/unmarshal and the per-type marshal/unmarshal contracts): a
// Data value in which every field of every info type is set - counters ahead of every id present, a truncated
// and a deleted shard group, users with privileges, subscriptions, continuous queries - goes through
// MarshalBinary and UnmarshalBinary (what FSM Persist/Restore and the client's snapshot fetch do) and must come
// back field for field.
func TestGovcReplay(t *testing.T) {
	defer func() {
		if r := recover(); r != nil {
			fmt.Printf("GOVC-REPLAY-PANIC: %v\n", r)
		}
	}()
	ts := func(h int) time.Time { return time.Unix(int64(h)*3600, 0).UTC() }
	x := &Data{
		Term: 7, Index: 42, ClusterID: 99,
		MaxNodeID: 9, MaxShardGroupID: 19, MaxShardID: 29, // all ahead of the ids in use: later elements were removed
		DataNodes: []NodeInfo{{ID: 2, Addr: "d2:8086", TCPAddr: "d2:8088"}, {ID: 4, Addr: "d4:8086", TCPAddr: "d4:8088"}},
		MetaNodes: []NodeInfo{{ID: 1, Addr: "m1:8091", TCPAddr: "m1:8089"}},
		Databases: []DatabaseInfo{{Name: "db", DefaultRetentionPolicy: "rp",
			RetentionPolicies: []RetentionPolicyInfo{{Name: "rp", ReplicaN: 2, Duration: 48 * time.Hour, ShardGroupDuration: time.Hour,
				ShardGroups: []ShardGroupInfo{
					{ID: 3, StartTime: ts(1), EndTime: ts(2), TruncatedAt: ts(1).Add(30 * time.Minute), Shards: []ShardInfo{{ID: 5, Owners: []ShardOwner{{NodeID: 2}, {NodeID: 4}}}}},
					{ID: 6, StartTime: ts(2), EndTime: ts(3), DeletedAt: ts(10), Shards: []ShardInfo{{ID: 8, Owners: []ShardOwner{{NodeID: 4}}}}},
				},
				Subscriptions: []SubscriptionInfo{{Name: "s", Mode: "ANY", Destinations: []string{"udp://h:1", "udp://h:2"}}}}},
			ContinuousQueries: []ContinuousQueryInfo{{Name: "cq", Query: "CREATE CONTINUOUS QUERY cq ON db BEGIN SELECT mean(v) INTO m2 FROM m GROUP BY time(1m) END"}}}},
		Users: []UserInfo{{Name: "admin", Hash: "h1", Admin: true}, {Name: "u", Hash: "h2", Privileges: map[string]influxql.Privilege{"db": influxql.WritePrivilege}}},
	}
	b, err := x.MarshalBinary()
	if err != nil {
		fmt.Println("GOVC-REPLAY-RETURNED", err)
		return
	}
	y := &Data{}
	if err := y.UnmarshalBinary(b); err != nil {
		fmt.Println("GOVC-REPLAY-RETURNED", err)
		return
	}
	x.adminUserExists = true // recomputed on unmarshal
	// compared through their printed form: a nil and an empty map or slice are the same metadata
	if fmt.Sprintf("%+v", *x) != fmt.Sprintf("%+v", *y) {
		fmt.Printf("GOVC-REPLAY-ENSURES-FALSE: UnmarshalBinary(MarshalBinary(x)) differs from x:\n sent     %+v\n restored %+v\n", *x, *y)
		return
	}
	fmt.Println("GOVC-REPLAY-RETURNED")
}
