package meta

import (
	"fmt"
	"testing"

	"github.com/influxdata/influxql"
)

// Witness for AuthorizeQuery/ensures:bootstrap_only_admin_creation (model: no users exist and the request
// has more than one statement, the first of which creates an admin).
func TestGovcReplay(t *testing.T) {
	defer func() {
		if r := recover(); r != nil {
			fmt.Printf("GOVC-REPLAY-PANIC: %v\n", r)
		}
	}()
	c := &Client{cacheData: &Data{}}
	a := NewQueryAuthorizer(c)
	q, err := influxql.ParseQuery(`CREATE USER root WITH PASSWORD 'p' WITH ALL PRIVILEGES; DROP DATABASE production`)
	if err != nil {
		fmt.Println("GOVC-REPLAY-RETURNED (parse error)", err)
		return
	}
	_, err = a.AuthorizeQuery(nil, q, "")
	if err == nil && len(q.Statements) > 1 {
		fmt.Printf("GOVC-REPLAY-ENSURES-FALSE: with no users, an unauthenticated request of %d statements (%s) is authorised wholesale\n", len(q.Statements), q.String())
		return
	}
	fmt.Println("GOVC-REPLAY-RETURNED", err)
}
