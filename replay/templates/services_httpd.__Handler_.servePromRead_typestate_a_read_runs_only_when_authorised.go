package httpd_test

// Witness for (*Handler).servePromRead/typestate:a_read_runs_only_when_authorised@ReadFilter#1 (model: authentication
// is on, prom-read-auth-enabled is off - the default - and the store is reached without any AuthorizeDatabase call).
// Real handler, authentication enabled, a user with valid credentials and no grant at all on the database.

import (
	"bytes"
	"context"
	"fmt"
	"net/http"
	"net/http/httptest"
	"testing"

	"github.com/gogo/protobuf/proto"
	"github.com/golang/snappy"
	"github.com/influxdata/influxdb/prometheus/remote"
	"github.com/influxdata/influxdb/services/httpd"
	"github.com/influxdata/influxdb/services/meta"
	"github.com/influxdata/influxdb/storage/reads"
	"github.com/influxdata/influxdb/storage/reads/datatypes"
	"github.com/influxdata/influxql"
)

type govcPromMeta struct {
	users     map[string]*meta.UserInfo
	passwords map[string]string
	dbs       map[string]bool
}

func (m *govcPromMeta) Database(name string) *meta.DatabaseInfo {
	if m.dbs[name] {
		return &meta.DatabaseInfo{Name: name}
	}
	return nil
}

func (m *govcPromMeta) Databases() []meta.DatabaseInfo {
	var out []meta.DatabaseInfo
	for name := range m.dbs {
		out = append(out, meta.DatabaseInfo{Name: name})
	}
	return out
}

func (m *govcPromMeta) Authenticate(username, password string) (meta.User, error) {
	u, ok := m.users[username]
	if !ok {
		return nil, meta.ErrUserNotFound
	}
	if pw, ok := m.passwords[username]; !ok || pw != password {
		return nil, meta.ErrAuthenticate
	}
	return u, nil
}

func (m *govcPromMeta) User(username string) (meta.User, error) {
	u, ok := m.users[username]
	if !ok {
		return nil, meta.ErrUserNotFound
	}
	return u, nil
}

func (m *govcPromMeta) AdminUserExists() bool {
	for _, u := range m.users {
		if u.Admin {
			return true
		}
	}
	return false
}


type govcPromStore struct{ reads []string }

func (s *govcPromStore) ReadFilter(ctx context.Context, req *datatypes.ReadFilterRequest) (reads.ResultSet, error) {
	s.reads = append(s.reads, fmt.Sprint(req.ReadSource))
	return nil, nil
}

func TestGovcReplay(t *testing.T) {
	mc := &govcPromMeta{
		users: map[string]*meta.UserInfo{
			"root":   {Name: "root", Admin: true},
			"nobody": {Name: "nobody", Privileges: map[string]influxql.Privilege{}},
		},
		passwords: map[string]string{"root": "rootpw", "nobody": "nobodypw"},
		dbs:       map[string]bool{"secret": true},
	}
	cfg := httpd.NewConfig()
	cfg.AuthEnabled = true
	cfg.LogEnabled = false
	h := httpd.NewHandler(cfg)
	st := &govcPromStore{}
	h.MetaClient = mc
	h.Store = st
	h.QueryAuthorizer = meta.NewQueryAuthorizer(nil)

	rr := &remote.ReadRequest{Queries: []*remote.Query{{StartTimestampMs: 0, EndTimestampMs: 1000,
		Matchers: []*remote.LabelMatcher{{Type: remote.MatchType_EQUAL, Name: "__name__", Value: "cpu"}}}}}
	raw, err := proto.Marshal(rr)
	if err != nil {
		t.Fatal(err)
	}
	req, err := http.NewRequest("POST", "/api/v1/prom/read?db=secret", bytes.NewReader(snappy.Encode(nil, raw)))
	if err != nil {
		t.Fatal(err)
	}
	req.SetBasicAuth("nobody", "nobodypw")
	w := httptest.NewRecorder()
	h.ServeHTTP(w, req)
	if len(st.reads) > 0 {
		fmt.Printf("GOVC-REPLAY-ENSURES-FALSE: authentication is on, user nobody holds no privilege on database secret, and the remote read was executed against the store (status %d, %d store reads)\n", w.Code, len(st.reads))
		return
	}
	fmt.Printf("GOVC-REPLAY-RETURNED status=%d body=%s\n", w.Code, w.Body.String())
}
