package meta

import (
	"fmt"
	"testing"
	"time"
)

// Witness for (*Data).TruncateShardGroups/inv-keep:never_grows (model: a group already truncated at T is
// truncated again with a different t). Groups are created and truncated alternately, as the commands arrive on
// a replica; after every command the live groups of the policy must cover pairwise disjoint ranges and no
// group's effective end may have moved forward.
func TestGovcReplay(t *testing.T) {
	defer func() {
		if r := recover(); r != nil {
			fmt.Printf("GOVC-REPLAY-PANIC: %v\n", r)
		}
	}()
	data := &Data{DataNodes: []NodeInfo{{ID: 1}}}
	if err := data.CreateDatabase("db"); err != nil {
		fmt.Println("GOVC-REPLAY-RETURNED", err)
		return
	}
	if err := data.CreateRetentionPolicy("db", &RetentionPolicyInfo{Name: "rp", ReplicaN: 1, Duration: 0, ShardGroupDuration: 24 * time.Hour}, true); err != nil {
		fmt.Println("GOVC-REPLAY-RETURNED", err)
		return
	}
	h := func(n int) time.Time { return time.Unix(0, 0).UTC().Add(time.Duration(n) * time.Hour) }
	eff := func(g ShardGroupInfo) time.Time {
		if g.Truncated() {
			return g.TruncatedAt
		}
		return g.EndTime
	}
	prev := map[uint64]time.Time{}
	check := func(step string) bool {
		groups := data.Databases[0].RetentionPolicies[0].ShardGroups
		for i, a := range groups {
			if a.Deleted() {
				continue
			}
			if p, ok := prev[a.ID]; ok && eff(a).After(p) {
				fmt.Printf("GOVC-REPLAY-ENSURES-FALSE: %s: the effective end of group %d moved forward from %v to %v\n", step, a.ID, p, eff(a))
				return false
			}
			prev[a.ID] = eff(a)
			for _, b := range groups[i+1:] {
				if !b.Deleted() && a.StartTime.Before(eff(b)) && b.StartTime.Before(eff(a)) {
					fmt.Printf("GOVC-REPLAY-ENSURES-FALSE: %s: live groups %d [%v,%v) and %d [%v,%v) overlap\n", step, a.ID, a.StartTime, eff(a), b.ID, b.StartTime, eff(b))
					return false
				}
			}
		}
		return true
	}
	steps := []struct {
		create   bool
		at       int
	}{{true, 1}, {false, 6}, {true, 8}, {false, 12}, {true, 13}, {false, 3}, {false, 20}, {true, 30}, {false, 26}, {false, 40}}
	for _, s := range steps {
		if s.create {
			if err := data.CreateShardGroup("db", "rp", h(s.at)); err != nil {
				fmt.Println("GOVC-REPLAY-RETURNED", err)
				return
			}
		} else {
			data.TruncateShardGroups(h(s.at))
		}
		if !check(fmt.Sprintf("after %v at hour %d", map[bool]string{true: "CreateShardGroup", false: "TruncateShardGroups"}[s.create], s.at)) {
			return
		}
	}
	fmt.Println("GOVC-REPLAY-RETURNED")
}
