package httpd_test

// Demo for seed C16d: a write must reach the points writer only if the
// authenticated user holds WRITE on the database the points are written to.
//
// Self-contained: builds a real httpd.Handler (auth enabled) with small fakes for
// the meta client, the write authorizer (backed by the real
// meta.UserInfo.AuthorizeDatabase) and the points writer, then drives /write and
// /api/v2/write through Handler.ServeHTTP.

import (
	"fmt"
	"net/http"
	"net/http/httptest"
	"strings"
	"testing"

	"github.com/influxdata/influxdb/models"
	"github.com/influxdata/influxdb/services/httpd"
	"github.com/influxdata/influxdb/services/meta"
	"github.com/influxdata/influxql"
)

type demoC16dMeta struct {
	users     map[string]*meta.UserInfo
	passwords map[string]string
	dbs       map[string]bool
}

func (m *demoC16dMeta) Database(name string) *meta.DatabaseInfo {
	if m.dbs[name] {
		return &meta.DatabaseInfo{Name: name}
	}
	return nil
}

func (m *demoC16dMeta) Databases() []meta.DatabaseInfo {
	var out []meta.DatabaseInfo
	for name := range m.dbs {
		out = append(out, meta.DatabaseInfo{Name: name})
	}
	return out
}

func (m *demoC16dMeta) Authenticate(username, password string) (meta.User, error) {
	u, ok := m.users[username]
	if !ok {
		return nil, meta.ErrUserNotFound
	}
	if pw, ok := m.passwords[username]; !ok || pw != password {
		return nil, meta.ErrAuthenticate
	}
	return u, nil
}

func (m *demoC16dMeta) User(username string) (meta.User, error) {
	u, ok := m.users[username]
	if !ok {
		return nil, meta.ErrUserNotFound
	}
	return u, nil
}

func (m *demoC16dMeta) AdminUserExists() bool {
	for _, u := range m.users {
		if u.Admin {
			return true
		}
	}
	return false
}

// demoC16dWriteAuthorizer mirrors meta.WriteAuthorizer but reads users from the fake.
type demoC16dWriteAuthorizer struct{ m *demoC16dMeta }

func (a demoC16dWriteAuthorizer) AuthorizeWrite(username, database string) error {
	u, ok := a.m.users[username]
	if !ok || !u.AuthorizeDatabase(influxql.WritePrivilege, database) {
		return fmt.Errorf("%s not authorized to write to %s", username, database)
	}
	return nil
}

type demoC16dWrite struct {
	db, rp, user string
	n            int
}

type demoC16dPointsWriter struct{ writes []demoC16dWrite }

func (p *demoC16dPointsWriter) WritePoints(database, retentionPolicy string, _ models.ConsistencyLevel, user meta.User, points []models.Point) error {
	name := ""
	if user != nil {
		name = user.ID()
	}
	p.writes = append(p.writes, demoC16dWrite{db: database, rp: retentionPolicy, user: name, n: len(points)})
	return nil
}

func TestDemoC16d_WriteAuthorisedForTheDatabaseWritten(t *testing.T) {
	mc := &demoC16dMeta{
		users: map[string]*meta.UserInfo{
			"root": {Name: "root", Admin: true},
			"writer": {Name: "writer", Privileges: map[string]influxql.Privilege{
				"public": influxql.WritePrivilege,
				"logs":   influxql.ReadPrivilege,
			}},
		},
		passwords: map[string]string{"root": "rootpw", "writer": "writerpw"},
		dbs:       map[string]bool{"public": true, "secret": true, "logs": true},
	}

	cfg := httpd.NewConfig()
	cfg.AuthEnabled = true
	cfg.LogEnabled = false
	h := httpd.NewHandler(cfg)
	pw := &demoC16dPointsWriter{}
	h.MetaClient = mc
	h.WriteAuthorizer = demoC16dWriteAuthorizer{m: mc}
	h.PointsWriter = pw

	// independent model: who may write where
	allowed := func(user, db string) bool {
		u := mc.users[user]
		if u == nil {
			return false
		}
		if u.Admin {
			return true
		}
		p, ok := u.Privileges[db]
		return ok && (p == influxql.WritePrivilege || p == influxql.AllPrivileges)
	}

	cases := []struct {
		name     string
		url      string
		user, pw string
		targetDB string // database the points would land in
	}{
		{"v1 granted", "/write?db=public", "writer", "writerpw", "public"},
		{"v1 no grant", "/write?db=secret", "writer", "writerpw", "secret"},
		{"v1 read-only grant", "/write?db=logs", "writer", "writerpw", "logs"},
		{"v1 admin", "/write?db=secret", "root", "rootpw", "secret"},
		{"v2 no grant on bucket", "/api/v2/write?org=o&bucket=secret/autogen", "writer", "writerpw", "secret"},
		// the request names a database the user MAY write (db=public) next to the
		// bucket it actually writes to (secret): the write goes to the bucket.
		{"v2 no grant on bucket, db param names a granted database", "/api/v2/write?org=o&bucket=secret/autogen&db=public", "writer", "writerpw", "secret"},
		{"v2 read-only grant on bucket, db param names a granted database", "/api/v2/write?org=o&bucket=logs&db=public", "writer", "writerpw", "logs"},
		{"v2 admin", "/api/v2/write?org=o&bucket=secret/autogen&db=public", "root", "rootpw", "secret"},
	}

	for _, c := range cases {
		pw.writes = nil
		req, err := http.NewRequest("POST", c.url, strings.NewReader("cpu value=1 1000000000\n"))
		if err != nil {
			t.Fatal(err)
		}
		req.SetBasicAuth(c.user, c.pw)
		w := httptest.NewRecorder()
		h.ServeHTTP(w, req)

		want := allowed(c.user, c.targetDB)

		// Safety: nothing is handed to the points writer for a database the user may not write.
		for _, wr := range pw.writes {
			if !allowed(wr.user, wr.db) {
				t.Errorf("%s: %s: %d point(s) written to database %q (rp %q) as user %q, who has no WRITE grant there (status %d)",
					c.name, c.url, wr.n, wr.db, wr.rp, wr.user, w.Code)
			}
			if wr.db != c.targetDB {
				t.Errorf("%s: %s: points went to %q, expected target %q", c.name, c.url, wr.db, c.targetDB)
			}
		}
		if !want {
			if w.Code != http.StatusForbidden {
				t.Errorf("%s: %s as %q: status %d, want 403 (body %s)", c.name, c.url, c.user, w.Code, strings.TrimSpace(w.Body.String()))
			}
			if len(pw.writes) != 0 {
				t.Errorf("%s: %s as %q: points writer invoked %d time(s) for an unauthorised write", c.name, c.url, c.user, len(pw.writes))
			}
		} else {
			if w.Code != http.StatusNoContent || len(pw.writes) != 1 {
				t.Errorf("%s: %s as %q: status %d, %d write(s); want 204 and one write (body %s)", c.name, c.url, c.user, w.Code, len(pw.writes), strings.TrimSpace(w.Body.String()))
			}
		}
	}

	// wrong password never writes, whatever the grants
	pw.writes = nil
	req, _ := http.NewRequest("POST", "/api/v2/write?org=o&bucket=public&db=public", strings.NewReader("cpu value=1\n"))
	req.SetBasicAuth("writer", "nope")
	w := httptest.NewRecorder()
	h.ServeHTTP(w, req)
	if w.Code != http.StatusUnauthorized || len(pw.writes) != 0 {
		t.Errorf("bad password: status %d, %d write(s); want 401 and none", w.Code, len(pw.writes))
	}
}

// Witness for services_httpd.__Handler_.serveWrite_typestate_authorised_for_the_database_that_is_written. The scenario above was written by the seeding sub-agent for seed C16d and is kept verbatim;
// it runs the real code.
func TestGovcReplay(t *testing.T) {
	if !t.Run("scenario", TestDemoC16d_WriteAuthorisedForTheDatabaseWritten) {
		fmt.Println("GOVC-REPLAY-ENSURES-FALSE: points were written to a database the caller holds no write privilege on (see the subtest output above)")
		return
	}
	fmt.Println("GOVC-REPLAY-RETURNED")
}
