package hh

import (
	"errors"
	"fmt"
	"strings"
	"sync"
	"testing"
	"time"

	"github.com/influxdata/influxdb/models"
	"github.com/influxdata/influxdb/services/meta"
	"github.com/influxdata/influxdb/toml"
)

// demoC04eWriter is the target node: while down it refuses every write with a retryable error,
// once up it records what it is handed, in order.
type demoC04eWriter struct {
	mu   sync.Mutex
	down bool
	got  []string
}

func (w *demoC04eWriter) WriteShardBinary(shardID, ownerID uint64, points [][]byte) error {
	w.mu.Lock()
	defer w.mu.Unlock()
	if w.down {
		return errors.New("connection refused")
	}
	var lines []string
	for _, b := range points {
		p, err := models.NewPointFromBytes(b)
		if err != nil {
			lines = append(lines, "undecodable: "+err.Error())
			continue
		}
		lines = append(lines, p.String())
	}
	w.got = append(w.got, fmt.Sprintf("node=%d shard=%d %s", ownerID, shardID, strings.Join(lines, ";")))
	return nil
}

func (w *demoC04eWriter) setDown(down bool) {
	w.mu.Lock()
	w.down = down
	w.mu.Unlock()
}

func (w *demoC04eWriter) delivered() []string {
	w.mu.Lock()
	defer w.mu.Unlock()
	return append([]string(nil), w.got...)
}

type demoC04eMeta struct{}

func (demoC04eMeta) DataNode(id uint64) (*meta.NodeInfo, error) {
	return &meta.NodeInfo{ID: id}, nil
}

// TestDemoC04e: blocks accepted for (node 2, shard 7) while the node is down must survive a clean
// restart of the hinted-handoff service: after the restart the service must not call the queue
// empty, and once the node is back every block must be delivered to node 2 / shard 7 in the order
// accepted.
func TestDemoC04e(t *testing.T) {
	const nodeID, shardID = uint64(2), uint64(7)

	cfg := NewConfig()
	cfg.Dir = t.TempDir()
	cfg.RetryInterval = toml.Duration(20 * time.Millisecond)
	cfg.RetryMaxInterval = toml.Duration(50 * time.Millisecond)
	cfg.PurgeInterval = toml.Duration(time.Hour)

	var exp []string
	point := func(i int) models.Point {
		return models.MustNewPoint("cpu", models.NewTags(map[string]string{"host": fmt.Sprintf("h%d", i)}),
			models.Fields{"value": float64(i)}, time.Unix(int64(i), 0))
	}

	// First life: the node is down, three blocks are accepted and stay queued.
	w1 := &demoC04eWriter{down: true}
	s1 := NewService(cfg, w1)
	s1.MetaClient = demoC04eMeta{}
	if err := s1.Open(); err != nil {
		t.Fatalf("open: %v", err)
	}
	for i := 1; i <= 3; i++ {
		p := point(i)
		if err := s1.WriteShard(shardID, nodeID, []models.Point{p}); err != nil {
			t.Fatalf("WriteShard %d: %v", i, err)
		}
		exp = append(exp, fmt.Sprintf("node=%d shard=%d %s", nodeID, shardID, p.String()))
	}
	if s1.Empty(shardID, nodeID) {
		t.Fatalf("before restart: three blocks pending but Empty() is true")
	}
	if err := s1.Close(); err != nil {
		t.Fatalf("close: %v", err)
	}
	if n := len(w1.delivered()); n != 0 {
		t.Fatalf("node was down, yet %d blocks were delivered", n)
	}

	// Second life: clean restart over the same directory, node still down at first.
	w2 := &demoC04eWriter{down: true}
	s2 := NewService(cfg, w2)
	s2.MetaClient = demoC04eMeta{}
	if err := s2.Open(); err != nil {
		t.Fatalf("reopen: %v", err)
	}
	defer s2.Close()

	if s2.Empty(shardID, nodeID) {
		t.Errorf("after restart: three accepted blocks were never delivered, but Service.Empty(shard %d, node %d) is true", shardID, nodeID)
	}

	// The node comes back: everything accepted before the restart must arrive, in order.
	w2.setDown(false)
	deadline := time.Now().Add(8 * time.Second)
	for time.Now().Before(deadline) && len(w2.delivered()) < len(exp) {
		time.Sleep(20 * time.Millisecond)
	}
	got := w2.delivered()
	if len(got) < len(exp) {
		t.Fatalf("after restart only %d of %d accepted blocks were delivered: %q", len(got), len(exp), got)
	}
	for i := range exp {
		if got[i] != exp[i] {
			t.Fatalf("delivery %d: got %q, want %q (all: %q)", i, got[i], exp[i], got)
		}
	}

	// And once delivered the queue is empty.
	deadline = time.Now().Add(5 * time.Second)
	for time.Now().Before(deadline) && !s2.Empty(shardID, nodeID) {
		time.Sleep(20 * time.Millisecond)
	}
	if !s2.Empty(shardID, nodeID) {
		t.Fatalf("everything delivered but Service.Empty() is still false")
	}
}

// Witness for services_hh.__Service_.Open_typestate_reopened_where_it_was_written. The scenario above was written by the seeding sub-agent for seed C04e and is kept verbatim;
// it runs the real code.
func TestGovcReplay(t *testing.T) {
	if !t.Run("scenario", TestDemoC04e) {
		fmt.Println("GOVC-REPLAY-ENSURES-FALSE: after a restart the queue of node 2 / shard 7 was re-opened on another directory: the blocks accepted before the restart are not delivered (see the subtest output above)")
		return
	}
	fmt.Println("GOVC-REPLAY-RETURNED")
}
