#!/usr/bin/env python3
# Generates MANIFEST.json from the claims table below (kept in one place so the manifest stays valid).
import json, subprocess
hooks = subprocess.check_output(['git','-C','/repo','log','--format=%H %s']).decode().splitlines()
hook_commits = [l.split()[0] for l in hooks if l.split(' ',1)[1].startswith(('verif:', 'verif hooks:'))]
TECH = "contract-based deductive verification: weakest-precondition VCs generated over go/ssa from contracts in <pkg>/verif_contracts.go, discharged by z3 5.1.0 / cvc5 1.0 / z3 4.8.12; counterexamples replayed on the real code via go test -overlay"
NOTE_COMMON = ("Trusted: go/ssa as the semantics of the code and govc's SSA-to-SMT translation; the trusted_base list in the evidence file (models of stdlib/protobuf/zap calls, assumed contracts); "
  "mathematical integers with no-overflow obligations on signed arithmetic; slice/string lengths <= 2^56; pointer receivers non-nil; no goroutine interleavings, no crash points, no liveness.")
claims = {}
def claim(pid, text, note, design):
    claims[pid] = dict(text=text, note=note, design=design)
na = {
 "C11": "whole-query-engine equivalence over physical layouts and against a reference evaluator: no per-function contract within reach of the generator expresses it; floats are uninterpreted in govc (DESIGN.md section 4)",
 "C14": "equivalence of two large stateful index implementations (tsi1: mmap, unsafe, roaring bitmaps) over histories of compaction and reopen: outside the generator's Go subset and beyond a per-function contract (DESIGN.md section 4)",
}
exec(open('/verif/claims.py').read())
checks = []
for pid in sorted(claims):
    c = claims[pid]
    checks.append({
      "property_id": pid,
      "quick_cmd": "/verif/bin/govc check %s quick" % pid,
      "thorough_cmd": "/verif/bin/govc check %s thorough" % pid,
      "evidence_file": "/verif/evidence/%s.json" % pid,
      "replay_cmd_template": "/verif/bin/govc replay {path}",
      "engine": "govc",
      "level_claimed": {"category": "proof", "text": c['text'], "design_ref": c['design']},
      "level_note": c['note'] + " " + NOTE_COMMON,
      "technique": TECH,
    })
all_ids = ["C%02d" % i for i in range(1, 20)]
not_app = [{"property_id": p, "reason": na.get(p, "no check registered yet for this property (work in progress; see DESIGN.md section 3)")} for p in all_ids if p not in claims]
m = {
 "version": 1,
 "setup_cmd": "cd /verif && ./setup.sh",
 "hooks": {
   "guard": "verif",
   "enable": "contracts are comment-only files <pkg>/verif_contracts.go guarded by //go:build verif; govc reads them as text and loads /repo's packages from the working tree",
   "baseline_off_cmd": "for m in $(cat /w/out/gomods.txt); do MF=$(cd /repo/$m && . /w/out/goenv.sh && gomodflag); (cd /repo/$m && go test $MF -json -vet=off -count=1 -timeout 25m ./...); done",
   "source_commits": hook_commits,
   "add_only": True,
 },
 "engines": [{"name": "govc", "path": "/verif/govc", "serves_properties": sorted(claims), "kind_free_text": "self-written weakest-precondition VC generator over go/ssa (x/tools v0.29.0) with contracts in guarded comment files; obligations discharged by z3-new 5.1.0, cvc5 1.0, z3 4.8.12; replay through go test -overlay"}],
 "checks": checks,
 "notes": "Every claimed check is contract-based deductive verification of the real Go code; bounded stand-ins, where present, are labelled in the evidence and never counted as discharged. fix: commits in /repo repair defects the checks found (see known_findings.json, status fixed).",
 "not_applicable": not_app,
}
json.dump(m, open('/verif/MANIFEST.json','w'), indent=1)
print(len(checks), "checks;", len(not_app), "not applicable; hook commits:", len(hook_commits))
