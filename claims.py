# property claims (read by gen_manifest.py)
claim("C05",
 "Proof, for all inputs and all values a remote response can carry, of the error-surfacing clause: each MetaExecutor RPC method (CreateIterator, ReadFilter, ReadGroup, FieldDimensions, IteratorCost, MapType, TagKeys, TagValues, MeasurementNames, SeriesSketches, MeasurementsSketches, TaskManagerStatement, executeOnNode) returns a non-nil error whenever the decoded response carries an error; plus run-time-panic freedom of those methods. The partition clause (each shard read from exactly one owner) is covered by the shuffleShards/mapShards contracts where listed in the evidence. Not decided: mid-stream failures, equality with a single-node reference.",
 "The remote peer is abstracted: DecodeTLVT fills the response arbitrarily; dial is an assumed contract returning a non-nil connection or an error.",
 "DESIGN.md 3/C05")
claim("C13",
 "Proof for every byte string: WriteWALEntry/DeleteWALEntry/DeleteRangeWALEntry.UnmarshalBinary never panic (all index/slice/make/overflow obligations discharged under loop invariants, with termination measures). Block-codec round trips are claimed only where the evidence lists their obligations.",
 "snappy, math.Float64frombits and bytes.Split are trusted pure models.",
 "DESIGN.md 3/C13")
claim("C15",
 "Proof for every byte stream: the frame reader (ReadLV/ReadTLV/ReadType and the Decode*/Encode*/Write* family) never panics and never allocates more than MaxMessageSize for a frame (alloc-bound obligation on make); WriteShardRequest.unmarshalPoints never hands a nil point to the store. Streamed query point codecs (protobuf-generated) are not covered.",
 "io.Reader/io.Writer/net.Conn/encoding.BinaryMarshaler are assumed contracts; binary.Read/io.ReadFull are trusted models; models.NewPointFromBytes and the field iterator behind Fields() are verified (shared with C12).",
 "DESIGN.md 3/C15")
claim("C18",
 "Proof of (1) the failure-atomic advertisement chain: coordinator.Client.CopyShard (and the sibling Client RPCs) return a non-nil error on any transport/decode error or when the response carries Err; (2) the block filter of a time-bounded export: for every block sequence and every window start<=end, Engine.filterFileToBackup writes a block if and only if its [min,max] intersects [start,end] (ghost flag checked at every loop iteration and at the WriteBlock call site). Equality of shard contents through the tar stream, restore, overlay and import is NOT decided by this technique.",
 "Client.dial is an assumed contract; response decoding is abstracted (arbitrary response); BlockIterator.Read is assumed to return minTime <= maxTime; NewTSMWriter/BlockIterator are assumed to return non-nil values; file-system and tar calls are abstracted.",
 "DESIGN.md 3/C18")
claim("C02",
 "Proof, for all sorted inputs of any length, of the kernels every read path funnels through: binary search (exact insertion point, no overflow, terminates), FindRange, Include (result is exactly the elements with min<=t<=max, in order, values aligned) and Exclude (exactly the others) for the five typed value slices of tsm1 and the six array types of tsdb/cursors; each generated copy is verified separately. The engine-level statement (cache/snapshot/file overlay under all interleavings) and Merge/Deduplicate are NOT decided; field-type conflict handling is claimed only where its obligations are listed in the evidence.",
 "sort.* is not used by these kernels; copy/append follow the Go memory model built into govc.",
 "DESIGN.md 3/C02")
claim("C09",
 "Proof of the same kernels (search/FindRange/Include/Exclude for all typed variants) that compaction's merge path is built from. The compaction iterators, planner and the install/abort ordering are NOT decided by the obligations registered so far.",
 "as C02",
 "DESIGN.md 3/C09")
claim("C10",
 "Proof that Exclude(min,max) removes exactly the points with min<=t<=max (inclusive at both ends, including min==max and the extreme int64 values), keeps every other point with its value and order, for all typed variants (tsm1 value slices and tsdb/cursors arrays); DeleteRangeWALEntry decoding is panic-free (shared with C13). Permanence across restart/compaction, crash points and concurrent snapshots are NOT decided.",
 "as C02",
 "DESIGN.md 3/C10")
claim("C03",
 "Proof for every replication factor, consistency level, per-owner outcome vector and arrival order (the owner goroutines, store, shard writer and hinted handoff are abstracted to arbitrary results): required = 1 | n/2+1 | n; success is reported only if that many owners answered without error and whenever all answers arrived and the level was met; too few successes => ErrPartialWrite, none => a failure that is not ErrPartialWrite; no owners => never success. For the per-owner body: exactly one result is sent on every path, hinted handoff is offered at most once and exactly once when the queue is non-empty or the direct write failed retryably, a refused handoff is an error, and under ANY an accepted handoff counts as success. Real network timing is not modelled.",
 "Channel receives yield arbitrary non-nil results (assumed message invariant, justified by the body's msg_non_nil postcondition); interface-typed environment of PointsWriter assumed not to write the writer's own fields; goroutine interleavings are not modelled (each arrival order is covered by the arbitrary receive).",
 "DESIGN.md 3/C03")
claim("C08",
 "Proof for all metadata values and timestamps: RetentionPolicyInfo.ShardGroupByTimestamp returns a group iff one designates the timestamp (contains it, not deleted, not truncated at or before it) and the returned pointer is that group; the write path's sgList.ShardGroupAt only ever returns a list element that designates the timestamp; the shard hash is FNV-64a of the series key bytes and nothing else (InlineFNV64a.Write against a fold spec, HashID). Batch partition counting in MapShards and tag-order canonicalisation are claimed only where their obligations are listed in the evidence.",
 "sort.Search modelled by its unconditional post-condition with the predicate inlined; sort.Sort call is excluded by the precondition !needsSort of the verified path.",
 "DESIGN.md 3/C08")
claim("C16",
 "Proof for every user record and every statement list: UserInfo.AuthorizeDatabase is exactly `admin or no-privilege-needed or grant equals / is ALL`; QueryAuthorizer.AuthorizeQuery returns nil only if (users exist) the user is a *UserInfo that is admin or whose grants cover every privilege of every statement on the statement's database or the default one, with admin-only statements refused. The required privileges of a statement are an uninterpreted function (influxql). Known finding recorded: the no-users bootstrap inspects only the first statement. HTTP middleware and the credential cache are not covered.",
 "influxql Statement.RequiredPrivileges assumed deterministic; bcrypt/JWT/httpd out of scope.",
 "DESIGN.md 3/C16")
claim("C17",
 "Proof for every policy, group set and time: ExpiredShardGroups returns exactly (sound and complete, via ghost witness positions) the pointers to groups that are not deleted and whose EndTime+Duration is before t, and nothing when Duration==0; DeletedShardGroups returns exactly the deleted groups; both leave the metadata untouched (frame). The retention service loop and liveness ('eventually') are not decided.",
 "time.Time modelled as an instant (nanos); Add/Before/IsZero trusted.",
 "DESIGN.md 3/C17")
claim("C04",
 "Proof, for all inputs: unmarshalWrite never panics on any block bytes and terminates; marshalWrite always emits the 8-byte shard header; NodeProcessor.WriteShard's bisection hands the points to the queue in contiguous, in-order chunks and reports success only when every point was handed over (ghost counter), terminating; queue.loadSegments returns the segments in id order whatever order the directory lists them (sort.Sort modelled by the type's own Less); queue.Empty is true exactly when no block is pending (on disk or buffered). Crash points, torn writes, purge by age and the concurrent buffered path are NOT decided.",
 "os/bytes.Buffer/file-system calls are assumed contracts without a file model; queue.Append is an assumed contract at WriteShard's call site; newSegment is assumed to return a fresh segment with the requested id.",
 "DESIGN.md 3/C04")
claim("C06",
 "Proof for every metadata value satisfying the stated well-formedness preconditions: Data.CreateShardGroup creates a group whose range contains the timestamp and is disjoint from the effective range of every live (non-deleted, possibly truncated) group of the policy; the group ID and the shard IDs are the next unused counter values (counters are incremented first and never decrease); every shard gets exactly clamp(ReplicaN,1,#nodes) owners. The shardN search loop's bound (shardN <= #nodes) is an ASSUMED invariant (number-theoretic; listed in the evidence), owner distinctness/evenness and determinism of the whole FSM are not decided yet.",
 "Preconditions: #nodes <= 4096, ID counters far from 2^64, every RetentionPolicyInfo has ReplicaN >= 0 and ShardGroupDuration > 0, truncated groups have TruncatedAt <= EndTime. Nonlinear products/divisions are kept abstract (uf_mul/uf_rem with valid bounds). sort.Sort of the group list happens after the checked point.",
 "DESIGN.md 3/C06")
claim("C07",
 "Proof of the snapshot-isolation mechanism only: Data.Clone and the clone methods of DatabaseInfo, RetentionPolicyInfo, ShardGroupInfo, ShardInfo, UserInfo and CloneDatabases/CloneUsers return values every slice/map field of which is empty or freshly allocated by the call (two levels deep for shard groups), of the original's length, and write nothing that existed before (frame). Hence a published metadata object is never mutated through its clone. Raft, failover, restart, log replay, validateCommand and the protobuf round trip are NOT decided.",
 "copy/make/append follow the memory model built into govc.",
 "DESIGN.md 3/C07")
claim("C12",
 "Proof for every byte string: the line-protocol scanner (ParsePointsWithPrecision, parsePoint, scanKey, scanMeasurement, scanTags, scanTagsKey, scanTagsValue, scanFields, scanNumber, scanBoolean, scanTime, scanLine, scanTo, scanToSpaceOr, scanTagValue, scanFieldValue, skipWhitespace, insertionSort, less, walkFields, unescapeStringField) never panics (every index, slice, make and overflow obligation discharged under loop invariants; inter-procedural index facts carried by contracts, e.g. scanKey ends at an unescaped space so scanFields' look-behind is in range), a failing line leaves the points accepted so far in place and every accepted point is non-nil; the binary decoder (point.UnmarshalBinary, NewPointFromBytes, the field iterator Next/StringValue and point.unmarshalBinary behind Fields()) never panics on any bytes; MarshalBinary writes len32(key)|key|len32(fields)|fields|time and UnmarshalBinary reads that layout, and the layout determines key and fields (lemma), so the binary form reproduces both byte for byte. ONE assumption is not proved and is covered by a BOUNDED stand-in only: in scanKey's re-sort path the rebuilt key fits its buffer. Textual round trip, escape/unescape inverses and tag-order independence of key and hash are BOUNDED (exhaustive small-scope runs of the real parser), not proved.",
 "parseIntBytes/parseUintBytes/parseFloatBytes/parseBoolBytes (unsafe string cast + strconv) and pkg/escape helpers are trusted models; time.Time.UnmarshalBinary is modelled as: success implies at least 15 input bytes.",
 "DESIGN.md 3/C12")
