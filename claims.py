# property claims (read by gen_manifest.py)
claim("C05",
 "Proof, for all inputs and all values a remote response can carry, of the error-surfacing clause: each MetaExecutor RPC method (CreateIterator, ReadFilter, ReadGroup, FieldDimensions, IteratorCost, MapType, TagKeys, TagValues, MeasurementNames, SeriesSketches, MeasurementsSketches, TaskManagerStatement, executeOnNode) returns a non-nil error whenever the decoded response carries an error; plus run-time-panic freedom of those methods. The partition clause (each shard read from exactly one owner) is covered by the shuffleShards/mapShards contracts where listed in the evidence. Not decided: mid-stream failures, equality with a single-node reference.",
 "The remote peer is abstracted: DecodeTLVT fills the response arbitrarily; dial is an assumed contract returning a non-nil connection or an error.",
 "DESIGN.md 3/C05")
claim("C13",
 "Proof for every byte string: WriteWALEntry/DeleteWALEntry/DeleteRangeWALEntry.UnmarshalBinary never panic (all index/slice/make/overflow obligations discharged under loop invariants, with termination measures). Block-codec round trips are claimed only where the evidence lists their obligations.",
 "snappy, math.Float64frombits and bytes.Split are trusted pure models.",
 "DESIGN.md 3/C13")
claim("C15",
 "Proof for every byte stream: the frame reader (ReadLV/ReadTLV/ReadType and the Decode*/Encode*/Write* family) never panics and never allocates more than MaxMessageSize for a frame (alloc-bound obligation on make); WriteShardRequest.unmarshalPoints never hands a nil point to the store. Streamed query point codecs (protobuf-generated) are not covered.",
 "io.Reader/io.Writer/net.Conn/encoding.BinaryMarshaler are assumed contracts; binary.Read/io.ReadFull are trusted models; models.NewPointFromBytes is an assumed contract here (verified separately under C12 where listed).",
 "DESIGN.md 3/C15")
claim("C18",
 "Proof of the failure-atomic advertisement chain only: coordinator.Client.CopyShard (and the sibling Client RPCs) return a non-nil error on any transport/decode error or when the response carries Err. Equality of shard contents through backup/restore is NOT decided by this technique.",
 "Client.dial is an assumed contract; response decoding is abstracted (arbitrary response).",
 "DESIGN.md 3/C18")
