# property claims (read by gen_manifest.py)
claim("C05",
 "Proof, for all inputs and all values a remote response can carry, of the error-surfacing clause: each MetaExecutor RPC method (CreateIterator, ReadFilter, ReadGroup, FieldDimensions, IteratorCost, MapType, TagKeys, TagValues, MeasurementNames, SeriesSketches, MeasurementsSketches, TaskManagerStatement, executeOnNode) returns a non-nil error whenever the decoded response carries an error; plus run-time-panic freedom of those methods. The partition clause (each shard read from exactly one owner) is covered by the shuffleShards/mapShards contracts where listed in the evidence. Not decided: mid-stream failures, equality with a single-node reference.",
 "The remote peer is abstracted: DecodeTLVT fills the response arbitrarily; dial is an assumed contract returning a non-nil connection or an error.",
 "DESIGN.md 3/C05")
claim("C13",
 "Proof for every byte string: WriteWALEntry/DeleteWALEntry/DeleteRangeWALEntry.UnmarshalBinary never panic (all index/slice/make/overflow obligations discharged under loop invariants, with termination measures). Block-codec round trips are claimed only where the evidence lists their obligations.",
 "snappy, math.Float64frombits and bytes.Split are trusted pure models.",
 "DESIGN.md 3/C13")
claim("C15",
 "Proof for every byte stream: the frame reader (ReadLV/ReadTLV/ReadType and the Decode*/Encode*/Write* family) never panics and never allocates more than MaxMessageSize for a frame (alloc-bound obligation on make); WriteShardRequest.unmarshalPoints never hands a nil point to the store. Streamed query point codecs (protobuf-generated) are not covered.",
 "io.Reader/io.Writer/net.Conn/encoding.BinaryMarshaler are assumed contracts; binary.Read/io.ReadFull are trusted models; models.NewPointFromBytes is an assumed contract here (verified separately under C12 where listed).",
 "DESIGN.md 3/C15")
claim("C18",
 "Proof of the failure-atomic advertisement chain only: coordinator.Client.CopyShard (and the sibling Client RPCs) return a non-nil error on any transport/decode error or when the response carries Err. Equality of shard contents through backup/restore is NOT decided by this technique.",
 "Client.dial is an assumed contract; response decoding is abstracted (arbitrary response).",
 "DESIGN.md 3/C18")
claim("C02",
 "Proof, for all sorted inputs of any length, of the kernels every read path funnels through: binary search (exact insertion point, no overflow, terminates), FindRange, Include (result is exactly the elements with min<=t<=max, in order, values aligned) and Exclude (exactly the others) for the five typed value slices of tsm1 and the six array types of tsdb/cursors; each generated copy is verified separately. The engine-level statement (cache/snapshot/file overlay under all interleavings) and Merge/Deduplicate are NOT decided; field-type conflict handling is claimed only where its obligations are listed in the evidence.",
 "sort.* is not used by these kernels; copy/append follow the Go memory model built into govc.",
 "DESIGN.md 3/C02")
claim("C09",
 "Proof of the same kernels (search/FindRange/Include/Exclude for all typed variants) that compaction's merge path is built from. The compaction iterators, planner and the install/abort ordering are NOT decided by the obligations registered so far.",
 "as C02",
 "DESIGN.md 3/C09")
claim("C10",
 "Proof that Exclude(min,max) removes exactly the points with min<=t<=max (inclusive at both ends, including min==max and the extreme int64 values), keeps every other point with its value and order, for all typed variants (tsm1 value slices and tsdb/cursors arrays); DeleteRangeWALEntry decoding is panic-free (shared with C13). Permanence across restart/compaction, crash points and concurrent snapshots are NOT decided.",
 "as C02",
 "DESIGN.md 3/C10")
