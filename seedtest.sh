#!/bin/sh
# usage: seedtest.sh <PROP> <patch.diff> : applies a seeded change to /repo, runs the quick check, reverts it.
# Refuses to run when /repo has uncommitted changes (they would be at risk); reverts with `git apply -R`.
PROP=$1; PATCH=$2
if [ -n "$(git -C /repo status --porcelain)" ]; then echo "seedtest: /repo has uncommitted changes; commit them first"; exit 3; fi
git -C /repo apply "$PATCH" || { echo "patch does not apply"; exit 3; }
rm -f /verif/replay/out/$PROP-*
# the evidence file describes runs on the unchanged tree: keep it out of the seeded run's way
cp /verif/evidence/$PROP.json /tmp/seedtest_evidence_$PROP.json 2>/dev/null
/verif/bin/govc check $PROP quick | cut -c1-300
[ -f /tmp/seedtest_evidence_$PROP.json ] && mv /tmp/seedtest_evidence_$PROP.json /verif/evidence/$PROP.json
git -C /repo apply -R "$PATCH"
git -C /repo status --short | head -3
